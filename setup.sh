#!/bin/bash
# Build the framework from files on disk only (offline).
set -e
cd "$(dirname "$0")"
export CARGO_NET_OFFLINE=true
(cd tools/astdump && cargo build --release --offline 2>&1 | tail -2)
if [ -d tools/fvfacts ]; then
  (cd tools/fvfacts && cargo +nightly build --release --offline 2>&1 | tail -2)
fi
echo "setup ok"
