#!/usr/bin/env python3
"""Coverage audit (a development aid, not a check): which non-test functions of a property's anchor files does
its check never look into?  Run every check with FV_TRACE_FNS=/tmp/trace_<ID>.txt first."""
import json, os, sys
sys.path.insert(0, "/verif")
from fv import ast as A
for line in open("/verif/properties.jsonl"):
    p = json.loads(line)
    if len(sys.argv) > 1 and p["id"] not in sys.argv[1:]:
        continue
    seen = set()
    try:
        for l in open("/tmp/trace_%s.txt" % p["id"]):
            f, lab, t = l.rstrip("\n").split("\t")
            seen.add((f, lab))
    except OSError:
        continue
    print("==", p["id"], p["title"])
    for f in p["anchors"]["files"]:
        if not f.endswith(".rs"):
            continue
        try:
            fl = A.fns(f)
        except Exception as e:
            print("   ", f, "??", e); continue
        miss = [x for x in fl if (f, A.fn_label(x)) not in seen and dict.get(x, "body")]
        print("  %s: %d of %d fns never opened" % (f, len(miss), len(fl)))
        for x in miss:
            n = len(A.stmts_of(dict.get(x, "body")) or [])
            print("      %-60s ln %s  (%d stmts)" % (A.fn_label(x)[:60], x.get("ln"), n))
