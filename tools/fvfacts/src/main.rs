//! fvfacts: a rustc driver (RUSTC_WORKSPACE_WRAPPER) that dumps resolved facts about
//! every function body of the workspace crates as JSON lines: call edges with
//! resolved callees, ADT aggregate constructions, field writes, assert terminators.
//! Nothing is executed; the facts come from type-checked MIR.
#![feature(rustc_private)]

extern crate rustc_driver;
extern crate rustc_hir;
extern crate rustc_interface;
extern crate rustc_middle;
extern crate rustc_span;

use rustc_driver::{Callbacks, Compilation};
use rustc_hir::def::DefKind;
use rustc_middle::mir::{AggregateKind, ProjectionElem, Rvalue, StatementKind, TerminatorKind};
use rustc_middle::ty::{self, Instance, TyCtxt, TypingEnv};
use std::fmt::Write as _;

struct Cb;

fn esc(s: &str) -> String {
    let mut o = String::with_capacity(s.len() + 2);
    for c in s.chars() {
        match c {
            '"' => o.push_str("\\\""),
            '\\' => o.push_str("\\\\"),
            '\n' => o.push_str("\\n"),
            c if (c as u32) < 0x20 => {}
            c => o.push(c),
        }
    }
    o
}

fn loc(tcx: TyCtxt<'_>, sp: rustc_span::Span) -> (String, usize) {
    let sm = tcx.sess.source_map();
    let lo = sm.lookup_char_pos(sp.lo());
    let name = match &lo.file.name {
        rustc_span::FileName::Real(r) => r
            .local_path()
            .map(|p| p.to_string_lossy().to_string())
            .unwrap_or_else(|| format!("{:?}", r)),
        other => format!("{:?}", other),
    };
    (name, lo.line)
}

impl Callbacks for Cb {
    fn after_analysis<'tcx>(
        &mut self,
        _compiler: &rustc_interface::interface::Compiler,
        tcx: TyCtxt<'tcx>,
    ) -> Compilation {
        let out_dir = match std::env::var("FVFACTS_OUT") {
            Ok(d) => d,
            Err(_) => return Compilation::Continue,
        };
        let krate = tcx.crate_name(rustc_hir::def_id::LOCAL_CRATE).to_string();
        if !(krate.starts_with("fidget") || krate == "fvfixture") {
            return Compilation::Continue;
        }
        let mut buf = String::new();
        for ldid in tcx.mir_keys(()) {
            let did = ldid.to_def_id();
            let kind = tcx.def_kind(did);
            if !matches!(kind, DefKind::Fn | DefKind::AssocFn | DefKind::Closure) {
                continue;
            }
            if !tcx.is_mir_available(did) {
                continue;
            }
            let body = tcx.optimized_mir(did);
            let name = tcx.def_path_str(did);
            let (file, line) = loc(tcx, body.span);
            let _ = write!(
                buf,
                "{{\"k\":\"fn\",\"crate\":\"{}\",\"name\":\"{}\",\"file\":\"{}\",\"line\":{},\"kind\":\"{:?}\"}}\n",
                esc(&krate), esc(&name), esc(&file), line, kind
            );
            let tenv = TypingEnv::post_analysis(tcx, did);
            for bb in body.basic_blocks.iter() {
                for st in &bb.statements {
                    if let StatementKind::Assign(b) = &st.kind {
                        let (place, rv) = &**b;
                        // field writes: the innermost ADT + field of the assigned place
                        let mut ty = body.local_decls[place.local].ty;
                        let mut last: Option<(String, String)> = None;
                        for elem in place.projection.iter() {
                            match elem {
                                ProjectionElem::Deref => {
                                    ty = ty.builtin_deref(true).unwrap_or(ty);
                                }
                                ProjectionElem::Field(f, fty) => {
                                    if let ty::Adt(adt, _) = ty.kind() {
                                        if adt.is_struct() {
                                            let fd = &adt.non_enum_variant().fields[f];
                                            last = Some((tcx.def_path_str(adt.did()), fd.name.to_string()));
                                        }
                                    }
                                    ty = fty;
                                }
                                _ => {
                                    last = last; // indexing etc. keeps the owner
                                    break;
                                }
                            }
                        }
                        if let Some((adt, field)) = last {
                            let (_f, l) = loc(tcx, st.source_info.span);
                            let _ = write!(
                                buf,
                                "{{\"k\":\"write\",\"fn\":\"{}\",\"adt\":\"{}\",\"field\":\"{}\",\"line\":{}}}\n",
                                esc(&name), esc(&adt), esc(&field), l
                            );
                        }
                        if let Rvalue::Aggregate(ak, _) = rv {
                            if let AggregateKind::Adt(adid, vidx, _, _, _) = &**ak {
                                let adt = tcx.adt_def(*adid);
                                let v = adt.variant(*vidx);
                                let (_f, l) = loc(tcx, st.source_info.span);
                                let exp = st.source_info.span.from_expansion();
                                let _ = write!(
                                    buf,
                                    "{{\"k\":\"agg\",\"fn\":\"{}\",\"adt\":\"{}\",\"variant\":\"{}\",\"line\":{},\"macro\":{}}}\n",
                                    esc(&name), esc(&tcx.def_path_str(*adid)), esc(v.name.as_str()), l, exp
                                );
                            }
                        }
                    }
                }
                if let Some(term) = &bb.terminator {
                    match &term.kind {
                        TerminatorKind::Call { func, .. } | TerminatorKind::TailCall { func, .. } => {
                            let fty = func.ty(&body.local_decls, tcx);
                            if let ty::FnDef(cdid, args) = fty.kind() {
                                let mut callee = tcx.def_path_str(*cdid);
                                let mut resolved = "direct";
                                if tcx.trait_of_assoc(*cdid).is_some() {
                                    resolved = "trait";
                                    if let Ok(Some(inst)) = Instance::try_resolve(tcx, tenv, *cdid, args) {
                                        callee = tcx.def_path_str(inst.def_id());
                                        resolved = "resolved";
                                    }
                                }
                                let (_f, l) = loc(tcx, term.source_info.span);
                                let exp = term.source_info.span.from_expansion();
                                let _ = write!(
                                    buf,
                                    "{{\"k\":\"call\",\"fn\":\"{}\",\"callee\":\"{}\",\"how\":\"{}\",\"line\":{},\"macro\":{}}}\n",
                                    esc(&name), esc(&callee), resolved, l, exp
                                );
                            } else {
                                let (_f, l) = loc(tcx, term.source_info.span);
                                let _ = write!(buf, "{{\"k\":\"call\",\"fn\":\"{}\",\"callee\":\"<indirect>\",\"how\":\"indirect\",\"line\":{},\"macro\":false}}\n", esc(&name), l);
                            }
                        }
                        TerminatorKind::Assert { msg, .. } => {
                            let (_f, l) = loc(tcx, term.source_info.span);
                            let k = format!("{:?}", std::mem::discriminant(&**msg));
                            let d = match &**msg {
                                rustc_middle::mir::AssertKind::BoundsCheck { .. } => "bounds",
                                rustc_middle::mir::AssertKind::Overflow(..) => "overflow",
                                rustc_middle::mir::AssertKind::OverflowNeg(..) => "overflow",
                                rustc_middle::mir::AssertKind::DivisionByZero(..) => "div0",
                                rustc_middle::mir::AssertKind::RemainderByZero(..) => "rem0",
                                _ => "other",
                            };
                            let _ = k;
                            let _ = write!(buf, "{{\"k\":\"assert\",\"fn\":\"{}\",\"what\":\"{}\",\"line\":{}}}\n", esc(&name), d, l);
                        }
                        _ => {}
                    }
                }
            }
        }
        // unsafe impls of auto traits
        for id in tcx.hir_free_items() {
            let item = tcx.hir_item(id);
            if let rustc_hir::ItemKind::Impl(imp) = &item.kind {
                if let Some(of) = &imp.of_trait {
                    let unsafe_ = matches!(of.safety, rustc_hir::Safety::Unsafe);
                    if unsafe_ {
                        let did = item.owner_id.to_def_id();
                        if let Some(tr) = tcx.impl_opt_trait_ref(did) {
                            let tr = tr.skip_binder();
                            let (f, l) = loc(tcx, item.span);
                            let _ = write!(
                                buf,
                                "{{\"k\":\"unsafe_impl\",\"trait\":\"{}\",\"ty\":\"{}\",\"file\":\"{}\",\"line\":{}}}\n",
                                esc(&tcx.def_path_str(tr.def_id)), esc(&format!("{}", tr.self_ty())), esc(&f), l
                            );
                        }
                    }
                }
            }
        }
        let path = format!("{}/{}-{}.jsonl", out_dir, krate, std::process::id());
        let _ = std::fs::write(path, buf);
        Compilation::Continue
    }
}

fn main() {
    let mut args: Vec<String> = std::env::args().collect();
    // RUSTC_WORKSPACE_WRAPPER: argv[1] is the real rustc
    if args.len() > 1 && (args[1].ends_with("rustc") || args[1].contains("/rustc")) {
        args.remove(1);
    }
    rustc_driver::run_compiler(&args, &mut Cb);
}
