#!/usr/bin/env python3
"""Regression over the behaviour-preserving refactors in benign/: apply each to a scratch copy of /repo's
HEAD (outside /repo and /verif), run all 20 quick checks against it, require silence.
usage: benign_quick.py [ids...]"""
import concurrent.futures as cf, os, shutil, subprocess, sys, tempfile

V = "/verif"
PROPS = ["C%02d" % i for i in range(1, 21)]


def run(args):
    pid, root = args
    r = subprocess.run([os.path.join(V, "check"), pid], env=dict(os.environ, FV_REPO=root, FV_NO_EVIDENCE="1"), capture_output=True, text=True)
    return pid, r.returncode, [l.strip()[:160] for l in r.stdout.splitlines() if l.strip().startswith("[")]


def main():
    only = set(sys.argv[1:])
    root = tempfile.mkdtemp(prefix="fv-benignquick-")
    alarms = n = 0
    rows = []
    try:
        subprocess.run("git -C /repo archive HEAD | tar -x -C %s" % root, shell=True, check=True)
        subprocess.run("cd %s && git init -q . && git add -A >/dev/null && git -c user.email=a@b -c user.name=x commit -qm base" % root, shell=True, check=True)
        for d in sorted(os.listdir(os.path.join(V, "benign"))):
            p = os.path.join(V, "benign", d, "patch.diff")
            if not os.path.isfile(p) or (only and d not in only and d[:3] not in only):
                continue
            n += 1
            if subprocess.run(["git", "-C", root, "apply", p]).returncode != 0:
                print(d, "patch does not apply"); alarms += 1; continue
            props = PROPS
            if os.environ.get("BENIGN_TOUCHED"):
                # only the properties anchored in (or including rules about) the files this patch touches
                import json, re
                touched = set(re.findall(r"^\+\+\+ b/(\S+)", open(p).read(), re.M))
                anch = {}
                for line in open(os.path.join(V, "properties.jsonl")):
                    q = json.loads(line)
                    for f in q["anchors"]["files"]:
                        anch.setdefault(f, set()).add(q["id"])
                props = set()
                for f in touched:
                    props |= anch.get(f, set())
                    if f.startswith("fidget-mesh/"):
                        props |= {"C08", "C09"}
                    if f.startswith("fidget-shapes/"):
                        props |= {"C16", "C17"}
                    if f.startswith("fidget-core/src/shape/"):
                        props |= {"C08", "C06", "C07", "C14", "C10"}
                    if f.startswith("fidget-core/src/types/") or f.startswith("fidget-core/src/vm/") or f.startswith("fidget-jit/"):
                        props |= {"C06", "C08", "C04", "C20", "C02", "C01"}
                props = sorted(props) or [d[:3]]
            with cf.ThreadPoolExecutor(max_workers=10) as ex:
                res = list(ex.map(run, [(pid, root) for pid in props]))
            subprocess.run("cd %s && git checkout -q -- . && git clean -fdq" % root, shell=True)
            bad = [(pid, keys) for pid, rc, keys in res if rc != 0]
            rows.append((d, bad))
            if bad:
                alarms += 1
                print("ALARM", d, [(pid, k[:1]) for pid, k in bad])
            else:
                print("ok   ", d)
    finally:
        shutil.rmtree(root, ignore_errors=True)
    print("benign_quick: %d refactors, %d raised an alarm" % (n, alarms))
    if not only:
        import json
        lines = ["# Behaviour-preserving refactors and what the checks said", "",
                 "Written by sub-agents that saw only the property text (tools/gen_benign_prompt.py; `r2` = second round, asked",
                 "for different sites and kinds of refactor). Each is applied to a scratch copy of /repo's HEAD and all 20 quick",
                 "checks are run (tools/benign_quick.py). Expected: silent.", "", "| refactor | what it does | result |", "|---|---|---|"]
        for d, bad in rows:
            try:
                summ = str(json.load(open(os.path.join(V, "benign", d, "meta.json"))).get("summary", ""))[:140].replace("|", "/").replace("\n", " ")
            except Exception:
                summ = ""
            lines.append("| %s | %s | %s |" % (d, summ, "silent" if not bad else "; ".join("%s: `%s`" % (p, (k[0] if k else "")[:70]) for p, k in bad)))
        lines += ["", "%d refactors, %d raised an alarm." % (n, alarms)]
        open(os.path.join(V, "benign", "RESULTS.md"), "w").write("\n".join(lines) + "\n")
    return 1 if alarms else 0


if __name__ == "__main__":
    sys.exit(main())
