#!/usr/bin/env python3
"""Regression over the behaviour-preserving refactors in benign/: apply each to a scratch copy of /repo's
HEAD (outside /repo and /verif), run all 20 quick checks against it, require silence.
usage: benign_quick.py [ids...]"""
import concurrent.futures as cf, os, shutil, subprocess, sys, tempfile

V = "/verif"
PROPS = ["C%02d" % i for i in range(1, 21)]


def run(args):
    pid, root = args
    r = subprocess.run([os.path.join(V, "check"), pid], env=dict(os.environ, FV_REPO=root, FV_NO_EVIDENCE="1"), capture_output=True, text=True)
    return pid, r.returncode, [l.strip()[:160] for l in r.stdout.splitlines() if l.strip().startswith("[")]


def main():
    only = set(sys.argv[1:])
    root = tempfile.mkdtemp(prefix="fv-benignquick-")
    alarms = n = 0
    try:
        subprocess.run("git -C /repo archive HEAD | tar -x -C %s" % root, shell=True, check=True)
        subprocess.run("cd %s && git init -q . && git add -A >/dev/null && git -c user.email=a@b -c user.name=x commit -qm base" % root, shell=True, check=True)
        for d in sorted(os.listdir(os.path.join(V, "benign"))):
            p = os.path.join(V, "benign", d, "patch.diff")
            if not os.path.isfile(p) or (only and d not in only and d[:3] not in only):
                continue
            n += 1
            if subprocess.run(["git", "-C", root, "apply", p]).returncode != 0:
                print(d, "patch does not apply"); alarms += 1; continue
            with cf.ThreadPoolExecutor(max_workers=10) as ex:
                res = list(ex.map(run, [(pid, root) for pid in PROPS]))
            subprocess.run("cd %s && git checkout -q -- . && git clean -fdq" % root, shell=True)
            bad = [(pid, keys) for pid, rc, keys in res if rc != 0]
            if bad:
                alarms += 1
                print("ALARM", d, [(pid, k[:1]) for pid, k in bad])
            else:
                print("ok   ", d)
    finally:
        shutil.rmtree(root, ignore_errors=True)
    print("benign_quick: %d refactors, %d raised an alarm" % (n, alarms))
    return 1 if alarms else 0


if __name__ == "__main__":
    sys.exit(main())
