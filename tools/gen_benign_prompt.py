#!/usr/bin/env python3
"""Write prompts for sub-agents that produce BEHAVIOUR-PRESERVING refactors of the code a
property is anchored in (to measure false alarms of the checks). The agent sees only the
property text and its own worktree."""
import json
import os
import sys

OUT = "/tmp/benout"
T = """You are helping evaluate how ROBUST a verification suite is against harmless code changes in the Rust project mkeeter/fidget (a library that compiles implicit-surface math expressions into tapes, evaluates them with an interpreter VM or a hand-written x86_64 JIT, and renders/meshes them).

Your job: act as a maintainer doing ordinary clean-up. Produce realistic, BEHAVIOUR-PRESERVING refactors of the code that implements the semantic property stated below. After each refactor the property must STILL HOLD exactly as before (same results for every input), the project must compile, and the existing tests must pass. These patches will be used to see whether a checker raises false alarms on code where the property still holds, so semantic equivalence matters more than anything else: if you are not certain a change preserves behaviour for every input (including NaN, infinities, negative zero, empty inputs, overflow), do not make it.

## The property ({id}: {title})

{statement}

Quantified over: {quant}

Files where the relevant mechanisms live (hints, not limits): {files}

## Your workspace

A scratch git worktree of the repository, for you alone: `/tmp/ben/{id}` (create it first with: `git -C /repo worktree add --detach /tmp/ben/{id} HEAD`). Work ONLY inside that directory and your output directory `/tmp/benout/{id}`. Never edit anything under /repo itself, and do not read or use anything under /verif or /root (they are off limits and irrelevant to your task). The sandbox has no network: always pass `--offline` to cargo. Building is CPU-heavy and other agents are building too, so build/test only the crates you touch (e.g. `cargo test --offline -p fidget-core`). The host is x86_64 (aarch64 JIT files are never compiled here; leave them alone).

## What to deliver

FOUR independent refactors, each applied alone to a clean checkout, each in the central code of the property (the functions that make the property hold, not peripheral code, not tests, not docs-only). For each k = 1..4 write into `/tmp/benout/{id}`:

1. `patch_k.diff` - `git diff` of that refactor alone against clean HEAD (fidget source files only; do not modify tests).
2. `meta_k.json` - JSON with keys: `property` ("{id}"), `summary` (what was changed), `why_equivalent` (the argument that behaviour is unchanged for every input), `files_changed`, `tests_run` (exact commands run on the patched tree and pass/fail counts).

Vary the KIND of refactor across the four; use kinds a maintainer really does, of small to moderate size (2-40 changed lines), for instance:
- renaming a local variable, a closure parameter or a private helper function (and its uses);
- introducing a `let` for a repeated sub-expression, or inlining a single-use `let`;
- reordering two independent statements, or independent match arms / struct-literal fields;
- extracting a few lines into a private helper function (or inlining a tiny private helper);
- swapping an idiom for an equivalent one: `for` loop <-> iterator chain, `if let` <-> `match`, `a.max(b)` kept as is (do NOT touch float semantics), `x as usize` <-> `usize::from(x)` where lossless, `.iter().zip()` <-> indexed loop, early `return` <-> `else` branch, `assert!(a == b)` <-> `assert_eq!(a, b)`;
- splitting or merging `match` arms with identical bodies (or-patterns), adding an explicit arm that repeats what the wildcard arm already does;
- adding a `debug_assert!` that is always true, adding or rewording comments and doc comments next to the central code, changing a panic / error message text;
- in `dynasm!` assembly blocks (if this property involves the JIT): reordering two independent instructions, using a different scratch register where any free one will do, splitting a block into two `dynasm!` invocations, adding a comment line.
Do not change public API signatures, numeric constants, evaluation order of floating-point operations, or anything observable.

## Requirements

- Compiles without errors; avoid new warnings.
- Run the full test suites of every crate you touched; if you touched fidget-core also run `cargo test --offline -p fidget-jit` and `cargo test --offline -p fidget --tests`. (One pre-existing test, `fidget-wgpu effects::test::ssao_bias`, fails on the clean tree; ignore it.)
- Each refactor stands alone (reset the worktree with `git checkout -- .` between them).

When done, delete the build output (`rm -rf /tmp/ben/{id}/target`) but leave the worktree and `/tmp/benout/{id}` in place, and reply with a one-line summary per refactor.
"""


PRIOR = """## Already done by colleagues (do NOT repeat these; pick different functions and different kinds of refactor)

{sums}

Prefer the central functions your colleagues did not touch, and kinds of refactor not in the list above (for example: `while let`/`loop` <-> `for`, iterator adapter swaps such as `.iter().enumerate()` <-> indexed loop or `.zip()`, `match` on a tuple <-> nested `if`, swapping the branches of an `if` by negating the condition, replacing a boolean expression by an equivalent one via De Morgan, `x.is_some()` + unwrap <-> `if let`, turning a closure into a named inner fn, hoisting a loop-invariant expression, replacing `a = a + b` by `a += b`, changing integer cast style, moving a `let` closer to its first use, merging or splitting or-patterns of big `match` tables, reordering rows of a table).

"""


def main():
    """usage: gen_benign_prompt.py [--suffix r3] [ID ...]   (a suffix makes a later round: the summaries of the
    refactors already stored under /verif/benign/<ID>* are listed as done)"""
    import glob

    args = sys.argv[1:]
    suffix = ""
    if args[:1] == ["--suffix"]:
        suffix = args[1]
        args = args[2:]
    os.makedirs(os.path.join(OUT, "prompts"), exist_ok=True)
    for line in open("/verif/properties.jsonl"):
        p = json.loads(line)
        if args and p["id"] not in args:
            continue
        wid = p["id"] + suffix
        s = T.format(
            id=wid,
            title=p["title"],
            statement=p["statement"],
            quant=p["quantifier"]["text"],
            files=", ".join(p["anchors"]["files"]),
        )
        s = s.replace("## The property (%s:" % wid, "## The property (%s:" % p["id"]).replace('`property` ("%s")' % wid, '`property` ("%s")' % p["id"])
        if suffix:
            sums = []
            for d in sorted(glob.glob("/verif/benign/%s*-*" % p["id"])):
                try:
                    sums.append("- " + " ".join(json.load(open(d + "/meta.json"))["summary"].split())[:300])
                except Exception:
                    pass
            if sums:
                s = s.replace("## Requirements\n", PRIOR.format(sums="\n".join(sums)) + "## Requirements\n", 1)
        open(os.path.join(OUT, "prompts", wid + ".txt"), "w").write(s)
        os.makedirs(os.path.join(OUT, wid), exist_ok=True)
    print("ok")


if __name__ == "__main__":
    main()
