#!/usr/bin/env python3
"""Store delivered refactors /tmp/benout/<WID>/patch_k.diff as benign/<WID>-k/{patch.diff, meta.json} and run the
checks of the properties that anchor the touched files on a scratch copy (tools/benign_quick.py, touched mode).
usage: benout_store.py WID [WID..]"""
import glob, json, os, re, shutil, subprocess, sys
V = "/verif"
ids = []
for wid in sys.argv[1:]:
    for p in sorted(glob.glob("/tmp/benout/%s/patch_*.diff" % wid)):
        k = re.search(r"patch_(\d+)", p).group(1)
        d = os.path.join(V, "benign", "%s-%s" % (wid, k))
        os.makedirs(d, exist_ok=True)
        shutil.copy(p, os.path.join(d, "patch.diff"))
        mp = p.replace("patch_", "meta_").replace(".diff", ".json")
        if os.path.exists(mp):
            shutil.copy(mp, os.path.join(d, "meta.json"))
        else:
            json.dump({"property": wid[:3], "summary": "?"}, open(os.path.join(d, "meta.json"), "w"))
        ids.append("%s-%s" % (wid, k))
r = subprocess.run(["python3-vt", os.path.join(V, "tools", "benign_quick.py")] + ids, env=dict(os.environ, BENIGN_TOUCHED="1"), capture_output=True, text=True)
print(r.stdout[-6000:], r.stderr[-1000:])
