#!/bin/bash
# tools/try_patch.sh <patch.diff> <ID> [<ID>...]  : apply to /repo, run the checks, undo.
p="$1"; shift
cd /verif
if ! git -C /repo diff --quiet; then echo "/repo has uncommitted changes"; exit 2; fi
git -C /repo apply "$p" || { echo "patch does not apply"; exit 2; }
for id in "$@"; do
  FV_NO_EVIDENCE=1 ./check "$id" 2>&1 | grep -E "^\s+\[|VIOLATION|KNOWN" | head -8
  echo "-- $id rc=${PIPESTATUS[0]}"
done
git -C /repo checkout -- .
