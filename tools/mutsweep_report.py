#!/usr/bin/env python3
"""summarise a mutsweep JSONL: survival per function, worst first"""
import json, sys, collections
rows = [json.loads(l) for l in open(sys.argv[1])]
by = collections.defaultdict(list)
for r in rows:
    by[(r["file"], r["fn"])].append(r)
tot = len(rows); surv = sum(1 for r in rows if not r["fired"])
print("mutants %d, reported %d, survived %d" % (tot, tot - surv, surv))
out = []
for k, v in by.items():
    s = [r for r in v if not r["fired"]]
    out.append((len(s) / len(v), len(s), len(v), k, s))
out.sort(key=lambda t: (-t[0], -t[1]))
verbose = len(sys.argv) > 2
for frac, ns, n, k, s in out:
    if ns == 0:
        continue
    print("%3d%% %d/%d  %s :: %s" % (100 * frac, ns, n, k[0], k[1]))
    if verbose:
        for r in s:
            print("        L%-5d %-14s %s" % (r["line"], r["op"], r["new"][:110]))
