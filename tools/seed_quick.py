#!/usr/bin/env python3
"""Quick regression over the seeded changes: apply each seeded/<id>/patch.diff to a scratch copy of
/repo's HEAD (outside /repo and /verif), run the seed's own property check against it, require a
violation.  usage: seed_quick.py [ids...]"""
import os, subprocess, sys, tempfile, shutil

V = "/verif"


def main():
    only = set(sys.argv[1:])
    root = tempfile.mkdtemp(prefix="fv-seedquick-")
    miss = 0
    n = 0
    try:
        subprocess.run("git -C /repo archive HEAD | tar -x -C %s" % root, shell=True, check=True)
        subprocess.run("cd %s && git init -q . && git add -A >/dev/null && git -c user.email=a@b -c user.name=x commit -qm base" % root, shell=True, check=True)
        for d in sorted(os.listdir(os.path.join(V, "seeded"))):
            p = os.path.join(V, "seeded", d, "patch.diff")
            if not os.path.isfile(p) or (only and d not in only and d[:3] not in only):
                continue
            n += 1
            if subprocess.run(["git", "-C", root, "apply", p]).returncode != 0:
                print(d, "patch does not apply"); miss += 1; continue
            r = subprocess.run([os.path.join(V, "check"), d[:3]], env=dict(os.environ, FV_REPO=root, FV_NO_EVIDENCE="1"), capture_output=True, text=True)
            subprocess.run("cd %s && git checkout -q -- . && git clean -fdq" % root, shell=True)
            keys = [l.strip()[:110] for l in r.stdout.splitlines() if l.strip().startswith("[")]
            if r.returncode == 1 and keys:
                print("ok  ", d, keys[0])
            else:
                miss += 1
                print("MISS", d, "rc=%d" % r.returncode)
    finally:
        shutil.rmtree(root, ignore_errors=True)
    print("seed_quick: %d seeds, %d missed" % (n, miss))
    return 1 if miss else 0


if __name__ == "__main__":
    sys.exit(main())
