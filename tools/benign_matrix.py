#!/usr/bin/env python3
"""Apply each behaviour-preserving refactor (benign/<id>-k/patch.diff, or a directory of
patch_k.diff files given on the command line) to /repo, run all 20 quick checks, undo.
Any report is a false alarm to be triaged: benign/RESULTS.md."""
import json, os, re, subprocess, sys, concurrent.futures as cf

V = "/verif"
props = ["C%02d" % i for i in range(1, 21)]


def run_check(pid):
    p = subprocess.run([os.path.join(V, "check"), pid], capture_output=True, text=True, env=dict(os.environ, FV_NO_EVIDENCE="1"))
    keys = re.findall(r"^\s+(\[[^\]]+\].*)$", p.stdout, re.M)
    return pid, p.returncode, keys


def main():
    only = set(sys.argv[1:])
    if subprocess.run(["git", "-C", "/repo", "diff", "--quiet"]).returncode != 0:
        print("/repo has uncommitted changes"); return 2
    bd = os.path.join(V, "benign")
    for d in sorted(os.listdir(bd)):
        sd = os.path.join(bd, d)
        if not os.path.isfile(os.path.join(sd, "patch.diff")):
            continue
        if only and d not in only and d[:3] not in only:
            continue
        meta = json.load(open(os.path.join(sd, "meta.json")))
        if subprocess.run(["git", "-C", "/repo", "apply", os.path.join(sd, "patch.diff")]).returncode != 0:
            print(d, "patch does not apply")
            continue
        try:
            with cf.ThreadPoolExecutor(max_workers=10) as ex:
                res = list(ex.map(run_check, props))
        finally:
            subprocess.run(["git", "-C", "/repo", "checkout", "--", "."])
        alarms = {pid: keys for pid, rc, keys in res if rc != 0}
        meta["alarms"] = alarms
        json.dump(meta, open(os.path.join(sd, "meta.json"), "w"), indent=1)
        print(d, "silent" if not alarms else "ALARM %s" % {k: [x[:150] for x in v[:3]] for k, v in alarms.items()}, flush=True)
    lines = ["# Behaviour-preserving refactors and what the checks said", "",
             "Produced by sub-agents that saw only the property text (tools/gen_benign_prompt.py); each applied to /repo,",
             "all 20 quick checks run, undone. Expected: silent.", "", "| refactor | summary | result |", "|---|---|---|"]
    for d in sorted(os.listdir(bd)):
        mp = os.path.join(bd, d, "meta.json")
        if not os.path.isfile(mp):
            continue
        m = json.load(open(mp))
        if "alarms" not in m:
            continue
        a = m["alarms"]
        lines.append("| %s | %s | %s |" % (d, str(m.get("summary", ""))[:110].replace("|", "/"), "silent" if not a else "; ".join("%s: `%s`" % (k, (v[0] if v else "")[:80]) for k, v in sorted(a.items()))))
    open(os.path.join(bd, "RESULTS.md"), "w").write("\n".join(lines) + "\n")


if __name__ == "__main__":
    sys.exit(main())
