#!/usr/bin/env python3
"""Bring benign/RESULTS.md up to date from later (partial) tools/benign_quick.py logs: a refactor's row shows its
latest result; refactors not yet listed get a row.  usage: benign_results_merge.py log [log ..]  (later logs win)"""
import json, os, re, sys
V = "/verif"
latest = {}
for lg in sys.argv[1:]:
    for l in open(lg):
        m = re.match(r"^(ok   |ALARM) (\S+)(.*)$", l)
        if m:
            latest[m.group(2)] = ("silent" if m.group(1).strip() == "ok" else "ALARM " + m.group(3).strip()[:120])
        m = re.match(r"^(\S+) patch does not apply", l)
        if m:
            latest[m.group(1)] = "patch no longer applies to the repaired tree (interval.rs changed by the fix of defect Q)"
p = os.path.join(V, "benign", "RESULTS.md")
lines = open(p).read().split("\n")
seen = set()
out = []
for l in lines:
    m = re.match(r"^\| (\S+) \| (.*) \| (.*) \|$", l)
    if m and m.group(1) in latest:
        seen.add(m.group(1))
        out.append("| %s | %s | %s |" % (m.group(1), m.group(2), latest[m.group(1)]))
    elif re.match(r"^\d+ refactors(, \d+ raised an alarm\.| listed, .*)$", l):
        continue
    else:
        if m:
            seen.add(m.group(1))
        out.append(l)
while out and not out[-1].strip():
    out.pop()
for d in sorted(os.listdir(os.path.join(V, "benign"))):
    if d in seen or not os.path.isfile(os.path.join(V, "benign", d, "patch.diff")) or d not in latest:
        continue
    try:
        summ = str(json.load(open(os.path.join(V, "benign", d, "meta.json"))).get("summary", ""))[:140].replace("|", "/").replace("\n", " ")
    except Exception:
        summ = ""
    out.append("| %s | %s | %s |" % (d, summ, latest[d]))
rows = [l for l in out if re.match(r"^\| \S+ \| .* \| .* \|$", l) and not l.startswith("| refactor")]
alarms = [l for l in rows if "| ALARM" in l or re.search(r"\| C\d\d: `", l)]
out += ["", "%d refactors listed, %d with an alarm in their latest run." % (len(rows), len(alarms))]
open(p, "w").write("\n".join(out) + "\n")
print(len(rows), len(alarms))
for l in alarms:
    print(l[:160])
