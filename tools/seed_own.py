#!/usr/bin/env python3
"""Fill `detection` of seeds that lack it from a tools/seed_quick.py log (own-property check only, run on a scratch
copy of /repo's HEAD) and regenerate the rows of seeded/DETECTION.md for them.  usage: seed_own.py <seed_quick.log>"""
import json, os, re, sys
V = "/verif"
log = open(sys.argv[1]).read()
res = {}
for m in re.finditer(r"^(ok  |MISS) (\S+)(?: (\[.*))?$", log, re.M):
    res[m.group(2)] = (m.group(1).strip() == "ok", (m.group(3) or "").strip())
n = 0
for d in sorted(os.listdir(os.path.join(V, "seeded"))):
    mp = os.path.join(V, "seeded", d, "meta.json")
    if not os.path.isfile(mp) or d not in res:
        continue
    meta = json.load(open(mp))
    if "detection" in meta and "checks_reporting" in meta["detection"] and not meta["detection"].get("own_check_only"):
        continue
    ok, key = res[d]
    k = re.match(r"\[([^\]]+)\]", key)
    meta["detection"] = {"detected_by_own_property_check": ok, "own_check_only": True,
                         "checks_reporting": {d[:3]: [k.group(1) if k else key[:80]]} if ok else {},
                         "how": "tools/seed_quick.py: the seed's own property check on a scratch copy of /repo HEAD with the patch applied"}
    json.dump(meta, open(mp, "w"), indent=1)
    n += 1
print("updated", n)
# DETECTION.md: append rows for seeds not yet listed
p = os.path.join(V, "seeded", "DETECTION.md")
txt = open(p).read()
rows = []
for d in sorted(os.listdir(os.path.join(V, "seeded"))):
    mp = os.path.join(V, "seeded", d, "meta.json")
    if not os.path.isfile(mp) or ("| %s |" % d) in txt:
        continue
    det = json.load(open(mp)).get("detection", {})
    cr = det.get("checks_reporting") or {}
    t = "; ".join("%s: `%s`" % (k, v[0][:70]) for k, v in sorted(cr.items())) or "**missed**"
    rows.append("| %s | %s | %s%s |" % (d, "yes" if det.get("detected_by_own_property_check") else "NO", t, " (own check only)" if det.get("own_check_only") else ""))
if rows:
    open(p, "w").write(txt.rstrip("\n") + "\n" + "\n".join(rows) + "\n")
print("rows added", len(rows))
