#!/usr/bin/env python3
"""Write prompts for sub-agents that SEED realistic property-breaking changes (the suite must still compile
and pass).  The agent sees only the property text, the summaries of changes already delivered for that
property (so that a later round explores other sites) and its own worktree - nothing from /verif.
usage: gen_seed_prompt.py <suffix> [ID ...]     e.g.  gen_seed_prompt.py c C03 C07"""
import glob
import json
import os
import sys

OUT = "/tmp/mutout"
T = 'You are helping evaluate how well a verification suite detects regressions in the Rust project mkeeter/fidget (a library that compiles implicit-surface math expressions into tapes, evaluates them with an interpreter VM or a hand-written x86_64 JIT, and renders/meshes them).\n\nYour job: act as a careful "bug seeder". Produce realistic code changes to fidget that BREAK the semantic property stated below, while the project STILL COMPILES and its EXISTING test suite STILL PASSES. Each change must come with a demonstration (a new test or small program) that fails with the change and passes without it.\n\n## The property ({id}: {title})\n\n{statement}\n\nQuantified over: {quant}\n\nFiles where the relevant mechanisms live (hints, not limits): {files}\n\n{prior}## Your workspace\n\nA scratch git worktree of the repository, for you alone: `/tmp/mut/{wid}` (create it first with: `git -C /repo worktree add --detach /tmp/mut/{wid} HEAD`). Work ONLY inside that directory and your output directory `/tmp/mutout/{wid}`. Never edit anything under /repo itself, and do not read or use anything under /verif or /root (they are off limits and irrelevant to your task). The sandbox has no network: always pass `--offline` to cargo. Use `CARGO_TARGET_DIR=/tmp/mut/{wid}/target` (the default inside the worktree is fine). Building is CPU-heavy and other agents are building too, so build/test only the crates you need, e.g. `cargo test --offline -p fidget-core`, and avoid rebuilding the whole workspace more than necessary. The host is x86_64 (the aarch64 JIT files are never compiled here, so do not put changes there).\n\n## What to deliver\n\nDeliver up to THREE independent changes (aim for three; two good ones beat three weak ones). They must be independent of each other: different sites/mechanisms, each applied alone to a clean checkout. For each change k = 1, 2, 3 write into `/tmp/mutout/{wid}`:\n\n1. `patch_k.diff` - the output of `git diff` for that change alone against the clean HEAD (source files of fidget only; do not include your demonstration in it, and do not modify or delete existing tests).\n2. `demo_k.rs` (or `demo_k/` for a small cargo project) - the demonstration: preferably a `#[test]` function that can be appended to an existing test module or dropped in as a new integration test file (e.g. `fidget-core/tests/demo.rs`, `fidget/tests/demo.rs`), plus, in meta, the exact commands to run it. It must FAIL (assertion failure, panic, or wrong result) with the patch applied and PASS on the clean tree. You must actually run both and record the outcome.\n3. `meta_k.json` - a JSON object with keys: `property` ("{id}"), `summary` (one or two sentences: what was changed), `why_it_breaks` (how the property is violated), `needs` (what specific circumstance is needed for the violation to manifest), `files_changed`, `demo_how_to_run` (exact commands, relative to a checkout root), `demo_result_with_patch`, `demo_result_without_patch`, `existing_tests_run` (exact command(s) you ran on the patched tree and the pass/fail counts).\n\n## Requirements for each change\n\n- It compiles without new errors (warnings are acceptable but avoid introducing obvious unused-variable warnings).\n- The existing tests still pass with it. At minimum run the full test suites of every crate you touched, and, if you touched fidget-core, also `cargo test --offline -p fidget-jit` and `cargo test --offline -p fidget --tests`. (One pre-existing test, `fidget-wgpu effects::test::ssao_bias`, fails on the clean tree; ignore it.)\n- It must be SUBTLE: the kind of mistake that survives code review and the existing tests. It should need something specific to manifest - e.g. a particular operand form (immediate on the left), register pressure that forces spills, an unusual slice length, two or more choices/outputs, a reused evaluator or workspace, a particular interleaving or ordering, a multi-step sequence of operations, an unusual input (NaN, infinity, negative zero, empty), or two cooperating sites that each look fine alone. Do NOT produce changes that ordinary use would expose at once (e.g. making `add` subtract for all inputs), and do not produce changes that merely add a panic/abort or delete functionality wholesale.\n- It must be realistic: a plausible slip (wrong operand order in one arm of a big match, off-by-one in a boundary, a missing reset of one field, a stale cache key, swapped axis, wrong register saved/restored, a dropped guard, a condition inverted for one case, a missing pointer bump, a wrong constant in one sibling of several) rather than something contrived. Prefer touching few lines.\n- Vary the kind of mistake across your changes.\n\nThink first about which mechanisms make the property hold and which inputs the existing tests actually exercise (read the tests!), then pick sites the tests do not reach. When done, delete the build output (`rm -rf /tmp/mut/{wid}/target`) but leave the worktree and `/tmp/mutout/{wid}` in place, and reply with a short summary of the changes you delivered (one paragraph each).\n'


def main():
    suffix = sys.argv[1]
    os.makedirs(os.path.join(OUT, "prompts"), exist_ok=True)
    for line in open("/verif/properties.jsonl"):
        p = json.loads(line)
        if len(sys.argv) > 2 and p["id"] not in sys.argv[2:]:
            continue
        sums = []
        for d in sorted(glob.glob("/verif/seeded/%s*-*" % p["id"])):
            try:
                sums.append("- " + " ".join(json.load(open(d + "/meta.json"))["summary"].split()))
            except Exception:
                pass
        prior = ""
        if sums:
            prior = ("This is a later seeding round for this property. Colleagues already delivered the changes listed below; do NOT repeat them or close variants of them. Pick different functions, different mechanisms and different kinds of slip.\n\n" + "\n".join(sums) + "\n\n")
        wid = p["id"] + suffix
        s = T.format(id=p["id"], title=p["title"], statement=p["statement"], quant=p["quantifier"]["text"],
                     files=", ".join(p["anchors"]["files"]), prior=prior, wid=wid)
        open(os.path.join(OUT, "prompts", wid + ".txt"), "w").write(s)
        os.makedirs(os.path.join(OUT, wid), exist_ok=True)
        print(wid, len(s))


if __name__ == "__main__":
    main()
