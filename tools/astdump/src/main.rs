//! astdump: parse every `*.rs` under a source root with `syn` and write one
//! JSON syntax tree per file.  The rules themselves live in /verif/fv (Python);
//! this tool only turns Rust source into a tree that keeps every construct the
//! rules need (items, signatures, statements, expressions, patterns, macro
//! token streams with positions).  Nothing is evaluated.
//!
//! usage: astdump <src-root> <out-dir>

use proc_macro2::{Delimiter, Spacing, Span, TokenStream, TokenTree};
use quote::ToTokens;
use serde_json::{json, Map, Value};
use std::path::{Path, PathBuf};
use syn::punctuated::Punctuated;
use syn::spanned::Spanned;
use syn::*;

fn ln(sp: Span) -> usize {
    sp.start().line
}
fn le(sp: Span) -> usize {
    sp.end().line
}
fn col(sp: Span) -> usize {
    sp.start().column
}

fn ts<T: ToTokens>(t: &T) -> String {
    t.to_token_stream().to_string()
}

fn obj(kind: &str, sp: Span) -> Map<String, Value> {
    let mut m = Map::new();
    m.insert("k".into(), json!(kind));
    m.insert("ln".into(), json!(ln(sp)));
    m.insert("c".into(), json!(col(sp)));
    m
}

fn tokens(stream: TokenStream) -> Value {
    let mut out = vec![];
    for t in stream {
        match t {
            TokenTree::Group(g) => {
                let d = match g.delimiter() {
                    Delimiter::Parenthesis => "(",
                    Delimiter::Brace => "{",
                    Delimiter::Bracket => "[",
                    Delimiter::None => "",
                };
                out.push(json!({"t":"g","d":d,"ts":tokens(g.stream()),
                    "ln":ln(g.span()),"le":le(g.span())}));
            }
            TokenTree::Ident(i) => {
                out.push(json!({"t":"i","s":i.to_string(),"ln":ln(i.span())}));
            }
            TokenTree::Punct(p) => {
                out.push(json!({"t":"p","s":p.as_char().to_string(),
                    "j": matches!(p.spacing(), Spacing::Joint),
                    "ln":ln(p.span())}));
            }
            TokenTree::Literal(l) => {
                out.push(json!({"t":"l","s":l.to_string(),"ln":ln(l.span())}));
            }
        }
    }
    Value::Array(out)
}

fn attrs(a: &[Attribute]) -> (Value, Value) {
    let mut plain = vec![];
    let mut doc = vec![];
    for at in a {
        if at.path().is_ident("doc") {
            if let Meta::NameValue(nv) = &at.meta {
                if let Expr::Lit(ExprLit {
                    lit: Lit::Str(s), ..
                }) = &nv.value
                {
                    doc.push(json!(s.value()));
                    continue;
                }
            }
        }
        plain.push(json!(ts(&at.meta)));
    }
    (Value::Array(plain), Value::Array(doc))
}

fn put_attrs(m: &mut Map<String, Value>, a: &[Attribute]) {
    let (p, d) = attrs(a);
    if !p.as_array().unwrap().is_empty() {
        m.insert("attrs".into(), p);
    }
    if !d.as_array().unwrap().is_empty() {
        m.insert("doc".into(), d);
    }
}

fn path(p: &syn::Path) -> Value {
    let segs: Vec<Value> = p
        .segments
        .iter()
        .map(|s| json!(s.ident.to_string()))
        .collect();
    let mut m = obj("Path", p.span());
    m.insert("segs".into(), Value::Array(segs));
    let has_args = p.segments.iter().any(|s| !s.arguments.is_none());
    if has_args {
        m.insert("s".into(), json!(ts(p)));
    }
    Value::Object(m)
}

fn qpath(q: &Option<QSelf>, p: &syn::Path) -> Value {
    let mut v = path(p);
    if let Some(q) = q {
        v.as_object_mut()
            .unwrap()
            .insert("qself".into(), json!(ts(&*q.ty)));
    }
    v
}

fn member(m: &Member) -> Value {
    match m {
        Member::Named(i) => json!(i.to_string()),
        Member::Unnamed(i) => json!(i.index.to_string()),
    }
}

fn lit(l: &Lit) -> Value {
    let mut m = obj("Lit", l.span());
    let (ty, v, suffix): (&str, String, String) = match l {
        Lit::Str(s) => ("str", s.value(), s.suffix().to_string()),
        Lit::ByteStr(s) => ("bytestr", format!("{:?}", s.value()), String::new()),
        Lit::CStr(s) => ("cstr", format!("{:?}", s.value()), String::new()),
        Lit::Byte(b) => ("byte", b.value().to_string(), String::new()),
        Lit::Char(c) => ("char", c.value().to_string(), String::new()),
        Lit::Int(i) => ("int", i.base10_digits().to_string(), i.suffix().to_string()),
        Lit::Float(f) => (
            "float",
            f.base10_digits().to_string(),
            f.suffix().to_string(),
        ),
        Lit::Bool(b) => ("bool", b.value.to_string(), String::new()),
        Lit::Verbatim(v) => ("verbatim", v.to_string(), String::new()),
        _ => ("other", ts(l), String::new()),
    };
    m.insert("ty".into(), json!(ty));
    m.insert("v".into(), json!(v));
    if !suffix.is_empty() {
        m.insert("suffix".into(), json!(suffix));
    }
    m.insert("s".into(), json!(ts(l)));
    Value::Object(m)
}

struct MatchesArgs {
    e: Expr,
    p: Pat,
    guard: Option<Expr>,
}
impl syn::parse::Parse for MatchesArgs {
    fn parse(input: syn::parse::ParseStream) -> Result<Self> {
        let e: Expr = input.parse()?;
        input.parse::<Token![,]>()?;
        let p = Pat::parse_multi_with_leading_vert(input)?;
        let guard = if input.peek(Token![if]) {
            input.parse::<Token![if]>()?;
            Some(input.parse::<Expr>()?)
        } else {
            None
        };
        let _ = input.parse::<Option<Token![,]>>()?;
        Ok(MatchesArgs { e, p, guard })
    }
}

struct RepeatArgs {
    e: Expr,
    n: Expr,
}
impl syn::parse::Parse for RepeatArgs {
    fn parse(input: syn::parse::ParseStream) -> Result<Self> {
        let e: Expr = input.parse()?;
        input.parse::<Token![;]>()?;
        let n: Expr = input.parse()?;
        Ok(RepeatArgs { e, n })
    }
}

fn mac(mc: &Macro) -> Value {
    let mut m = obj("Macro", mc.span());
    let name = mc
        .path
        .segments
        .last()
        .map(|s| s.ident.to_string())
        .unwrap_or_default();
    m.insert("name".into(), json!(name));
    m.insert("path".into(), json!(ts(&mc.path).replace(' ', "")));
    m.insert("le".into(), json!(le(mc.span())));
    m.insert("tokens".into(), tokens(mc.tokens.clone()));
    if name == "matches" {
        if let Ok(a) = syn::parse2::<MatchesArgs>(mc.tokens.clone()) {
            m.insert("expr".into(), expr(&a.e));
            m.insert("pat".into(), pat(&a.p));
            if let Some(g) = a.guard {
                m.insert("guard".into(), expr(&g));
            }
        }
    } else if name != "dynasm" && name != "macro_rules" {
        let parser = Punctuated::<Expr, Token![,]>::parse_terminated;
        if let Ok(p) = syn::parse::Parser::parse2(parser, mc.tokens.clone()) {
            m.insert("args".into(), Value::Array(p.iter().map(expr).collect()));
        } else if let Ok(r) = syn::parse2::<RepeatArgs>(mc.tokens.clone()) {
            m.insert("repeat".into(), json!([expr(&r.e), expr(&r.n)]));
        }
    }
    Value::Object(m)
}

fn block(b: &Block) -> Value {
    let mut m = obj("Block", b.span());
    m.insert("le".into(), json!(le(b.span())));
    m.insert(
        "stmts".into(),
        Value::Array(b.stmts.iter().map(stmt).collect()),
    );
    Value::Object(m)
}

fn stmt(s: &Stmt) -> Value {
    match s {
        Stmt::Local(l) => {
            let mut m = obj("Let", l.span());
            put_attrs(&mut m, &l.attrs);
            m.insert("pat".into(), pat(&l.pat));
            if let Some(init) = &l.init {
                m.insert("init".into(), expr(&init.expr));
                if let Some((_, d)) = &init.diverge {
                    m.insert("else".into(), expr(d));
                }
            }
            Value::Object(m)
        }
        Stmt::Item(i) => item(i),
        Stmt::Expr(e, semi) => {
            let mut m = obj("ExprStmt", e.span());
            m.insert("e".into(), expr(e));
            m.insert("semi".into(), json!(semi.is_some()));
            Value::Object(m)
        }
        Stmt::Macro(sm) => {
            let mut m = obj("ExprStmt", sm.span());
            m.insert("e".into(), mac(&sm.mac));
            m.insert("semi".into(), json!(sm.semi_token.is_some()));
            Value::Object(m)
        }
    }
}

fn binop(op: &BinOp) -> &'static str {
    match op {
        BinOp::Add(_) => "+",
        BinOp::Sub(_) => "-",
        BinOp::Mul(_) => "*",
        BinOp::Div(_) => "/",
        BinOp::Rem(_) => "%",
        BinOp::And(_) => "&&",
        BinOp::Or(_) => "||",
        BinOp::BitXor(_) => "^",
        BinOp::BitAnd(_) => "&",
        BinOp::BitOr(_) => "|",
        BinOp::Shl(_) => "<<",
        BinOp::Shr(_) => ">>",
        BinOp::Eq(_) => "==",
        BinOp::Lt(_) => "<",
        BinOp::Le(_) => "<=",
        BinOp::Ne(_) => "!=",
        BinOp::Ge(_) => ">=",
        BinOp::Gt(_) => ">",
        BinOp::AddAssign(_) => "+=",
        BinOp::SubAssign(_) => "-=",
        BinOp::MulAssign(_) => "*=",
        BinOp::DivAssign(_) => "/=",
        BinOp::RemAssign(_) => "%=",
        BinOp::BitXorAssign(_) => "^=",
        BinOp::BitAndAssign(_) => "&=",
        BinOp::BitOrAssign(_) => "|=",
        BinOp::ShlAssign(_) => "<<=",
        BinOp::ShrAssign(_) => ">>=",
        _ => "?",
    }
}

fn opt_expr(e: &Option<Box<Expr>>) -> Value {
    match e {
        Some(e) => expr(e),
        None => Value::Null,
    }
}

fn expr(e: &Expr) -> Value {
    let sp = e.span();
    match e {
        Expr::Array(a) => {
            let mut m = obj("Array", sp);
            m.insert("elems".into(), Value::Array(a.elems.iter().map(expr).collect()));
            Value::Object(m)
        }
        Expr::Assign(a) => {
            let mut m = obj("Assign", sp);
            m.insert("left".into(), expr(&a.left));
            m.insert("right".into(), expr(&a.right));
            Value::Object(m)
        }
        Expr::Async(a) => {
            let mut m = obj("Async", sp);
            m.insert("body".into(), block(&a.block));
            Value::Object(m)
        }
        Expr::Await(a) => {
            let mut m = obj("Await", sp);
            m.insert("e".into(), expr(&a.base));
            Value::Object(m)
        }
        Expr::Binary(b) => {
            let mut m = obj("Binary", sp);
            m.insert("op".into(), json!(binop(&b.op)));
            m.insert("left".into(), expr(&b.left));
            m.insert("right".into(), expr(&b.right));
            Value::Object(m)
        }
        Expr::Block(b) => {
            let mut v = block(&b.block);
            let m = v.as_object_mut().unwrap();
            if let Some(l) = &b.label {
                m.insert("label".into(), json!(l.name.ident.to_string()));
            }
            v
        }
        Expr::Break(b) => {
            let mut m = obj("Break", sp);
            if let Some(l) = &b.label {
                m.insert("label".into(), json!(l.ident.to_string()));
            }
            m.insert("e".into(), opt_expr(&b.expr));
            Value::Object(m)
        }
        Expr::Call(c) => {
            let mut m = obj("Call", sp);
            m.insert("func".into(), expr(&c.func));
            m.insert("args".into(), Value::Array(c.args.iter().map(expr).collect()));
            Value::Object(m)
        }
        Expr::Cast(c) => {
            let mut m = obj("Cast", sp);
            m.insert("e".into(), expr(&c.expr));
            m.insert("ty".into(), json!(ts(&*c.ty)));
            Value::Object(m)
        }
        Expr::Closure(c) => {
            let mut m = obj("Closure", sp);
            m.insert("le".into(), json!(le(sp)));
            m.insert("move".into(), json!(c.capture.is_some()));
            m.insert("inputs".into(), Value::Array(c.inputs.iter().map(pat).collect()));
            m.insert("body".into(), expr(&c.body));
            Value::Object(m)
        }
        Expr::Const(c) => {
            let mut m = obj("ConstBlock", sp);
            m.insert("body".into(), block(&c.block));
            Value::Object(m)
        }
        Expr::Continue(c) => {
            let mut m = obj("Continue", sp);
            if let Some(l) = &c.label {
                m.insert("label".into(), json!(l.ident.to_string()));
            }
            Value::Object(m)
        }
        Expr::Field(f) => {
            let mut m = obj("Field", sp);
            m.insert("e".into(), expr(&f.base));
            m.insert("member".into(), member(&f.member));
            Value::Object(m)
        }
        Expr::ForLoop(f) => {
            let mut m = obj("For", sp);
            m.insert("le".into(), json!(le(sp)));
            if let Some(l) = &f.label {
                m.insert("label".into(), json!(l.name.ident.to_string()));
            }
            m.insert("pat".into(), pat(&f.pat));
            m.insert("iter".into(), expr(&f.expr));
            m.insert("body".into(), block(&f.body));
            Value::Object(m)
        }
        Expr::Group(g) => expr(&g.expr),
        Expr::If(i) => {
            let mut m = obj("If", sp);
            m.insert("le".into(), json!(le(sp)));
            m.insert("cond".into(), expr(&i.cond));
            m.insert("then".into(), block(&i.then_branch));
            m.insert(
                "else".into(),
                match &i.else_branch {
                    Some((_, e)) => expr(e),
                    None => Value::Null,
                },
            );
            Value::Object(m)
        }
        Expr::Index(i) => {
            let mut m = obj("Index", sp);
            m.insert("e".into(), expr(&i.expr));
            m.insert("index".into(), expr(&i.index));
            Value::Object(m)
        }
        Expr::Infer(_) => Value::Object(obj("Infer", sp)),
        Expr::Let(l) => {
            let mut m = obj("LetCond", sp);
            m.insert("pat".into(), pat(&l.pat));
            m.insert("e".into(), expr(&l.expr));
            Value::Object(m)
        }
        Expr::Lit(l) => lit(&l.lit),
        Expr::Loop(l) => {
            let mut m = obj("Loop", sp);
            m.insert("le".into(), json!(le(sp)));
            if let Some(lb) = &l.label {
                m.insert("label".into(), json!(lb.name.ident.to_string()));
            }
            m.insert("body".into(), block(&l.body));
            Value::Object(m)
        }
        Expr::Macro(mc) => mac(&mc.mac),
        Expr::Match(mt) => {
            let mut m = obj("Match", sp);
            m.insert("le".into(), json!(le(sp)));
            m.insert("e".into(), expr(&mt.expr));
            let arms: Vec<Value> = mt
                .arms
                .iter()
                .map(|a| {
                    let mut am = obj("Arm", a.span());
                    am.insert("le".into(), json!(le(a.span())));
                    put_attrs(&mut am, &a.attrs);
                    am.insert("pat".into(), pat(&a.pat));
                    am.insert(
                        "guard".into(),
                        match &a.guard {
                            Some((_, g)) => expr(g),
                            None => Value::Null,
                        },
                    );
                    am.insert("body".into(), expr(&a.body));
                    Value::Object(am)
                })
                .collect();
            m.insert("arms".into(), Value::Array(arms));
            Value::Object(m)
        }
        Expr::MethodCall(mc) => {
            let mut m = obj("MethodCall", sp);
            m.insert("recv".into(), expr(&mc.receiver));
            m.insert("method".into(), json!(mc.method.to_string()));
            m.insert("mln".into(), json!(ln(mc.method.span())));
            if let Some(t) = &mc.turbofish {
                m.insert("turbofish".into(), json!(ts(t)));
            }
            m.insert("args".into(), Value::Array(mc.args.iter().map(expr).collect()));
            Value::Object(m)
        }
        Expr::Paren(p) => {
            let mut m = obj("Paren", sp);
            m.insert("e".into(), expr(&p.expr));
            Value::Object(m)
        }
        Expr::Path(p) => qpath(&p.qself, &p.path),
        Expr::Range(r) => {
            let mut m = obj("Range", sp);
            m.insert("start".into(), opt_expr(&r.start));
            m.insert("end".into(), opt_expr(&r.end));
            m.insert(
                "closed".into(),
                json!(matches!(r.limits, RangeLimits::Closed(_))),
            );
            Value::Object(m)
        }
        Expr::RawAddr(r) => {
            let mut m = obj("RawAddr", sp);
            m.insert("e".into(), expr(&r.expr));
            Value::Object(m)
        }
        Expr::Reference(r) => {
            let mut m = obj("Ref", sp);
            m.insert("mut".into(), json!(r.mutability.is_some()));
            m.insert("e".into(), expr(&r.expr));
            Value::Object(m)
        }
        Expr::Repeat(r) => {
            let mut m = obj("Repeat", sp);
            m.insert("e".into(), expr(&r.expr));
            m.insert("len".into(), expr(&r.len));
            Value::Object(m)
        }
        Expr::Return(r) => {
            let mut m = obj("Return", sp);
            m.insert("e".into(), opt_expr(&r.expr));
            Value::Object(m)
        }
        Expr::Struct(s) => {
            let mut m = obj("Struct", sp);
            m.insert("path".into(), qpath(&s.qself, &s.path));
            let fields: Vec<Value> = s
                .fields
                .iter()
                .map(|f| {
                    json!({"name": member(&f.member), "e": expr(&f.expr),
                           "ln": ln(f.span()), "short": f.colon_token.is_none()})
                })
                .collect();
            m.insert("fields".into(), Value::Array(fields));
            m.insert("rest".into(), opt_expr(&s.rest));
            m.insert("dotdot".into(), json!(s.dot2_token.is_some()));
            Value::Object(m)
        }
        Expr::Try(t) => {
            let mut m = obj("Try", sp);
            m.insert("e".into(), expr(&t.expr));
            Value::Object(m)
        }
        Expr::TryBlock(t) => {
            let mut m = obj("TryBlock", sp);
            m.insert("body".into(), block(&t.block));
            Value::Object(m)
        }
        Expr::Tuple(t) => {
            let mut m = obj("Tuple", sp);
            m.insert("elems".into(), Value::Array(t.elems.iter().map(expr).collect()));
            Value::Object(m)
        }
        Expr::Unary(u) => {
            let mut m = obj("Unary", sp);
            let op = match u.op {
                UnOp::Deref(_) => "*",
                UnOp::Not(_) => "!",
                UnOp::Neg(_) => "-",
                _ => "?",
            };
            m.insert("op".into(), json!(op));
            m.insert("e".into(), expr(&u.expr));
            Value::Object(m)
        }
        Expr::Unsafe(u) => {
            let mut m = obj("Unsafe", sp);
            m.insert("le".into(), json!(le(sp)));
            m.insert("body".into(), block(&u.block));
            Value::Object(m)
        }
        Expr::While(w) => {
            let mut m = obj("While", sp);
            m.insert("le".into(), json!(le(sp)));
            if let Some(lb) = &w.label {
                m.insert("label".into(), json!(lb.name.ident.to_string()));
            }
            m.insert("cond".into(), expr(&w.cond));
            m.insert("body".into(), block(&w.body));
            Value::Object(m)
        }
        Expr::Yield(y) => {
            let mut m = obj("Yield", sp);
            m.insert("e".into(), opt_expr(&y.expr));
            Value::Object(m)
        }
        other => {
            let mut m = obj("Verbatim", sp);
            m.insert("s".into(), json!(ts(other)));
            Value::Object(m)
        }
    }
}

fn pat(p: &Pat) -> Value {
    let sp = p.span();
    match p {
        Pat::Const(c) => {
            let mut m = obj("PConst", sp);
            m.insert("body".into(), block(&c.block));
            Value::Object(m)
        }
        Pat::Ident(i) => {
            let mut m = obj("PIdent", sp);
            m.insert("name".into(), json!(i.ident.to_string()));
            m.insert("ref".into(), json!(i.by_ref.is_some()));
            m.insert("mut".into(), json!(i.mutability.is_some()));
            if let Some((_, sub)) = &i.subpat {
                m.insert("sub".into(), pat(sub));
            }
            Value::Object(m)
        }
        Pat::Lit(l) => {
            let mut m = obj("PLit", sp);
            m.insert("lit".into(), lit(&l.lit));
            Value::Object(m)
        }
        Pat::Macro(mc) => mac(&mc.mac),
        Pat::Or(o) => {
            let mut m = obj("POr", sp);
            m.insert("cases".into(), Value::Array(o.cases.iter().map(pat).collect()));
            Value::Object(m)
        }
        Pat::Paren(p) => pat(&p.pat),
        Pat::Path(p) => {
            let mut m = obj("PPath", sp);
            m.insert("path".into(), qpath(&p.qself, &p.path));
            Value::Object(m)
        }
        Pat::Range(r) => {
            let mut m = obj("PRange", sp);
            m.insert("start".into(), opt_expr(&r.start));
            m.insert("end".into(), opt_expr(&r.end));
            m.insert(
                "closed".into(),
                json!(matches!(r.limits, RangeLimits::Closed(_))),
            );
            Value::Object(m)
        }
        Pat::Reference(r) => {
            let mut m = obj("PRef", sp);
            m.insert("mut".into(), json!(r.mutability.is_some()));
            m.insert("pat".into(), pat(&r.pat));
            Value::Object(m)
        }
        Pat::Rest(_) => Value::Object(obj("PRest", sp)),
        Pat::Slice(s) => {
            let mut m = obj("PSlice", sp);
            m.insert("elems".into(), Value::Array(s.elems.iter().map(pat).collect()));
            Value::Object(m)
        }
        Pat::Struct(s) => {
            let mut m = obj("PStruct", sp);
            m.insert("path".into(), qpath(&s.qself, &s.path));
            let fields: Vec<Value> = s
                .fields
                .iter()
                .map(|f| json!({"name": member(&f.member), "pat": pat(&f.pat)}))
                .collect();
            m.insert("fields".into(), Value::Array(fields));
            m.insert("rest".into(), json!(s.rest.is_some()));
            Value::Object(m)
        }
        Pat::Tuple(t) => {
            let mut m = obj("PTuple", sp);
            m.insert("elems".into(), Value::Array(t.elems.iter().map(pat).collect()));
            Value::Object(m)
        }
        Pat::TupleStruct(t) => {
            let mut m = obj("PTupleStruct", sp);
            m.insert("path".into(), qpath(&t.qself, &t.path));
            m.insert("elems".into(), Value::Array(t.elems.iter().map(pat).collect()));
            Value::Object(m)
        }
        Pat::Type(t) => {
            let mut m = obj("PType", sp);
            m.insert("pat".into(), pat(&t.pat));
            m.insert("ty".into(), json!(ts(&*t.ty)));
            Value::Object(m)
        }
        Pat::Wild(_) => Value::Object(obj("PWild", sp)),
        other => {
            let mut m = obj("PVerbatim", sp);
            m.insert("s".into(), json!(ts(other)));
            Value::Object(m)
        }
    }
}

fn sig(s: &Signature) -> Value {
    let inputs: Vec<Value> = s
        .inputs
        .iter()
        .map(|a| match a {
            FnArg::Receiver(r) => json!({"self": ts(r)}),
            FnArg::Typed(t) => json!({"pat": pat(&t.pat), "ty": ts(&*t.ty)}),
        })
        .collect();
    json!({
        "inputs": inputs,
        "output": match &s.output { ReturnType::Default => Value::Null,
                                    ReturnType::Type(_, t) => json!(ts(&**t)) },
        "generics": ts(&s.generics),
        "where": s.generics.where_clause.as_ref().map(|w| ts(w)),
        "abi": s.abi.as_ref().map(|a| a.name.as_ref().map(|n| n.value()).unwrap_or_else(|| "C".into())),
        "unsafe": s.unsafety.is_some(),
        "const": s.constness.is_some(),
    })
}

fn fn_like(
    name: &Ident,
    vis: Option<&Visibility>,
    a: &[Attribute],
    s: &Signature,
    body: Option<&Block>,
    sp: Span,
) -> Value {
    let mut m = obj("Fn", sp);
    m.insert("le".into(), json!(le(sp)));
    m.insert("name".into(), json!(name.to_string()));
    if let Some(v) = vis {
        m.insert("vis".into(), json!(ts(v)));
    }
    put_attrs(&mut m, a);
    m.insert("sig".into(), sig(s));
    m.insert(
        "body".into(),
        match body {
            Some(b) => block(b),
            None => Value::Null,
        },
    );
    Value::Object(m)
}

fn fields(f: &Fields) -> Value {
    let v: Vec<Value> = f
        .iter()
        .enumerate()
        .map(|(i, f)| {
            let mut m = Map::new();
            m.insert(
                "name".into(),
                json!(f
                    .ident
                    .as_ref()
                    .map(|i| i.to_string())
                    .unwrap_or_else(|| i.to_string())),
            );
            m.insert("ty".into(), json!(ts(&f.ty)));
            m.insert("vis".into(), json!(ts(&f.vis)));
            m.insert("ln".into(), json!(ln(f.span())));
            put_attrs(&mut m, &f.attrs);
            Value::Object(m)
        })
        .collect();
    Value::Array(v)
}

fn item(i: &Item) -> Value {
    let sp = i.span();
    match i {
        Item::Fn(f) => fn_like(&f.sig.ident, Some(&f.vis), &f.attrs, &f.sig, Some(&f.block), sp),
        Item::Impl(im) => {
            let mut m = obj("Impl", sp);
            m.insert("le".into(), json!(le(sp)));
            put_attrs(&mut m, &im.attrs);
            m.insert("unsafe".into(), json!(im.unsafety.is_some()));
            m.insert("generics".into(), json!(ts(&im.generics)));
            if let Some(w) = &im.generics.where_clause {
                m.insert("where".into(), json!(ts(w)));
            }
            m.insert("self_ty".into(), json!(ts(&*im.self_ty)));
            if let Type::Path(tp) = &*im.self_ty {
                m.insert("self_path".into(), path(&tp.path));
            }
            if let Some((neg, p, _)) = &im.trait_ {
                m.insert("trait".into(), json!(ts(p)));
                m.insert("trait_path".into(), path(p));
                m.insert("neg".into(), json!(neg.is_some()));
            } else {
                m.insert("trait".into(), Value::Null);
            }
            let items: Vec<Value> = im
                .items
                .iter()
                .map(|ii| match ii {
                    ImplItem::Fn(f) => {
                        fn_like(&f.sig.ident, Some(&f.vis), &f.attrs, &f.sig, Some(&f.block), ii.span())
                    }
                    ImplItem::Const(c) => {
                        let mut cm = obj("Const", ii.span());
                        put_attrs(&mut cm, &c.attrs);
                        cm.insert("name".into(), json!(c.ident.to_string()));
                        cm.insert("vis".into(), json!(ts(&c.vis)));
                        cm.insert("ty".into(), json!(ts(&c.ty)));
                        cm.insert("e".into(), expr(&c.expr));
                        Value::Object(cm)
                    }
                    ImplItem::Type(t) => {
                        let mut tm = obj("TypeAlias", ii.span());
                        tm.insert("name".into(), json!(t.ident.to_string()));
                        tm.insert("ty".into(), json!(ts(&t.ty)));
                        Value::Object(tm)
                    }
                    ImplItem::Macro(mc) => mac(&mc.mac),
                    other => {
                        let mut om = obj("Verbatim", ii.span());
                        om.insert("s".into(), json!(ts(other)));
                        Value::Object(om)
                    }
                })
                .collect();
            m.insert("items".into(), Value::Array(items));
            Value::Object(m)
        }
        Item::Trait(t) => {
            let mut m = obj("Trait", sp);
            m.insert("le".into(), json!(le(sp)));
            put_attrs(&mut m, &t.attrs);
            m.insert("name".into(), json!(t.ident.to_string()));
            m.insert("vis".into(), json!(ts(&t.vis)));
            m.insert("unsafe".into(), json!(t.unsafety.is_some()));
            m.insert("generics".into(), json!(ts(&t.generics)));
            m.insert("supertraits".into(), json!(ts(&t.supertraits)));
            let items: Vec<Value> = t
                .items
                .iter()
                .map(|ti| match ti {
                    TraitItem::Fn(f) => {
                        fn_like(&f.sig.ident, None, &f.attrs, &f.sig, f.default.as_ref(), ti.span())
                    }
                    TraitItem::Const(c) => {
                        let mut cm = obj("Const", ti.span());
                        cm.insert("name".into(), json!(c.ident.to_string()));
                        cm.insert("ty".into(), json!(ts(&c.ty)));
                        if let Some((_, e)) = &c.default {
                            cm.insert("e".into(), expr(e));
                        }
                        Value::Object(cm)
                    }
                    TraitItem::Type(t) => {
                        let mut tm = obj("TypeAlias", ti.span());
                        tm.insert("name".into(), json!(t.ident.to_string()));
                        tm.insert("bounds".into(), json!(ts(&t.bounds)));
                        Value::Object(tm)
                    }
                    TraitItem::Macro(mc) => mac(&mc.mac),
                    other => {
                        let mut om = obj("Verbatim", ti.span());
                        om.insert("s".into(), json!(ts(other)));
                        Value::Object(om)
                    }
                })
                .collect();
            m.insert("items".into(), Value::Array(items));
            Value::Object(m)
        }
        Item::Struct(s) => {
            let mut m = obj("StructDef", sp);
            m.insert("le".into(), json!(le(sp)));
            put_attrs(&mut m, &s.attrs);
            m.insert("name".into(), json!(s.ident.to_string()));
            m.insert("vis".into(), json!(ts(&s.vis)));
            m.insert("generics".into(), json!(ts(&s.generics)));
            m.insert(
                "shape".into(),
                json!(match s.fields {
                    Fields::Named(_) => "named",
                    Fields::Unnamed(_) => "tuple",
                    Fields::Unit => "unit",
                }),
            );
            m.insert("fields".into(), fields(&s.fields));
            Value::Object(m)
        }
        Item::Enum(e) => {
            let mut m = obj("EnumDef", sp);
            m.insert("le".into(), json!(le(sp)));
            put_attrs(&mut m, &e.attrs);
            m.insert("name".into(), json!(e.ident.to_string()));
            m.insert("vis".into(), json!(ts(&e.vis)));
            m.insert("generics".into(), json!(ts(&e.generics)));
            let vars: Vec<Value> = e
                .variants
                .iter()
                .map(|v| {
                    let mut vm = Map::new();
                    vm.insert("name".into(), json!(v.ident.to_string()));
                    vm.insert("ln".into(), json!(ln(v.span())));
                    put_attrs(&mut vm, &v.attrs);
                    vm.insert(
                        "shape".into(),
                        json!(match v.fields {
                            Fields::Named(_) => "named",
                            Fields::Unnamed(_) => "tuple",
                            Fields::Unit => "unit",
                        }),
                    );
                    vm.insert("fields".into(), fields(&v.fields));
                    if let Some((_, d)) = &v.discriminant {
                        vm.insert("disc".into(), expr(d));
                    }
                    Value::Object(vm)
                })
                .collect();
            m.insert("variants".into(), Value::Array(vars));
            Value::Object(m)
        }
        Item::Const(c) => {
            let mut m = obj("Const", sp);
            put_attrs(&mut m, &c.attrs);
            m.insert("name".into(), json!(c.ident.to_string()));
            m.insert("vis".into(), json!(ts(&c.vis)));
            m.insert("ty".into(), json!(ts(&*c.ty)));
            m.insert("e".into(), expr(&c.expr));
            Value::Object(m)
        }
        Item::Static(s) => {
            let mut m = obj("Static", sp);
            put_attrs(&mut m, &s.attrs);
            m.insert("name".into(), json!(s.ident.to_string()));
            m.insert("vis".into(), json!(ts(&s.vis)));
            m.insert("mut".into(), json!(matches!(s.mutability, StaticMutability::Mut(_))));
            m.insert("ty".into(), json!(ts(&*s.ty)));
            m.insert("e".into(), expr(&s.expr));
            Value::Object(m)
        }
        Item::Mod(md) => {
            let mut m = obj("Mod", sp);
            m.insert("le".into(), json!(le(sp)));
            put_attrs(&mut m, &md.attrs);
            m.insert("name".into(), json!(md.ident.to_string()));
            m.insert("vis".into(), json!(ts(&md.vis)));
            match &md.content {
                Some((_, items)) => {
                    m.insert("items".into(), Value::Array(items.iter().map(item).collect()));
                }
                None => {
                    m.insert("items".into(), Value::Null);
                }
            }
            Value::Object(m)
        }
        Item::Macro(mc) => {
            let mut v = mac(&mc.mac);
            let m = v.as_object_mut().unwrap();
            if let Some(id) = &mc.ident {
                m.insert("def".into(), json!(id.to_string()));
            }
            m.insert("item".into(), json!(true));
            v
        }
        Item::Use(u) => {
            let mut m = obj("Use", sp);
            put_attrs(&mut m, &u.attrs);
            m.insert("vis".into(), json!(ts(&u.vis)));
            m.insert("s".into(), json!(ts(&u.tree).replace(' ', "")));
            Value::Object(m)
        }
        Item::Type(t) => {
            let mut m = obj("TypeAlias", sp);
            m.insert("name".into(), json!(t.ident.to_string()));
            m.insert("vis".into(), json!(ts(&t.vis)));
            m.insert("generics".into(), json!(ts(&t.generics)));
            m.insert("ty".into(), json!(ts(&*t.ty)));
            Value::Object(m)
        }
        other => {
            let mut m = obj("Verbatim", sp);
            m.insert("s".into(), json!(ts(other)));
            Value::Object(m)
        }
    }
}

fn walk(dir: &Path, out: &mut Vec<PathBuf>) {
    let Ok(rd) = std::fs::read_dir(dir) else {
        return;
    };
    let mut ents: Vec<_> = rd.flatten().collect();
    ents.sort_by_key(|e| e.path());
    for e in ents {
        let p = e.path();
        let name = e.file_name().to_string_lossy().to_string();
        if p.is_dir() {
            if name == "target" || name == ".git" || name == "node_modules" {
                continue;
            }
            walk(&p, out);
        } else if name.ends_with(".rs") {
            out.push(p);
        }
    }
}

fn main() {
    let args: Vec<String> = std::env::args().collect();
    if args.len() != 3 {
        eprintln!("usage: astdump <src-root> <out-dir>");
        std::process::exit(2);
    }
    let root = PathBuf::from(&args[1]);
    let out = PathBuf::from(&args[2]);
    std::fs::create_dir_all(&out).unwrap();
    let mut files = vec![];
    walk(&root, &mut files);
    let mut index = vec![];
    for f in files {
        let rel = f.strip_prefix(&root).unwrap().to_string_lossy().to_string();
        let src = match std::fs::read_to_string(&f) {
            Ok(s) => s,
            Err(e) => {
                index.push(json!({"file": rel, "error": e.to_string()}));
                continue;
            }
        };
        let name = rel.replace('/', "__") + ".json";
        match syn::parse_file(&src) {
            Ok(file) => {
                let (a, _) = attrs(&file.attrs);
                let v = json!({
                    "file": rel,
                    "attrs": a,
                    "lines": src.lines().count(),
                    "items": file.items.iter().map(item).collect::<Vec<_>>(),
                });
                std::fs::write(out.join(&name), serde_json::to_vec(&v).unwrap()).unwrap();
                index.push(json!({"file": rel, "json": name}));
            }
            Err(e) => {
                index.push(json!({"file": rel, "error": format!("{} at line {}", e, e.span().start().line)}));
            }
        }
    }
    std::fs::write(
        out.join("index.json"),
        serde_json::to_vec_pretty(&Value::Array(index)).unwrap(),
    )
    .unwrap();
}
