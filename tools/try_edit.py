#!/usr/bin/env python3
"""Ad hoc single-edit experiment on a scratch copy of /repo (kept under /tmp/scratch/tryedit between calls, refreshed
from /repo's HEAD when that moves).  usage: try_edit.py ID[,ID..] <<'E'
file: path/in/repo.rs
--- old
text (must occur exactly once; prefix the line `nth: k` before `--- old` for the k-th occurrence)
--- new
replacement
E"""
import os, subprocess, sys

ROOT = "/tmp/scratch/tryedit"


def main():
    ids = sys.argv[1].split(",")
    spec = sys.stdin.read()
    head = subprocess.run(["git", "-C", "/repo", "rev-parse", "HEAD"], capture_output=True, text=True).stdout.strip()
    stamp = os.path.join(ROOT, ".head")
    if not os.path.isdir(ROOT) or not os.path.exists(stamp) or open(stamp).read() != head:
        subprocess.run(["rm", "-rf", ROOT]); os.makedirs(ROOT)
        subprocess.run("git -C /repo archive HEAD | tar -x -C %s" % ROOT, shell=True, check=True)
        open(stamp, "w").write(head)
    lines = spec.split("\n")
    f = lines[0].split(":", 1)[1].strip()
    nth = 0
    i = 1
    if lines[i].startswith("nth:"):
        nth = int(lines[i].split(":")[1]); i += 1
    assert lines[i].strip() == "--- old", lines[i]
    j = lines.index("--- new")
    old = "\n".join(lines[i + 1:j]); new = "\n".join(lines[j + 1:]).rstrip("\n")
    p = os.path.join(ROOT, f)
    s = open(p).read()
    if nth == 0 and s.count(old) != 1:
        print("old text occurs %d times" % s.count(old)); return 2
    idx = -1
    for _ in range(nth + 1):
        idx = s.find(old, idx + 1)
    open(p, "w").write(s[:idx] + new + s[idx + len(old):])
    try:
        for pid in ids:
            r = subprocess.run(["/verif/check", pid], env=dict(os.environ, FV_REPO=ROOT, FV_NO_EVIDENCE="1"), capture_output=True, text=True)
            hits = [l.strip()[:260] for l in r.stdout.splitlines() if l.strip().startswith("[")]
            print("%s rc=%d %s" % (pid, r.returncode, "\n   ".join(hits[:6]) if hits else "(silent)"))
    finally:
        open(p, "w").write(s)


if __name__ == "__main__":
    sys.exit(main())
