#!/usr/bin/env python3
"""Confirm seeded changes delivered by sub-agents: for each /tmp/mutout/<PID>/patch_k.diff
 - the demonstration passes on the clean tree,
 - the demonstration fails with the patch,
 - the patched tree compiles and the pinned test suite still passes (564; ssao_bias is the known always-fail),
then store it as /verif/seeded/<PID>-<k>/ {patch.diff, demo, meta.json}.
usage: confirm_seed.py PID[:k] ...   (runs in a scratch worktree outside /repo and /verif)"""
import json, os, re, shutil, subprocess, sys, time

SLOT = os.environ.get("CONFIRM_SLOT", "")
WT = "/tmp/scratch/vwt" + SLOT
TGT = "/tmp/scratch/vwt-target" + SLOT
ENV = dict(os.environ, CARGO_TARGET_DIR=TGT, CARGO_NET_OFFLINE="true")


def sh(cmd, cwd=WT, timeout=3600):
    p = subprocess.run(cmd, shell=True, cwd=cwd, env=ENV, capture_output=True, text=True, timeout=timeout)
    return p.returncode, p.stdout + p.stderr


def reset():
    sh("git checkout -q -- . && git clean -fdq -e target")


def main():
    os.makedirs("/tmp/scratch", exist_ok=True)
    if not os.path.isdir(WT):
        subprocess.run(["git", "-C", "/repo", "worktree", "add", "--detach", WT, "HEAD"], check=True, capture_output=True)
    else:
        head = subprocess.run(["git", "-C", "/repo", "rev-parse", "HEAD"], capture_output=True, text=True).stdout.strip()
        sh("git checkout -q --detach %s" % head)
    for spec in sys.argv[1:]:
        pid, _, ks = spec.partition(":")
        d = "/tmp/mutout/%s" % pid
        klist = [int(ks)] if ks else sorted(int(re.search(r"patch_(\d+)", f).group(1)) for f in os.listdir(d) if f.startswith("patch_"))
        for k in klist:
            t0 = time.time()
            out = "/verif/seeded/%s-%d" % (pid, k)
            if os.path.exists(os.path.join(out, "meta.json")):
                print("%s-%d already confirmed" % (pid, k)); continue
            meta = json.load(open("%s/meta_%d.json" % (d, k)))
            how = meta["demo_how_to_run"]
            how = how if isinstance(how, str) else " ; ".join(how)
            m_dst = re.search(r"(?:<checkout>/)?([\w\-]+/tests/[\w\-]+\.rs)", how)
            m_p = re.search(r"-p\s+([\w\-]+)", how)
            m_t = re.search(r"--test\s+([\w\-]+)", how)
            demo_src = "%s/demo_%d.rs" % (d, k)
            m_app = re.search(r"`mod test`.*?(?: in | of )([\w\-/\.]+\.rs).*?cargo test --offline -p ([\w\-]+) (\w+)", how, re.S)
            append_to = None
            if not (m_dst and m_p and m_t) and m_app and os.path.exists(demo_src):
                # the demonstration is a #[test] to be appended inside the crate's own `mod test`
                append_to, crate, tname = m_app.group(1), m_app.group(2), m_app.group(3)
                dst = append_to
            elif not (m_dst and m_p and m_t and os.path.exists(demo_src)):
                print("%s-%d: cannot interpret demo instructions: %s" % (pid, k, how)); continue
            else:
                dst, crate, tname = m_dst.group(1), m_p.group(1), m_t.group(1)
            reset()

            def place_demo():
                if append_to:
                    src_ = open(os.path.join(WT, append_to)).read().rstrip()
                    assert src_.endswith("}")
                    open(os.path.join(WT, append_to), "w").write(src_[:-1] + "\n" + open(demo_src).read() + "\n}\n")
                else:
                    os.makedirs(os.path.join(WT, os.path.dirname(dst)), exist_ok=True)
                    shutil.copy(demo_src, os.path.join(WT, dst))

            place_demo()
            cmd = ("cargo test --offline -p %s %s 2>&1 | tail -40" % (crate, tname)) if append_to else ("cargo test --offline -p %s --test %s 2>&1 | tail -40" % (crate, tname))
            rc0, o0 = sh(cmd)
            clean_pass = "test result: ok" in o0 and "FAILED" not in o0
            if append_to:
                reset()
            rc, o = sh("git apply %s/patch_%d.diff" % (d, k))
            if rc != 0:
                print("%s-%d: patch does not apply: %s" % (pid, k, o[-300:])); reset(); continue
            if append_to:
                place_demo()
            rc1, o1 = sh(cmd)
            patched_fail = ("FAILED" in o1 or "panicked" in o1 or "overflowed its stack" in o1 or "signal: " in o1) and "error[E" not in o1 and "could not compile" not in o1
            if append_to:
                sh("git checkout -q -- %s" % append_to)
                sh("git apply %s/patch_%d.diff" % (d, k))
            else:
                os.remove(os.path.join(WT, dst))
            rc2, o2 = sh("cargo nextest run --workspace --no-fail-fast --tool-config-file pb:/w/lib/nextest.toml --profile pb --test-threads 12 --offline 2>&1 | tail -15", timeout=7200)
            msum = re.search(r"(\d+) tests run: (\d+) passed.*?(\d+) failed", o2)
            suite_ok = bool(msum) and int(msum.group(2)) >= 564 and int(msum.group(3)) <= 1 and ("ssao_bias" in o2 or int(msum.group(3)) == 0)
            failed_names = re.findall(r"(?:FAIL|SIGTERM|TIMEOUT) \[.*?\] \(\d+/\d+\) (.*)", o2)
            # wall-clock tests flake when other builds load the machine: re-run just those, alone
            FLAKY = ("tree_import_cache", "tree_import_nocache", "big_linear", "small_linear")
            others = sorted(set(n for n in failed_names if "ssao_bias" not in n))
            if not suite_ok and msum and others and all(any(f in n for f in FLAKY) for n in others):
                again_ok = True
                for n in others:
                    crate_n, test_n = n.split()[0], n.split()[-1]
                    r3, o3 = sh("cargo nextest run -p %s --offline --tool-config-file pb:/w/lib/nextest.toml --profile pb --test-threads 1 -E 'test(=%s)' 2>&1 | tail -5" % (crate_n, test_n), timeout=1800)
                    if not re.search(r"1 passed", o3):
                        r3, o3 = sh("cargo nextest run -p %s --offline --tool-config-file pb:/w/lib/nextest.toml --profile pb --test-threads 1 -E 'test(=%s)' 2>&1 | tail -5" % (crate_n, test_n), timeout=1800)
                    again_ok = again_ok and bool(re.search(r"1 passed", o3))
                if again_ok and int(msum.group(2)) + len(others) >= 564:
                    suite_ok = True
                    o2 += "\n(re-run alone and passed: %s)" % others
            reset()
            verdict = clean_pass and patched_fail and suite_ok
            print("%s-%d: clean_demo_pass=%s patched_demo_fail=%s suite_ok=%s (%s) failed=%s  [%.0fs]" % (pid, k, clean_pass, patched_fail, suite_ok, msum.group(0) if msum else o2[-200:], sorted(set(failed_names)), time.time() - t0), flush=True)
            if verdict:
                os.makedirs(out, exist_ok=True)
                shutil.copy("%s/patch_%d.diff" % (d, k), os.path.join(out, "patch.diff"))
                shutil.copy(demo_src, os.path.join(out, "demo_append.rs" if append_to else os.path.basename(dst)))
                meta["confirmed"] = {
                    "by": "tools/confirm_seed.py in a scratch worktree of /repo HEAD",
                    "demo_placed_at": dst,
                    "demo_cmd": "cargo test --offline -p %s --test %s" % (crate, tname),
                    "clean_tree_demo": "pass",
                    "patched_tree_demo": "fail: " + " ".join(l.strip() for l in o1.splitlines() if "panicked" in l or "assert" in l)[:400],
                    "patched_tree_suite": msum.group(0) + " (only failure: fidget-wgpu effects::test::ssao_bias, which also fails on the clean tree)",
                }
                json.dump(meta, open(os.path.join(out, "meta.json"), "w"), indent=1)
            else:
                with open("/tmp/mutout/confirm_fail_%s_%d.log" % (pid, k), "w") as f:
                    f.write("== clean demo\n%s\n== patched demo\n%s\n== suite\n%s\n" % (o0, o1, o2))


main()
