#!/usr/bin/env python3
"""Run every check against every confirmed seeded change (applied to /repo, undone straight afterwards)
and record which rules report it: seeded/<id>/meta.json["detection"], seeded/DETECTION.md."""
import json, os, re, subprocess, sys, concurrent.futures as cf

V = "/verif"
props = ["C%02d" % i for i in range(1, 21)]


def run_check(pid):
    p = subprocess.run([os.path.join(V, "check"), pid], capture_output=True, text=True, env=dict(os.environ, FV_NO_EVIDENCE="1"))
    keys = re.findall(r"^\s+\[([^\]]+)\]", p.stdout, re.M)
    return pid, p.returncode, keys


def main():
    only = set(sys.argv[1:])
    if subprocess.run(["git", "-C", "/repo", "diff", "--quiet"]).returncode != 0:
        print("/repo has uncommitted changes"); return 2
    rows = []
    for d in sorted(os.listdir(os.path.join(V, "seeded"))):
        sd = os.path.join(V, "seeded", d)
        if not os.path.isfile(os.path.join(sd, "patch.diff")):
            continue
        if only and d not in only and d.split("-")[0] not in only and d[:3] not in only:
            continue
        meta = json.load(open(os.path.join(sd, "meta.json")))
        if subprocess.run(["git", "-C", "/repo", "apply", os.path.join(sd, "patch.diff")]).returncode != 0:
            print(d, "patch does not apply to the current /repo"); 
            meta["detection"] = {"error": "patch no longer applies"}
            json.dump(meta, open(os.path.join(sd, "meta.json"), "w"), indent=1)
            continue
        try:
            with cf.ThreadPoolExecutor(max_workers=10) as ex:
                res = list(ex.map(run_check, props))
        finally:
            subprocess.run(["git", "-C", "/repo", "checkout", "--", "."])
        det = {pid: keys for pid, rc, keys in res if rc == 1}
        broken = [pid for pid, rc, keys in res if rc not in (0, 1)]
        own = d[:3]  # C01b-2 is a second-round seed of C01
        meta["detection"] = {"detected_by_own_property_check": own in det, "checks_reporting": det, "checks_broken": broken}
        json.dump(meta, open(os.path.join(sd, "meta.json"), "w"), indent=1)
        rows.append((d, own in det, det))
        print(d, "own:", own in det, "reported by:", sorted(det), flush=True)
    # summary file over all seeds
    lines = ["# Seeded changes and which checks report them", "",
             "Each change was produced by a fresh sub-agent that saw only the property text, confirmed by tools/confirm_seed.py",
             "(demo passes clean / fails patched, patched tree passes the pinned 564-test suite), then applied to /repo,",
             "all 20 quick checks run, and undone.  `own` = the seeded property's own check reports it.", "",
             "| seed | own | reported by (rule keys, first per check) |", "|---|---|---|"]
    for d in sorted(os.listdir(os.path.join(V, "seeded"))):
        mp = os.path.join(V, "seeded", d, "meta.json")
        if not os.path.isfile(mp):
            continue
        m = json.load(open(mp))
        det = m.get("detection", {})
        if "checks_reporting" not in det:
            continue
        cr = det["checks_reporting"]
        txt = "; ".join("%s: `%s`" % (k, v[0][:70]) for k, v in sorted(cr.items())) or "**missed**"
        lines.append("| %s | %s | %s |" % (d, "yes" if det.get("detected_by_own_property_check") else "NO", txt))
    open(os.path.join(V, "seeded", "DETECTION.md"), "w").write("\n".join(lines) + "\n")


if __name__ == "__main__":
    sys.exit(main())
