#!/usr/bin/env python3
"""Generic mutation sweep over the anchor files (a development aid, not a check): apply small mechanical edits
(relational / arithmetic operator swaps, operand-role swaps, dropped `+ 1`, deleted statement lines, min / max,
&& / ||) one at a time to a scratch copy and run the quick checks of every property that anchors the file.
Survivors, grouped by function, show where no rule reads the code.  Survivors are NOT findings: many are
equivalent mutants or would fail the pinned test suite; the list is a reading guide.

usage: mutsweep.py [-j N] [--files f1,f2] [--props C01,C02] [--max-per-fn K] [--out FILE]"""
import argparse
import json
import multiprocessing as mp
import os
import random
import re
import shutil
import subprocess
import sys
import tempfile

V = "/verif"
sys.path.insert(0, V)

REL = [(" < ", " <= "), (" <= ", " < "), (" > ", " >= "), (" >= ", " > "), (" == ", " != "), (" != ", " == ")]
ARI = [(" + ", " - "), (" - ", " + "), (" * ", " + "), (" / ", " * ")]
WORDSWAP = [("lhs", "rhs"), ("lower", "upper"), ("min", "max"), ("x", "y"), ("y", "z"), ("X", "Y"), ("Y", "Z"), ("Left", "Right"),
            ("true", "false"), ("i", "j"), ("a", "b"), ("0", "1"), ("1", "2"), ("width", "height"), ("start", "end"),
            ("lo", "hi"), ("first", "last"), ("is_some", "is_none"), ("any", "all")]
OTHER = [(" && ", " || "), (" || ", " && "), (" + 1", ""), (" - 1", ""), (".rev()", ""), ("!", ""), (" as usize", " as usize + 1"),
         ("..=", ".."), ("0.0", "1.0"), (".abs()", ""), ("-", "")]


def code_lines(path):
    """(index, line) of lines that are code outside test modules / comments / attributes / asserts"""
    out = []
    lines = open(path).read().split("\n")
    in_test = False
    for i, l in enumerate(lines):
        s = l.strip()
        if s.startswith("#[cfg(test)]"):
            in_test = True
        if in_test:
            continue
        if not s or s.startswith("//") or s.startswith("#[") or s.startswith("#!") or s.startswith("use ") or s.startswith("pub use "):
            continue
        if re.match(r"(debug_)?assert", s) or s.startswith("panic!") or s.startswith("unreachable!") or "\"" in s:
            continue
        if re.match(r"(pub(\(crate\))? )?(unsafe )?(extern \"\w+\" )?(fn|impl|struct|enum|trait|mod|type|const|static)\b", s):
            continue
        out.append((i, l))
    return lines, out


def mutants_of_line(l):
    ms = []
    for a, b in REL + ARI + OTHER:
        k = l.find(a)
        if k >= 0 and not (a in (" < ", " > ") and ("->" in l or "::<" in l)):
            if a in ("!", "-"):
                # only a prefix operator: preceded by space / paren, followed by an identifier char
                m = re.search(r"(?<=[\s(=,])%s(?=[A-Za-z_(])" % re.escape(a), l)
                if not m:
                    continue
                k = m.start()
            ms.append((a.strip() + "->" + (b.strip() or "''"), l[:k] + b + l[k + len(a):]))
    for a, b in WORDSWAP:
        ra, rb = r"\b%s\b" % re.escape(a), r"\b%s\b" % re.escape(b)
        if re.search(ra, l) or re.search(rb, l):
            n = re.sub(r"\b(%s|%s)\b" % (re.escape(a), re.escape(b)), lambda m: b if m.group(0) == a else a, l)
            if n != l:
                ms.append(("swap %s/%s" % (a, b), n))
    s = l.strip()
    if s.endswith(";") and not s.startswith(("let ", "return", "break", "continue", "}")) and s.count("(") == s.count(")") and s.count("{") == s.count("}") and s.count("[") == s.count("]"):
        ms.append(("delete", l[: len(l) - len(l.lstrip())] + "// deleted"))
    return ms


def fn_spans(relpath):
    from fv import ast as A
    spans = []
    for f in A.fns(relpath):
        b = dict.get(f, "body")
        if not b:
            continue
        spans.append((f.get("ln"), f.get("end_ln") or None, A.fn_label(f)))
    spans.sort()
    return spans


def fn_at(spans, ln):
    best = "?"
    for s, e, lab in spans:
        if s <= ln:
            best = lab
        else:
            break
    return best


_root = None


def init_worker():
    global _root
    _root = tempfile.mkdtemp(prefix="fv-sweep-")
    subprocess.run(["rsync", "-a", "--exclude", "target", "--exclude", ".git", "--exclude", "node_modules", "/repo/", _root + "/"], check=True)


def run_mut(job):
    relpath, idx, op, newline, props, fn = job
    p = os.path.join(_root, relpath)
    orig = open(p).read()
    lines = orig.split("\n")
    old = lines[idx]
    lines[idx] = newline
    open(p, "w").write("\n".join(lines))
    fired = []
    try:
        for pid in props:
            r = subprocess.run([os.path.join(V, "check"), pid], env=dict(os.environ, FV_REPO=_root, FV_NO_EVIDENCE="1", FV_SELFTEST="1"), capture_output=True, text=True)
            if r.returncode != 0:
                m = re.findall(r"^\s*(?:VIOLATION|viol\w*|.*?)\b(C\d\d[.\w]*R\w+)", r.stdout, re.M)
                fired.append(pid)
                break  # one report is enough
    finally:
        open(p, "w").write(orig)
    return {"file": relpath, "line": idx + 1, "fn": fn, "op": op, "old": old.strip(), "new": newline.strip(), "fired": fired}


def main():
    ap = argparse.ArgumentParser()
    ap.add_argument("-j", type=int, default=8)
    ap.add_argument("--files")
    ap.add_argument("--props")
    ap.add_argument("--max-per-fn", type=int, default=6)
    ap.add_argument("--out", default="/tmp/mutsweep.jsonl")
    ap.add_argument("--seed", type=int, default=1)
    args = ap.parse_args()
    rnd = random.Random(args.seed)
    anchors = {}
    for line in open(os.path.join(V, "properties.jsonl")):
        p = json.loads(line)
        if args.props and p["id"] not in args.props.split(","):
            continue
        for f in p["anchors"]["files"]:
            if f.endswith(".rs") and "aarch64" not in f and os.path.exists("/repo/" + f):
                anchors.setdefault(f, []).append(p["id"])
    jobs = []
    for f, props in sorted(anchors.items()):
        if args.files and f not in args.files.split(","):
            continue
        spans = fn_spans(f)
        _, cl = code_lines("/repo/" + f)
        per_fn = {}
        for idx, l in cl:
            fn = fn_at(spans, idx + 1)
            for op, nl in mutants_of_line(l):
                per_fn.setdefault(fn, []).append((f, idx, op, nl, props, fn))
        for fn, js in per_fn.items():
            rnd.shuffle(js)
            # prefer distinct lines
            seen = set()
            pick = []
            for j in js:
                if j[1] in seen:
                    continue
                seen.add(j[1])
                pick.append(j)
                if len(pick) >= args.max_per_fn:
                    break
            jobs.extend(pick)
    rnd.shuffle(jobs)
    print("jobs:", len(jobs), file=sys.stderr)
    with mp.Pool(args.j, initializer=init_worker) as pool, open(args.out, "w") as out:
        for k, r in enumerate(pool.imap_unordered(run_mut, jobs)):
            out.write(json.dumps(r) + "\n")
            out.flush()
            if k % 50 == 0:
                print(k, file=sys.stderr)
    # scratch copies
    for d in os.listdir(tempfile.gettempdir()):
        if d.startswith("fv-sweep-"):
            shutil.rmtree(os.path.join(tempfile.gettempdir(), d), ignore_errors=True)


if __name__ == "__main__":
    main()
