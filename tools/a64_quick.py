#!/usr/bin/env python3
"""Regression over seeded_a64/: apply each patch to a scratch copy of /repo's HEAD; the check of the property
named in its meta.json must report a violation (these changes cannot be confirmed by execution on x86_64)."""
import json
import os
import shutil
import subprocess
import sys
import tempfile

V = os.path.dirname(os.path.dirname(os.path.abspath(__file__)))
REPO = os.environ.get("FV_REPO_BASE", "/repo")


def main():
    root = tempfile.mkdtemp(prefix="fv-a64quick-")
    missed = 0
    try:
        subprocess.run("git -C %s archive HEAD | tar -x -C %s" % (REPO, root), shell=True, check=True)
        subprocess.run("cd %s && git init -q && git add -A && git -c user.email=a@b -c user.name=x commit -qm base" % root, shell=True, check=True)
        base = os.path.join(V, "seeded_a64")
        for d in sorted(os.listdir(base)):
            pd = os.path.join(base, d, "patch.diff")
            if not os.path.isfile(pd):
                continue
            meta = json.load(open(os.path.join(base, d, "meta.json")))
            pid = str(meta.get("property", "C02"))[:3]
            subprocess.run("cd %s && git checkout -q -- . && git clean -fdq" % root, shell=True, check=True)
            r = subprocess.run(["git", "-C", root, "apply", pd], capture_output=True, text=True)
            if r.returncode != 0:
                print("FAIL %s: patch does not apply" % d)
                missed += 1
                continue
            r = subprocess.run([os.path.join(V, "check"), pid], env=dict(os.environ, FV_REPO=root, FV_NO_EVIDENCE="1"), capture_output=True, text=True)
            lines = [l.strip() for l in r.stdout.splitlines() if l.strip().startswith("[")]
            if r.returncode == 1 and lines:
                print("ok   %s %s" % (d, lines[0][:150]))
            else:
                print("MISS %s (%s): %s" % (d, pid, str(meta.get("summary"))[:120]))
                missed += 1
    finally:
        shutil.rmtree(root, ignore_errors=True)
    print("a64_quick: %d missed" % missed)
    return 1 if missed else 0


if __name__ == "__main__":
    sys.exit(main())
