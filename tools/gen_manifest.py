#!/usr/bin/env python3
"""Regenerate MANIFEST.json from the table below (keeps it valid at all times)."""
import json, os, sys
HERE = os.path.dirname(os.path.dirname(os.path.abspath(__file__)))
sys.path.insert(0, HERE)
from fv.claims import CLAIMS, NOT_APPLICABLE, ENGINES, NOTES

props = [json.loads(l) for l in open(os.path.join(HERE, "properties.jsonl"))]
ids = [p["id"] for p in props]
checks = []
for pid in ids:
    if pid not in CLAIMS:
        continue
    c = CLAIMS[pid]
    checks.append({
        "property_id": pid,
        "quick_cmd": "./check %s --tier quick" % pid,
        "thorough_cmd": "./check %s --tier thorough" % pid,
        "evidence_file": "/verif/evidence/%s.json" % pid,
        "replay_cmd_template": "./check %s --explain {path}" % pid,
        "engine": c.get("engine", "fvlint"),
        "level_claimed": {"category": "other", "text": c["text"], "design_ref": "DESIGN.md section 3, %s" % pid},
        "level_note": c["note"],
        "technique": c["technique"],
    })
na = [{"property_id": pid, "reason": NOT_APPLICABLE[pid]} for pid in ids if pid in NOT_APPLICABLE and pid not in CLAIMS]
missing = [pid for pid in ids if pid not in CLAIMS and pid not in NOT_APPLICABLE]
assert not missing, missing
m = {
    "version": 1,
    "setup_cmd": "./setup.sh",
    "hooks": {
        "guard": "fidget_verif",
        "enable": "none needed: the checks never build or run fidget; they read /repo's source",
        "baseline_off_cmd": "cd /repo && cargo nextest run --workspace --no-fail-fast --tool-config-file pb:/w/lib/nextest.toml --profile pb --test-threads 8 --offline",
        "source_commits": [],
        "add_only": True,
    },
    "engines": ENGINES,
    "checks": checks,
    "notes": NOTES,
    "not_applicable": na,
}
json.dump(m, open(os.path.join(HERE, "MANIFEST.json"), "w"), indent=1)
print("MANIFEST.json: %d checks, %d not applicable" % (len(checks), len(na)))
