#!/usr/bin/env python3
"""Detection of freshly delivered (not yet confirmed) seeds: apply /tmp/mutout/<PID>/patch_k.diff to a scratch
copy of /repo's HEAD, run the seed's own property check.  usage: mutout_quick.py PID [PID..]"""
import glob, os, re, subprocess, sys, tempfile, shutil, json
V = "/verif"
def main():
    root = tempfile.mkdtemp(prefix="fv-mutoutquick-")
    try:
        subprocess.run("git -C /repo archive HEAD | tar -x -C %s" % root, shell=True, check=True)
        subprocess.run("cd %s && git init -q . && git add -A >/dev/null && git -c user.email=a@b -c user.name=x commit -qm base" % root, shell=True, check=True)
        for pid in sys.argv[1:]:
            for p in sorted(glob.glob("/tmp/mutout/%s/patch_*.diff" % pid)):
                k = re.search(r"patch_(\d+)", p).group(1)
                try:
                    summ = " ".join(json.load(open("/tmp/mutout/%s/meta_%s.json" % (pid, k)))["summary"].split())[:150]
                except Exception:
                    summ = "?"
                if subprocess.run(["git", "-C", root, "apply", p], capture_output=True).returncode != 0:
                    print("%s-%s patch does not apply" % (pid, k)); continue
                r = subprocess.run([os.path.join(V, "check"), pid[:3]], env=dict(os.environ, FV_REPO=root, FV_NO_EVIDENCE="1"), capture_output=True, text=True)
                subprocess.run("cd %s && git checkout -q -- . && git clean -fdq" % root, shell=True)
                keys = [l.strip()[:160] for l in r.stdout.splitlines() if l.strip().startswith("[")]
                print("%s %s-%s  %s" % ("ok  " if r.returncode == 1 and keys else "MISS", pid, k, summ), flush=True)
                for kk in keys[:3]:
                    print("        ", kk)
    finally:
        shutil.rmtree(root, ignore_errors=True)
main()
