"""Constant folding of the mesher's small index functions over their complete finite domains.

The octree's vocabulary (fidget-mesh/src/types.rs, frame.rs, the table generator build.rs) consists of pure
functions on three-bit corner numbers, one-hot axes, edge numbers 0..12 and 8-bit corner masks.  Their domains are
finite and tiny, so each definition is *folded* - every operator, newtype constructor, user-defined operator impl
and method is replaced by its definition from the source - for every element of its domain, and the resulting
tables are compared with each other (writer against reader) and with the documented geometry.  Nothing of fidget
is built or run: the folding works on the syntax tree and follows the repository's own definitions, so a change in
either side of a pair shows up as a disagreement.

Values: python ints and bools, tuples / lists, `TV(type, n)` for the newtypes, dicts for plain structs."""
from . import ast as A

TYPES = "fidget-mesh/src/types.rs"
FRAME = "fidget-mesh/src/frame.rs"

NEWTYPES = ("Axis", "Corner", "Edge", "CellMask", "Offset")
OPTRAIT = {"&": ("BitAnd", "bitand"), "|": ("BitOr", "bitor"), "*": ("Mul", "mul"), "^": ("BitXor", "bitxor")}


class Stop(Exception):
    pass


class Unreachable(Exception):
    pass


class Ret(Exception):
    def __init__(self, v):
        self.v = v


class TV:
    __slots__ = ("ty", "n")

    def __init__(self, ty, n):
        self.ty, self.n = ty, n

    def __eq__(self, o):
        return isinstance(o, TV) and (o.ty, o.n) == (self.ty, self.n)

    def __hash__(self):
        return hash((self.ty, self.n))

    def __repr__(self):
        return "%s(%s)" % (self.ty, self.n)


def tyname(v):
    if isinstance(v, TV):
        return v.ty
    if isinstance(v, bool):
        return "bool"
    if isinstance(v, int):
        return "int"
    if isinstance(v, dict):
        return v.get("__ty")
    return None


class Fold:
    """`files`: where free functions / consts / impls are looked up (first match wins); `hook(node, interp)` may
    intercept a node (return a value other than NotImplemented)"""

    def __init__(self, files, root=None, env=None, hook=None, bits=64):
        self.files = files
        self.root = root
        self.env = dict(env or {})
        self.hook = hook
        self.bits = bits
        self.depth = 0

    # ---- lookups
    def const(self, name):
        for f in self.files:
            for it in A.load(f, self.root)["items"]:
                if it.get("k") == "Const" and it.get("name") == name and it.get("e") is not None:
                    return self.sub({}).ev(it["e"])
        raise Stop("name `%s`" % name)

    def free_fn(self, name):
        for f in self.files:
            for fn in A.fns(f, self.root):
                if fn["name"] == name and not fn.get("_owner"):
                    return fn
        return None

    def method(self, ty, name):
        for f in self.files:
            for fn in A.fns(f, self.root):
                ow = fn.get("_owner") or {}
                if fn["name"] == name and A.strip_generics(ow.get("self_ty") or "") == ty:
                    return fn
        return None

    def op_impl(self, trait, lty, rty, mname):
        for f in self.files:
            for fn in A.fns(f, self.root):
                ow = fn.get("_owner") or {}
                tr = (ow.get("trait") or "").split("::")[-1]
                if fn["name"] != mname or A.strip_generics(ow.get("self_ty") or "") != lty or not tr.startswith(trait):
                    continue
                arg = tr[len(trait):].strip("<>")
                arg = A.strip_generics(arg) or lty
                if arg == "Self":
                    arg = lty
                if arg == rty:
                    return fn
        return None

    def sub(self, env):
        s = Fold(self.files, self.root, env, self.hook, self.bits)
        s.depth = self.depth + 1
        if s.depth > 12:
            raise Stop("definition nesting too deep")
        return s

    def call_fn(self, fn, selfv, args):
        env = {}
        ps = [p for p in fn["sig"]["inputs"]]
        k = 0
        for p in ps:
            if "self" in p:
                env["self"] = selfv
                continue
            if k >= len(args):
                raise Stop("arity of %s" % fn["name"])
            s = self.sub(env)
            s.bind(p["pat"], args[k])
            env = s.env
            k += 1
        s = self.sub(env)
        try:
            return s.block(fn["body"])
        except Ret as r:
            return r.v

    # ---- evaluation
    def ev(self, e):
        if self.hook is not None:
            r = self.hook(e, self)
            if r is not NotImplemented:
                return r
        k = e.get("k")
        if k in ("Paren", "Ref", "Group"):
            return self.ev(e["e"])
        if k == "Lit":
            if e.get("ty") == "int":
                s = str(e["v"]).replace("_", "")
                for suf in ("usize", "u8", "u16", "u32", "u64", "i32", "i64", "isize"):
                    if s.endswith(suf):
                        s = s[: -len(suf)]
                return int(s, 0)
            if e.get("ty") == "bool":
                return str(e["v"]).lower() == "true"
            raise Stop("literal `%s`" % e.get("s"))
        if k == "Path":
            segs = e["segs"]
            if len(segs) == 1:
                n = segs[0]
                if n in self.env:
                    return self.env[n]
                if n in ("true", "false"):
                    return n == "true"
                return self.const(n)
            if segs[-2:] == ["u8", "MAX"]:
                return 255
            return self.const(segs[-1])
        if k == "Field":
            v = self.ev(e["e"])
            m = str(e["member"])
            if isinstance(v, TV) and m == "0":
                return v.n
            if isinstance(v, dict) and m in v:
                return v[m]
            if isinstance(v, tuple) and m.isdigit() and int(m) < len(v):
                return v[int(m)]
            raise Stop("field `.%s`" % m)
        if k == "Cast":
            v = self.ev(e["e"])
            if isinstance(v, bool):
                return int(v)
            if isinstance(v, int):
                return v
            raise Stop("cast of `%s`" % A.unparse(e["e"])[:30])
        if k == "Unary":
            v = self.ev(e["e"])
            op = e.get("op")
            if op == "!" and isinstance(v, bool):
                return not v
            if op == "*":
                return v
            if op == "-" and isinstance(v, int):
                return -v
            raise Stop("unary `%s`" % op)
        if k == "Tuple":
            return tuple(self.ev(x) for x in e["elems"])
        if k == "Array":
            return [self.ev(x) for x in e["elems"]]
        if k == "Range":
            lo = self.ev(e["start"]) if e.get("start") else 0
            hi = self.ev(e["end"])
            if e.get("closed"):
                hi += 1
            return list(range(lo, hi))
        if k == "Index":
            v = self.ev(e["e"])
            i = self.ev(e["index"])
            if isinstance(i, TV):
                i = i.n
            if isinstance(v, (list, tuple)) and isinstance(i, int) and 0 <= i < len(v):
                return v[i]
            raise Stop("index `%s`" % A.unparse(e)[:40])
        if k == "Binary":
            return self.binary(e)
        if k == "Call":
            return self.call(e)
        if k == "MethodCall":
            return self.mcall(e)
        if k == "Struct":
            name = (e.get("path") or e.get("segs") or ["?"])
            name = name[-1] if isinstance(name, list) else str(name).split("::")[-1]
            out = {"__ty": name.replace(" ", "")}
            for f in e.get("fields", []):
                out[f["name"]] = self.ev(f["e"] if f.get("e") is not None else {"k": "Path", "segs": [f["name"]]})
            return out
        if k == "Closure":
            return ("closure", e.get("inputs", e.get("params", [])), e["body"], self)
        if k == "Block":
            return self.block(e)
        if k == "If":
            c = self.ev(e["cond"])
            if not isinstance(c, bool):
                raise Stop("condition `%s` is not decided" % A.unparse(e["cond"])[:40])
            if c:
                return self.ev(e["then"])
            return self.ev(e["else"]) if e.get("else") is not None else None
        if k == "Match":
            v = self.ev(e["e"])
            for arm in e["arms"]:
                s = self.sub(self.env)
                if s.matches(arm["pat"], v):
                    if arm.get("guard") is not None and not s.ev(arm["guard"]):
                        continue
                    r = s.ev(arm["body"])
                    return r
            raise Stop("no arm matches")
        if k == "For":
            seq = self.ev(e["iter"])
            if not isinstance(seq, (list, tuple)):
                raise Stop("loop over `%s`" % A.unparse(e["iter"])[:40])
            for item in seq:
                self.bind(e["pat"], item)
                self.block(e["body"])
            return None
        if k == "While":
            n = 0
            while True:
                c = self.ev(e["cond"])
                if not isinstance(c, bool):
                    raise Stop("loop condition `%s` is not decided" % A.unparse(e["cond"])[:40])
                if not c:
                    return None
                n += 1
                if n > 4096:
                    raise Stop("loop does not end")
                self.block(e["body"])
        if k == "Return":
            raise Ret(self.ev(e["e"]) if e.get("e") is not None else None)
        if k == "Assign":
            tgt = A.strip(e["left"])
            if tgt.get("k") == "Path" and len(tgt["segs"]) == 1:
                self.env[tgt["segs"][0]] = self.ev(e["right"])
                return None
            raise Stop("assignment to `%s`" % A.unparse(tgt)[:30])
        if k == "Macro":
            if e.get("name") in ("unreachable", "panic", "unimplemented", "todo"):
                raise Unreachable()
            return None
        raise Stop("`%s`" % (k or "?"))

    def binary(self, e):
        op = e["op"]
        if op in ("&&", "||"):
            a = self.ev(e["left"])
            if not isinstance(a, bool):
                raise Stop("operand of %s" % op)
            if (op == "&&" and not a) or (op == "||" and a):
                return a
            b = self.ev(e["right"])
            if not isinstance(b, bool):
                raise Stop("operand of %s" % op)
            return b
        if op in ("+=", "-=", "|=", "&=", "^=", "*="):
            tgt = A.strip(e["left"])
            if tgt.get("k") == "Path" and len(tgt["segs"]) == 1:
                fake = dict(e, op=op[:-1])
                self.env[tgt["segs"][0]] = self.binary(fake)
                return None
            raise Stop("compound assignment to `%s`" % A.unparse(tgt)[:30])
        a, b = self.ev(e["left"]), self.ev(e["right"])
        if isinstance(a, (TV, dict)) or isinstance(b, (TV, dict)):
            if op in ("==", "!="):
                return (a == b) == (op == "==")
            if op in OPTRAIT and isinstance(a, TV):
                tr, mn = OPTRAIT[op]
                fn = self.op_impl(tr, a.ty, tyname(b), mn)
                if fn is None:
                    raise Stop("no `impl %s<%s> for %s`" % (tr, tyname(b), a.ty))
                return self.call_fn(fn, a, [b])
            raise Stop("operator `%s` on %s / %s" % (op, tyname(a), tyname(b)))
        if isinstance(a, bool) and isinstance(b, bool):
            t = {"==": a == b, "!=": a != b, "&": a and b, "|": a or b, "^": a != b}
            if op in t:
                return t[op]
            raise Stop("operator `%s` on booleans" % op)
        if isinstance(a, bool) or isinstance(b, bool) or not isinstance(a, int) or not isinstance(b, int):
            raise Stop("operator `%s` on `%s`" % (op, A.unparse(e)[:40]))
        if op in ("/", "%") and b == 0:
            raise Stop("division by zero")
        f = {"+": lambda: a + b, "-": lambda: a - b, "*": lambda: a * b, "/": lambda: a // b, "%": lambda: a % b,
             "&": lambda: a & b, "|": lambda: a | b, "^": lambda: a ^ b, "<<": lambda: a << b, ">>": lambda: a >> b,
             "==": lambda: a == b, "!=": lambda: a != b, "<": lambda: a < b, ">": lambda: a > b,
             "<=": lambda: a <= b, ">=": lambda: a >= b}
        if op not in f:
            raise Stop("operator `%s`" % op)
        return f[op]()

    def call(self, e):
        segs = A.path_segs(e["func"]) or []
        args = [self.ev(a) for a in e["args"]]
        if not segs:
            raise Stop("call `%s`" % A.unparse(e["func"])[:30])
        head = A.strip_generics(segs[0]) if len(segs) > 1 else None
        last = segs[-1]
        if len(segs) == 1 and last in NEWTYPES and len(args) == 1 and isinstance(args[0], int):
            return TV(last, args[0])
        if len(segs) == 1 and last == "Some" and len(args) == 1:
            return ("Some", args[0])
        if len(segs) == 2 and head in NEWTYPES and last == "new" and len(args) == 1 and isinstance(args[0], int):
            # the constructors only assert their range; the value is the argument
            return TV(head, args[0])
        if len(segs) == 2 and last in ("from", "try_from") and head in ("usize", "u8", "u16", "u32", "u64", "i32", "i64", "isize") and len(args) == 1 and isinstance(args[0], int) and not isinstance(args[0], bool):
            return args[0]  # lossless integer widening
        if len(segs) == 2 and last in ("from",) and head in NEWTYPES and len(args) == 1:
            fn = self.op_impl("From", head, tyname(args[0]), "from")
            if fn is not None:
                return self.call_fn(fn, None, args)
        if len(segs) == 2:
            fn = self.method(head, last)
            if fn is not None:
                hasself = any("self" in p for p in fn["sig"]["inputs"])
                return self.call_fn(fn, args[0] if hasself else None, args[1:] if hasself else args)
        if len(segs) == 1:
            if last in self.env and isinstance(self.env[last], tuple) and self.env[last][:1] == ("closure",):
                return self.apply_closure(self.env[last], args)
            if last in self.env and callable(self.env[last]):
                return self.env[last](*args)
            fn = self.free_fn(last)
            if fn is not None:
                return self.call_fn(fn, None, args)
        raise Stop("call `%s`" % "::".join(segs))

    def apply_closure(self, clo, args):
        _tag, params, body, home = clo
        home = home or self  # a closure read from the enclosing function: its captures are looked up at the call
        sub = home.sub(home.env)
        if len(params) != len(args):
            raise Stop("closure arity")
        for p_, a_ in zip(params, args):
            sub.bind(p_, a_)
        try:
            return sub.ev(body)
        except Ret as r_:
            return r_.v

    def mcall(self, e):
        m = e["method"]
        recv = self.ev(e["recv"])
        args = [self.ev(a) for a in e["args"]]
        if isinstance(recv, (list, tuple)) and m in ("all", "any") and len(args) == 1 and isinstance(args[0], tuple) and args[0][:1] == ("closure",):
            vals = []
            for x in recv:
                v_ = self.apply_closure(args[0], [x])
                if not isinstance(v_, bool):
                    raise Stop("predicate of .%s() is not decided" % m)
                vals.append(v_)
            return all(vals) if m == "all" else any(vals)
        if isinstance(recv, (list, tuple)) and m == "map" and len(args) == 1 and isinstance(args[0], tuple) and args[0][:1] == ("closure",):
            return [self.apply_closure(args[0], [x]) for x in recv]
        if isinstance(recv, TV) or isinstance(recv, dict):
            if m == "into" and not args:
                return recv
            fn = self.method(tyname(recv), m)
            if fn is not None:
                return self.call_fn(fn, recv, args)
            raise Stop("method `%s::%s`" % (tyname(recv), m))
        if isinstance(recv, bool):
            raise Stop("method `.%s()` on a boolean" % m)
        if isinstance(recv, int):
            mask = (1 << self.bits) - 1
            if m == "trailing_zeros" and not args:
                return (recv & -recv).bit_length() - 1 if recv else self.bits
            if m == "count_ones" and not args:
                return bin(recv & mask).count("1")
            if m in ("rotate_left", "rotate_right") and len(args) == 1:
                n = args[0] % self.bits
                if m == "rotate_right":
                    n = (self.bits - n) % self.bits
                return ((recv << n) | (recv >> (self.bits - n))) & mask if n else recv & mask
            if m in ("into", "try_into", "unwrap", "clone") and not args:
                return recv
            raise Stop("method `.%s()` on an integer" % m)
        if isinstance(recv, (list, tuple)):
            if m in ("iter", "into_iter", "copied", "cloned", "clone") and not args:
                return recv
            if m == "len" and not args:
                return len(recv)
        raise Stop("method `.%s()`" % m)

    def matches(self, pat, v):
        k = pat.get("k")
        if k == "PWild":
            return True
        if k == "PIdent":
            self.env[pat["name"]] = v
            return True
        if k == "PLit":
            return self.ev(pat["lit"]) == v
        if k == "POr":
            return any(self.matches(p, v) for p in pat.get("cases", pat.get("pats", [])))
        if k == "PTuple" and isinstance(v, tuple) and len(pat["elems"]) == len(v):
            return all(self.matches(p, x) for p, x in zip(pat["elems"], v))
        if k == "PRange":
            lo = self.ev(pat["lo"]) if pat.get("lo") else None
            hi = self.ev(pat["hi"]) if pat.get("hi") else None
            return (lo is None or lo <= v) and (hi is None or (v <= hi if pat.get("closed", True) else v < hi))
        raise Stop("pattern `%s`" % A.unparse(pat)[:30])

    def bind(self, pat, v):
        k = pat.get("k")
        if k == "PType":
            # `let a: Corner<3> = axis.into()`: the annotation selects the conversion
            want = A.strip_generics(str(pat.get("ty") or "").replace(" ", ""))
            if isinstance(v, TV) and want in NEWTYPES and want != v.ty:
                fn = self.op_impl("From", want, v.ty, "from")
                if fn is None:
                    raise Stop("no `impl From<%s> for %s`" % (v.ty, want))
                v = self.call_fn(fn, None, [v])
            return self.bind(pat["pat"], v)
        if k == "PRef":
            return self.bind(pat["pat"], v)
        if k == "PIdent":
            self.env[pat["name"]] = v
            return
        if k == "PWild":
            return
        if k in ("PTuple", "PSlice") and isinstance(v, (list, tuple)) and len(pat.get("elems", [])) == len(v):
            for p, x in zip(pat["elems"], v):
                self.bind(p, x)
            return
        raise Stop("pattern `%s`" % A.unparse(pat)[:30])

    def block(self, b):
        last = None
        for s in A.stmts_of(b):
            k = s.get("k")
            if k == "Let":
                if s.get("init") is None:
                    raise Stop("uninitialised let")
                self.bind(s["pat"], self.ev(s["init"]))
                last = None
            elif k == "ExprStmt":
                last = self.ev(s["e"])
                if s.get("semi"):
                    last = None
            elif k in ("Item", "Fn", "Use", "Const"):
                continue
            else:
                last = self.ev(s)
        return last
