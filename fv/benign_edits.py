"""Behaviour-preserving edits (see fv/benign.py). (file, old, new, note)"""

VM = "fidget-core/src/vm/mod.rs"
ALLOC = "fidget-core/src/compiler/alloc.rs"

BENIGN = [
    # ---- interpreter loops -------------------------------------------------
    (VM, "RegOp::AddRegReg(out, lhs, rhs) => v[out] = v[lhs] + v[rhs],", "RegOp::AddRegReg(out, lhs, rhs) => {\n v[out] = v[lhs] + v[rhs];\n }", "interval loop: expression arm -> block arm"),
    (
        VM,
        ("nth", 0, "RegOp::MinRegReg(out, lhs, rhs) => {\n                    let (value, choice) = v[lhs].min_choice(v[rhs]);\n                    v[out] = value;\n                    *choices.next().unwrap() |= choice;\n                    simplify |= choice != Choice::Both;"),
        "RegOp::MinRegReg(out, lhs, rhs) => {\n                    let (val, c) = v[lhs].min_choice(v[rhs]);\n                    v[out] = val;\n                    *choices.next().unwrap() |= c;\n                    simplify |= c != Choice::Both;",
        "interval loop: rename the locals of one choice arm",
    ),
    (
        VM,
        ("nth", 0, "RegOp::AddRegReg(out, lhs, rhs) => {\n                    for i in 0..size {\n                        v[out][i] = v[lhs][i] + v[rhs][i];"),
        "RegOp::AddRegReg(out, lhs, rhs) => {\n                    for j in 0..size {\n                        v[out][j] = v[lhs][j] + v[rhs][j];",
        "float-slice loop: rename the lane index of one arm",
    ),
    (
        VM,
        ("nth", 0, "let (value, choice) = v[arg].min_choice(imm.into());"),
        "let imm: Interval = imm.into();\n let (value, choice) = v[arg].min_choice(imm);",
        "interval loop: name the converted immediate",
    ),
    (
        VM,
        ("nth", 0, "simplify |= choice != Choice::Both;"),
        "if choice != Choice::Both {\n simplify = true;\n }",
        "interval loop: |= of a comparison -> if",
    ),
    (
        VM,
        ("nth", 0, "RegOp::SubRegImm(out, arg, imm) => {\n                    v[out] = v[arg] - imm.into();"),
        "RegOp::SubRegImm(out, arg, imm) => {\n                    // subtract the constant\n                    v[out] = v[arg] - Interval::from(imm);",
        "interval loop: .into() -> Interval::from and a comment",
    ),
    # ---- allocator ---------------------------------------------------------
    (ALLOC, "assert!(r_x != r_y);\n                self.out.push(op(r_x, r_y));", "assert_ne!(r_x, r_y);\n                self.out.push(op(r_x, r_y));", "op_reg_fn: assert! -> assert_ne!"),
    (
        ALLOC,
        "let r_a = self.get_register();\n                self.push_store(r_a, m_y);\n                self.out.push(op(r_x, r_a));\n                self.release_reg(r_x);\n                self.bind_register(arg, r_a);",
        "let r_tmp = self.get_register();\n                self.push_store(r_tmp, m_y);\n                self.out.push(op(r_x, r_tmp));\n                self.release_reg(r_x);\n                self.bind_register(arg, r_tmp);",
        "op_reg_fn: rename the temporary register of the memory case",
    ),
    (
        ALLOC,
        "Allocation::Register(r_y) => {\n                assert!(r_x != r_y);\n                self.out.push(op(r_x, r_y));",
        "Allocation::Register(r_y) => {\n                assert!(r_x != r_y);\n                let instr = op(r_x, r_y);\n                self.out.push(instr);",
        "op_reg_fn: name the pushed instruction",
    ),
    (
        ALLOC,
        "let r_a = self.get_register();\n\n                self.push_store(r_a, m_x);\n                self.bind_register(out, r_a);\n                r_a",
        "let reg = self.get_register();\n\n                self.push_store(reg, m_x);\n                self.bind_register(out, reg);\n                reg",
        "get_out_reg: rename the fresh register",
    ),
    (
        ALLOC,
        "let node = self.registers[reg as usize];\n        assert!(node != UNASSIGNED);",
        "let node = self.registers[usize::from(reg)];\n        assert_ne!(node, UNASSIGNED);",
        "release_reg: usize::from and assert_ne",
    ),
    (
        ALLOC,
        "self.registers[reg as usize] = UNASSIGNED;\n        self.spare_registers.push(reg);",
        "self.spare_registers.push(reg);\n        self.registers[reg as usize] = UNASSIGNED;",
        "release_reg: reorder two independent statements",
    ),
    (
        ALLOC,
        "fn push_store(&mut self, reg: u8, mem: u32) {\n        self.out.push(RegOp::Store(reg, mem));",
        "fn push_store(&mut self, reg: u8, mem: u32) {\n        let store = RegOp::Store(reg, mem);\n        self.out.push(store);",
        "push_store: name the store op",
    ),
]

SSA = "fidget-core/src/compiler/ssa_tape.rs"
DATA = "fidget-core/src/vm/data.rs"

BENIGN += [
    # ---- SsaTape::new -------------------------------------------------------
    (SSA, "BinaryOpcode::Min\n                            | BinaryOpcode::Max\n                            | BinaryOpcode::And\n                            | BinaryOpcode::Or\n                    ) {", "BinaryOpcode::And\n                            | BinaryOpcode::Or\n                            | BinaryOpcode::Min\n                            | BinaryOpcode::Max\n                    ) {", "SsaTape::new: reorder the alternatives of the choice-op test"),
    (SSA, "(Slot::Reg(lhs), Slot::Reg(rhs)) => f.0(i, lhs, rhs),", "(Slot::Reg(a), Slot::Reg(b)) => f.0(i, a, b),", "SsaTape::new: rename the bindings of the reg/reg slot arm"),
    (SSA, "(Slot::Reg(arg), Slot::Immediate(imm)) => {\n                            f.1(i, arg, imm)\n                        }", "(Slot::Reg(reg), Slot::Immediate(c)) => f.1(i, reg, c),", "SsaTape::new: rename + unbrace the reg/imm slot arm"),
    (SSA, "UnaryOpcode::Neg => SsaOp::NegReg,\n                        UnaryOpcode::Abs => SsaOp::AbsReg,", "UnaryOpcode::Abs => SsaOp::AbsReg,\n                        UnaryOpcode::Neg => SsaOp::NegReg,", "SsaTape::new: reorder two rows of the unary table"),
    (SSA, [("let op = match op {\n                        UnaryOpcode::Neg", "let ctor = match op {\n                        UnaryOpcode::Neg"), ("op(i, lhs)\n", "ctor(i, lhs)\n")], None, "SsaTape::new: rename the unary constructor variable"),
    (SSA, "let o = slot_count;\n                    slot_count += 1;\n                    tape.push(SsaOp::Output(o, i));\n                    tape.push(SsaOp::CopyImm(o, imm));", "let fresh = slot_count;\n                    slot_count += 1;\n                    tape.push(SsaOp::Output(fresh, i));\n                    tape.push(SsaOp::CopyImm(fresh, imm));", "SsaTape::new: rename the fresh slot of a constant output"),
    (SSA, "if matches!(\n                        op,\n                        BinaryOpcode::Min\n                            | BinaryOpcode::Max\n                            | BinaryOpcode::And\n                            | BinaryOpcode::Or\n                    ) {\n                        choice_count += 1;\n                    }", "match op {\n                        BinaryOpcode::Min\n                        | BinaryOpcode::Max\n                        | BinaryOpcode::And\n                        | BinaryOpcode::Or => choice_count += 1,\n                        _ => (),\n                    }", "SsaTape::new: matches! test -> match statement"),
    # ---- VmData::simplify -----------------------------------------------------
    (DATA, ("all", "new_index"), "new_out", "simplify: rename new_index everywhere"),
    (DATA, ("all", "choice_iter"), "choices_rev", "simplify: rename the choice iterator"),
    (DATA, ("all", 'Choice::Unknown => panic!("oh no"),'), 'Choice::Unknown => panic!("unknown choice in simplify"),', "simplify: reword the panic message"),
    (DATA, "Some(new_arg) => {\n                                op = SsaOp::CopyReg(new_index, new_arg);\n                            }", "Some(a) => op = SsaOp::CopyReg(new_index, a),", "simplify: unbrace and rename one Left arm"),
    (DATA, "if workspace.active(index).is_none() {\n                if op.has_choice() {\n                    choice_iter.next().unwrap();\n                }\n                continue;\n            }\n\n            // Because we reassign nodes when they're used as an *input*\n            // (while walking the tape in reverse), this node must have been\n            // assigned already.\n            let new_index = workspace.active(index).unwrap();", "let Some(new_index) = workspace.active(index) else {\n                if op.has_choice() {\n                    choice_iter.next().unwrap();\n                }\n                continue;\n            };", "simplify: is_none/unwrap -> let-else"),
    (DATA, "output_count += 1;\n                    continue;", "output_count += 1;\n                    // outputs are always kept\n                    continue;", "simplify: a comment"),
    (DATA, "*reg = workspace.get_or_insert_active(*reg);\n                    workspace.alloc.op(op);\n                    ops_out.push(op);\n                    output_count += 1;", "*reg = workspace.get_or_insert_active(*reg);\n                    output_count += 1;\n                    workspace.alloc.op(op);\n                    ops_out.push(op);", "simplify: move the output counter bump"),
]

GRAD = "fidget-core/src/types/grad.rs"
IVAL = "fidget-core/src/types/interval.rs"
CTX = "fidget-core/src/context/mod.rs"
TREE = "fidget-core/src/context/tree.rs"

BENIGN += [
    # ---- Grad ------------------------------------------------------------------
    (GRAD, "let r = (1.0 - self.v.powi(2)).sqrt();\n        Grad {\n            v: self.v.asin(),\n            dx: self.dx / r,\n            dy: self.dy / r,\n            dz: self.dz / r,", "let denom = (1.0 - self.v.powi(2)).sqrt();\n        Grad {\n            v: self.v.asin(),\n            dx: self.dx / denom,\n            dy: self.dy / denom,\n            dz: self.dz / denom,", "Grad::asin: rename the local"),
    (GRAD, "Grad {\n            v: self.v.ln(),\n            dx: self.dx / self.v,\n            dy: self.dy / self.v,\n            dz: self.dz / self.v,\n        }", "let v = self.v;\n        Grad {\n            v: v.ln(),\n            dx: self.dx / v,\n            dy: self.dy / v,\n            dz: self.dz / v,\n        }", "Grad::ln: name self.v"),
    (GRAD, "Self {\n            v: self.v * rhs.v,\n            dx: self.v * rhs.dx + rhs.v * self.dx,\n            dy: self.v * rhs.dy + rhs.v * self.dy,\n            dz: self.v * rhs.dz + rhs.v * self.dz,\n        }", "Self {\n            dx: self.v * rhs.dx + rhs.v * self.dx,\n            dy: self.v * rhs.dy + rhs.v * self.dy,\n            dz: self.v * rhs.dz + rhs.v * self.dz,\n            v: self.v * rhs.v,\n        }", "Grad * Grad: reorder struct-literal fields"),
    (GRAD, "pub fn min(self, rhs: Self) -> Self {\n        if self.v.is_nan() || rhs.v.is_nan() {\n            f32::NAN.into()\n        } else if self.v < rhs.v {\n            self\n        } else {\n            rhs\n        }", "pub fn min(self, rhs: Self) -> Self {\n        if self.v.is_nan() || rhs.v.is_nan() {\n            return f32::NAN.into();\n        }\n        if self.v < rhs.v { self } else { rhs }", "Grad::min: else-if chain -> early return"),
    (GRAD, "if self.v == 0.0 { *self } else { rhs }", "if self.v == 0.0 {\n            // short-circuit\n            *self\n        } else {\n            rhs\n        }", "Grad::and: comment and layout"),
    (GRAD, [("let e = self.v.div_euclid(rhs.v);", "let quot = self.v.div_euclid(rhs.v);"), ("dx: self.dx - rhs.dx * e,\n            dy: self.dy - rhs.dy * e,\n            dz: self.dz - rhs.dz * e,", "dx: self.dx - rhs.dx * quot,\n            dy: self.dy - rhs.dy * quot,\n            dz: self.dz - rhs.dz * quot,")], None, "Grad::rem_euclid: rename the quotient"),
    # ---- Interval -----------------------------------------------------------------
    (IVAL, ("nth", 0, "let choice = if self.upper < rhs.lower {\n            Choice::Left\n        } else if rhs.upper < self.lower {\n            Choice::Right\n        } else {\n            Choice::Both\n        };\n        (\n            Interval::new(self.lower.min(rhs.lower), self.upper.min(rhs.upper)),\n            choice,\n        )"), "let c = if self.upper < rhs.lower {\n            Choice::Left\n        } else if rhs.upper < self.lower {\n            Choice::Right\n        } else {\n            Choice::Both\n        };\n        let out = Interval::new(self.lower.min(rhs.lower), self.upper.min(rhs.upper));\n        (out, c)", "Interval::min_choice: rename choice, name the result"),
    # ---- Context ------------------------------------------------------------------
    (CTX, ("nth", 0, "if a == b {\n            Ok(a)\n        } else {\n            self.op_binary_commutative(a, b, BinaryOpcode::Min)\n        }"), "if a == b {\n            return Ok(a);\n        }\n        self.op_binary_commutative(a, b, BinaryOpcode::Min)", "Context::min: else -> early return"),
    (CTX, "let op_a = *self.get_op(a).ok_or(BadNode)?;\n        if let Op::Const(v) = op_a {\n            if v.0 == 0.0 { Ok(a) } else { Ok(b) }\n        } else {\n            self.op_binary(a, b, BinaryOpcode::And)\n        }", "let op_a = *self.get_op(a).ok_or(BadNode)?;\n        match op_a {\n            Op::Const(v) => {\n                if v.0 == 0.0 { Ok(a) } else { Ok(b) }\n            }\n            _ => self.op_binary(a, b, BinaryOpcode::And),\n        }", "Context::and: if let -> match"),
    (CTX, "let op_a = *self.get_op(a).ok_or(BadNode)?;\n        if let Op::Const(v) = op_a {\n            if v.0 == 0.0 { Ok(a) } else { Ok(b) }", "let lhs_op = *self.get_op(a).ok_or(BadNode)?;\n        if let Op::Const(c) = lhs_op {\n            if c.0 == 0.0 { Ok(a) } else { Ok(b) }", "Context::and: rename locals"),
    # ---- TreeOp eq -------------------------------------------------------------------
    (TREE, "(TreeOp::Input(a), TreeOp::Input(b)) => {\n                    if *a != *b {\n                        return false;\n                    }\n                }", "(TreeOp::Input(va), TreeOp::Input(vb)) => {\n                    if va != vb {\n                        return false;\n                    }\n                }", "TreeOp::eq: rename bindings, drop the derefs"),
    (TREE, "// Pointer equality lets us short-circuit deep checks\n            if std::ptr::eq(a, b) {\n                continue;\n            }", "// Same allocation: nothing to compare below this pair\n            if std::ptr::eq(a, b) {\n                continue;\n            }", "TreeOp::eq: reword a comment"),
]

LRU = "fidget-core/src/compiler/lru.rs"

BENIGN += [
    (LRU, "let node = self.data[i as usize];\n        self.data[node.prev as usize].next = self.data[i as usize].next;\n        self.data[node.next as usize].prev = self.data[i as usize].prev;", "let n = self.data[usize::from(i)];\n        self.data[usize::from(n.prev)].next = n.next;\n        self.data[usize::from(n.next)].prev = n.prev;", "Lru::remove: rename, usize::from, read the copied node"),
    (LRU, "self.data[prev as usize].next = i;\n        self.data[next as usize].prev = i;", "self.data[next as usize].prev = i;\n        self.data[prev as usize].next = i;", "Lru::insert_before: swap two writes that do not feed each other"),
    (LRU, "let prev_newest = self.head;\n        if prev_newest == i {\n            return;\n        } else if self.data[prev_newest as usize].prev != i {", "if self.head == i {\n            return;\n        }\n        if self.data[self.head as usize].prev != i {", "Lru::poke: inline the local, split the else-if"),
    (LRU, "let out = self.data[self.head as usize].prev;\n        self.head = out; // rotate\n        out", "let oldest = self.data[self.head as usize].prev;\n        self.head = oldest;\n        oldest", "Lru::pop: rename"),
]

BENIGN += [
    (SSA, ("all", "parent_count"), "n_parents", "SsaTape::new: rename parent_count"),
    (SSA, ("all", "todo"), "work", "SsaTape::new: rename the work list"),
    (SSA, "for child in op.iter_children() {\n                todo.push(child);\n                *parent_count.get_mut(&child).unwrap() -= 1;\n            }", "for child in op.iter_children() {\n                *parent_count.get_mut(&child).unwrap() -= 1;\n                todo.push(child);\n            }", "SsaTape::new pass 2: swap two independent statements"),
    (SSA, "let i = slot_count;\n                    slot_count += 1;\n                    mapping.insert(node, Slot::Reg(i))", "let slot = slot_count;\n                    slot_count += 1;\n                    mapping.insert(node, Slot::Reg(slot))", "SsaTape::new pass 1: rename the fresh slot"),
    (SSA, "if *parent_count.get(&node).unwrap_or(&0) > 0 || !seen.insert(node)\n            {\n                continue;\n            }", "if parent_count.get(&node).copied().unwrap_or(0) > 0 {\n                continue;\n            }\n            if !seen.insert(node) {\n                continue;\n            }", "SsaTape::new pass 2: split the gate, copied()"),
    # ---- script engine -----------------------------------------------------
    (
        "fidget-rhai/src/lib.rs",
        "    if ctx.scope().contains(name) {\n        Ok(None)\n    } else {\n        match name {",
        "    if ctx.scope().contains(name) {\n        return Ok(None);\n    }\n    {\n        match name {",
        "resolver: if / else -> early return",
    ),
    (
        "fidget-rhai/src/lib.rs",
        "    if ctx.scope().contains(name) {\n        Ok(None)\n    } else {\n        match name {\n            \"x\" =>",
        "    {\n        match name {\n            n if ctx.scope().contains(n) => Ok(None),\n            \"x\" =>",
        "resolver: scope test as the first guarded arm",
    ),
    # ---- WGSL shaders ------------------------------------------------------
    ("fidget-wgpu/src/shaders/interval_ops.wgsl", "    let ab = lhs.v * rhs.v;\n    let cd = lhs.v.yx * rhs.v;\n    return Value(vec2f(\n        min(min(ab[0], ab[1]), min(cd[0], cd[1])),\n        max(max(ab[0], ab[1]), max(cd[0], cd[1])),\n    ));\n}\n\nfn op_div", "    let cross = lhs.v.yx * rhs.v;\n    let same = lhs.v * rhs.v;\n    return Value(vec2f(\n        min(min(same.x, same.y), min(cross.x, cross.y)),\n        max(max(cross[0], cross[1]), max(same[0], same[1])),\n    ));\n}\n\nfn op_div", "WGSL op_mul: rename, reorder the lets, .x/.y for [0]/[1], commuted max"),
    ("fidget-wgpu/src/shaders/interval_ops.wgsl", "fn op_neg(lhs: Value) -> Value {\n    return Value(-lhs.v.yx);\n}", "fn op_neg(lhs: Value) -> Value {\n    // negation swaps the bounds\n    let flipped = lhs.v.yx;\n    return Value(vec2f(-flipped.x, -flipped.y));\n}", "WGSL op_neg: lanes written out"),
    ("fidget-wgpu/src/shaders/tape_interpreter.wgsl", "            case OP_COPY:    { tmp = lhs; }\n            case OP_NEG:     { tmp = op_neg(lhs); }", "            case OP_NEG:     { tmp = op_neg(lhs); }\n            case OP_COPY:    { tmp = lhs; }", "WGSL decoder: reorder two cases"),
    # ---- aarch64 assemblers (not compiled on this host; edits checked by reading) --------------------------
    ("fidget-jit/src/aarch64/point.rs", [
        (("nth", 0, "            ; ldrb w14, [x1]\n            ; fcmp S(reg(lhs_reg)), S(reg(rhs_reg))\n            ; b.mi 20 // -> RHS\n            ; b.gt 32 // -> LHS\n\n            // Equal or NaN; do the comparison to collapse NaNs\n            ; fmax S(reg(out_reg)), S(reg(lhs_reg)), S(reg(rhs_reg))\n            ; orr w14, w14, CHOICE_BOTH\n            ; b 32 // -> end\n\n            // RHS\n            ; fmov S(reg(out_reg)), S(reg(rhs_reg))\n            ; orr w14, w14, CHOICE_RIGHT\n            ; strb w14, [x2, 0] // write a non-zero value to simplify\n            ; b 16\n\n            // LHS\n            ; fmov S(reg(out_reg)), S(reg(lhs_reg))\n            ; orr w14, w14, CHOICE_LEFT\n            ; strb w14, [x2, 0] // write a non-zero value to simplify\n            // fall-through to end\n\n            // <- end\n            ; strb w14, [x1], 1 // post-increment"),
         "            ; ldrb w13, [x1]\n            ; fcmp S(reg(lhs_reg)), S(reg(rhs_reg))\n            ; b.mi 20 // -> RHS\n            ; b.gt 32 // -> LHS\n\n            // Equal or NaN; do the comparison to collapse NaNs\n            ; fmax S(reg(out_reg)), S(reg(lhs_reg)), S(reg(rhs_reg))\n            ; orr w13, w13, CHOICE_BOTH\n            ; b 32 // -> end\n\n            // RHS\n            ; fmov S(reg(out_reg)), S(reg(rhs_reg))\n            ; orr w13, w13, CHOICE_RIGHT\n            ; strb w13, [x2, 0] // write a non-zero value to simplify\n            ; b 16\n\n            // LHS\n            ; fmov S(reg(out_reg)), S(reg(lhs_reg))\n            ; orr w13, w13, CHOICE_LEFT\n            ; strb w13, [x2, 0] // write a non-zero value to simplify\n            // fall-through to end\n\n            // <- end\n            ; strb w13, [x1], 1 // post-increment"),
    ], None, "aarch64 point max: the choice byte lives in w13 instead of w14"),
    ("fidget-jit/src/aarch64/point.rs", ("nth", 0, "            ; ldrb w14, [x1]\n            ; fcmp S(reg(lhs_reg)), S(reg(rhs_reg))\n            ; b.mi 20 // -> RHS"), "            ; fcmp S(reg(lhs_reg)), S(reg(rhs_reg))\n            ; ldrb w14, [x1]\n            ; b.mi 20 // -> RHS", "aarch64 point max: load the choice byte after the compare (a load does not touch the flags)"),
    ("fidget-jit/src/aarch64/interval.rs", "            ; zip2 v4.s2, V(reg(lhs_reg)).s2, V(reg(rhs_reg)).s2\n            ; zip1 v5.s2, V(reg(rhs_reg)).s2, V(reg(lhs_reg)).s2\n\n            // v5 = [rhs.lower > lhs.upper, lhs.lower > rhs.upper]\n            ; fcmgt v5.s2, v5.s2, v4.s2\n            ; fmov x15, d5\n            ; ldrb w14, [x1]\n\n            ; tst x15, 0x1_0000_0000\n            ; b.ne 28 // -> rhs", "            ; zip2 v6.s2, V(reg(lhs_reg)).s2, V(reg(rhs_reg)).s2\n            ; zip1 v7.s2, V(reg(rhs_reg)).s2, V(reg(lhs_reg)).s2\n\n            // v7 = [rhs.lower > lhs.upper, lhs.lower > rhs.upper]\n            ; fcmgt v7.s2, v7.s2, v6.s2\n            ; fmov x15, d7\n            ; ldrb w14, [x1]\n\n            ; tst x15, 0x1_0000_0000\n            ; b.ne 28 // -> rhs", "aarch64 interval min: other scratch registers (v6 / v7)"),
    ("fidget-jit/src/aarch64/float_slice.rs", "        dynasm!(self.0.ops ; mov V(reg(out_reg)).b16, V(reg(lhs_reg)).b16)\n    }\n    fn build_neg", "        dynasm!(self.0.ops ; orr V(reg(out_reg)).b16, V(reg(lhs_reg)).b16, V(reg(lhs_reg)).b16)\n    }\n    fn build_neg", "aarch64 float-slice copy: `mov Vd, Vn` spelled as the `orr Vd, Vn, Vn` it is an alias of"),
    ("fidget-jit/src/aarch64/float_slice.rs", "            ; fmov s7, 1.0\n            ; dup v7.s4, v7.s[0]\n            ; fdiv V(reg(out_reg)).s4, v7.s4, V(reg(lhs_reg)).s4", "            ; fmov s6, 1.0\n            ; dup v6.s4, v6.s[0]\n            ; fdiv V(reg(out_reg)).s4, v6.s4, V(reg(lhs_reg)).s4", "aarch64 float-slice recip: the constant lives in v6"),
    ("fidget-jit/src/aarch64/interval.rs", [
        (("nth", 0, "            ; stp d16, d17, [sp, 0x50]\n            ; stp d18, d19, [sp, 0x60]"), "            ; stp d18, d19, [sp, 0x60]\n            ; stp d16, d17, [sp, 0x50]"),
        (("nth", 0, "            ; ldp d16, d17, [sp, 0x50]\n            ; ldp d18, d19, [sp, 0x60]"), "            ; ldp d18, d19, [sp, 0x60]\n            ; ldp d16, d17, [sp, 0x50]"),
    ], None, "aarch64 interval call_fn_unary: two independent saves / restores in the other order"),
    ("fidget-jit/src/aarch64/grad_slice.rs", ("nth", 0, "            ; mov x20, x0\n            ; mov x21, x1\n            ; mov x22, x2\n            ; mov x23, x3\n\n            // We use registers v8-v15"), "            ; mov x23, x3\n            ; mov x22, x2\n            ; mov x21, x1\n            ; mov x20, x0\n\n            // We use registers v8-v15", "aarch64 grad call_fn_unary: pointer backups in the other order"),
    ("fidget-jit/src/aarch64/grad_slice.rs", "            ; fcmp S(reg(lhs_reg)), 0.0\n            ; b.lt 12 // -> neg\n            // Happy path: v >= 0, so we just copy the register\n            ; mov V(reg(out_reg)).b16, V(reg(lhs_reg)).b16\n            ; b 8 // -> end\n            // neg:\n            ; fneg V(reg(out_reg)).s4, V(reg(lhs_reg)).s4", "            ; fcmp S(reg(lhs_reg)), 0.0\n            ; b.lt 16 // -> neg\n            // Happy path: v >= 0, so we just copy the register\n            ; nop\n            ; mov V(reg(out_reg)).b16, V(reg(lhs_reg)).b16\n            ; b 8 // -> end\n            // neg:\n            ; fneg V(reg(out_reg)).s4, V(reg(lhs_reg)).s4", "aarch64 grad abs: a nop inserted with the branch offset adjusted"),
    ("fidget-jit/src/aarch64/point.rs", "        dynasm!(self.0.ops ; fmov S(reg(out_reg)), S(reg(lhs_reg)))", "        dynasm!(self.0.ops ; mov V(reg(out_reg)).b8, V(reg(lhs_reg)).b8)", "aarch64 point copy moves eight bytes (the value is the low four)"),
]
