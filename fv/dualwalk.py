"""C08.R1: lattice-geometry check of the dual-contouring walk (fidget-mesh/src/dc.rs).

Every recursive `face::<F>(lo, hi)` / `edge::<F>(a, b, c, d)` call is placed on
an integer lattice of sub-cells: the cells a procedure receives sit at fixed
positions (one cell for dc_cell, two cells stacked along t for dc_face, four
cells around an edge for dc_edge) and `octree.child(cell, corner)` adds the
corner's bits.  The rule: for a call with frame (t', u', v')
  * face: hi = lo + 1 along t', same (u', v');
  * edge: all four cells share t', and lie at (p,q), (p+1,q), (p+1,q+1), (p,q+1)
    in the (u', v') plane, in that order (the convention dc_cell itself uses).
A swapped argument, a wrong axis or a wrong frame breaks the geometry (and with
it the winding / which cells meet at an edge).  Nothing is executed."""
import itertools

from . import ast as A

DC = "fidget-mesh/src/dc.rs"
FRAME = "fidget-mesh/src/frame.rs"


def frames(root=None):
    """XYZ -> ('X','Y','Z'), and Next of each frame, from frame.rs"""
    out = {}
    nxt = {}
    for imp in A.find_impls(FRAME, trait="Frame", root=root):
        name = imp["self_ty"].replace(" ", "")
        for it in imp["items"]:
            if it.get("k") == "Fn" and it["name"] == "frame":
                tail = A.strip(A.stmt_expr(it["body"]["stmts"][-1]))
                out[name] = tuple(A.ident(A.strip(e)) for e in tail["elems"])
            if it.get("k") == "TypeAlias" and it["name"] == "Next":
                nxt[name] = it["ty"].replace(" ", "")
    return out, nxt


class Bad(Exception):
    pass


def corner_bits(e, env):
    """corner expression -> frozenset of axis names whose bit is set"""
    e = A.strip(e)
    k = e.get("k")
    if k == "Binary" and e["op"] == "|":
        return corner_bits(e["left"], env) | corner_bits(e["right"], env)
    if k == "Binary" and e["op"] == "*":
        a = corner_bits(e["left"], env)
        b = A.ident(A.strip(e["right"]))
        if b in env and isinstance(env[b], bool):
            return a if env[b] else frozenset()
        raise Bad("multiplier %s" % A.unparse(e["right"]))
    if k == "Path" and len(e["segs"]) == 1:
        n = e["segs"][0]
        if n in env:
            v = env[n]
            if isinstance(v, frozenset):
                return v
            if isinstance(v, str):
                return frozenset([v])
        if n in ("X", "Y", "Z"):
            return frozenset([n])
        raise Bad("name %s" % n)
    if k == "MethodCall" and e["method"] == "into" and not e["args"]:
        return corner_bits(e["recv"], env)
    if k == "Call" and (A.path_segs(e["func"]) or [])[-2:] == ["Corner", "new"] and A.lit_value(e["args"][0]) == 0:
        return frozenset()
    raise Bad("corner expression %s" % A.unparse(e)[:40])


def cell_pos(e, env, bases):
    """`octree.child(cellvar, corner)` -> {axis: coordinate}"""
    e = A.strip(e)
    if not (e.get("k") == "MethodCall" and e["method"] == "child" and len(e["args"]) == 2):
        raise Bad("argument %s is not octree.child(..)" % A.unparse(e)[:40])
    cv = A.ident(A.strip(e["args"][0]))
    if cv not in bases:
        raise Bad("unknown cell %s" % cv)
    bits = corner_bits(e["args"][1], env)
    pos = dict(bases[cv])
    for ax in bits:
        pos[ax] = pos.get(ax, 0) + 1
    return pos


def frame_of(turbofish, tframe, fr, nxt):
    """`::<T>` / `::<T::Next>` / `::<<T::Next as Frame>::Next>` / `::<XYZ>` -> (t', u', v')"""
    s = (turbofish or "").replace(" ", "").lstrip(":")
    if s.startswith("<") and s.endswith(">"):
        s = s[1:-1]
    if s in fr:
        return fr[s]
    if tframe is None:
        raise Bad("frame %s" % s)
    t, u, v = tframe
    if s == "T":
        return (t, u, v)
    if s == "T::Next":
        return (u, v, t)
    if s == "<T::NextasFrame>::Next":
        return (v, t, u)
    raise Bad("frame %s" % s)


def _in_nested_fn(block):
    ids = set()
    for f in A.find(block, "Fn"):
        for n in A.walk(f):
            ids.add(id(n))
    return ids


def check_calls(rule, fn, block, env, bases, tframe, fr, nxt, label, seen):
    nested = _in_nested_fn(block) if block.get("k") != "Fn" else set()
    for c in A.find(block, "MethodCall"):
        if id(c) in nested:
            continue
        if A.ident(A.strip(c["recv"])) != "out" or c["method"] not in ("face", "edge", "cell"):
            continue
        try:
            if c["method"] == "cell":
                p = cell_pos(c["args"][1], env, bases)
                seen.setdefault("cell", set()).add(tuple(sorted(p.items())))
                continue
            F = frame_of(c.get("turbofish"), tframe, fr, nxt)
            tt, uu, vv = F
            cells = [cell_pos(a, env, bases) for a in c["args"][1:]]
            g = lambda p, ax: p.get(ax, 0)
            if c["method"] == "face":
                lo, hi = cells
                ok = g(hi, tt) == g(lo, tt) + 1 and g(hi, uu) == g(lo, uu) and g(hi, vv) == g(lo, vv)
                key = ("face", tt, tuple(sorted(lo.items())))
                if ok:
                    seen.setdefault("face", set()).add(key)
                    rule.ok("%s: face::<%s,%s,%s> hi = lo + 1 along %s at %s" % (label, tt, uu, vv, tt, sorted(lo.items())), file=DC, line=c["ln"])
                else:
                    rule.bad("%s|face|%s" % (label, c.get("turbofish", "").replace(" ", "")), "%s: `%s` pairs cells %s and %s; a face call in frame (%s,%s,%s) needs hi = lo + 1 along %s and equal %s, %s" % (label, A.unparse(c)[:60], sorted(lo.items()), sorted(hi.items()), tt, uu, vv, tt, uu, vv), A.where(fn, c))
            else:
                ts = {g(p, tt) for p in cells}
                uv = [(g(p, uu), g(p, vv)) for p in cells]
                p0, q0 = uv[0]
                want = [(p0, q0), (p0 + 1, q0), (p0 + 1, q0 + 1), (p0, q0 + 1)]
                if len(ts) == 1 and uv == want:
                    seen.setdefault("edge", set()).add((tt, ts.pop(), p0, q0))
                    rule.ok("%s: edge::<%s,%s,%s> cells at %s in (%s,%s)" % (label, tt, uu, vv, uv, uu, vv), file=DC, line=c["ln"])
                else:
                    rule.bad("%s|edge|%s" % (label, c.get("turbofish", "").replace(" ", "")), "%s: `%s..` passes cells at (%s,%s) = %s with %s in %s; an edge call in frame (%s,%s,%s) needs one %s and the four cells at (p,q),(p+1,q),(p+1,q+1),(p,q+1)" % (label, A.unparse(c)[:50], uu, vv, uv, tt, sorted(ts), tt, uu, vv, tt), A.where(fn, c))
        except Bad as e:
            rule.bad("%s|shape|%d" % (label, c["ln"] - fn["ln"]), "%s: call `%s` not understood (%s)" % (label, A.unparse(c)[:50], e), A.where(fn, c))


def expand_loops(block, env):
    """yield (sub-block, env) for the body with `for i in [false, true]` / `for c in [corners]` loops unrolled"""
    nested = _in_nested_fn(block)
    loops = [l for l in A.find(block, "For") if id(l) not in nested]
    top = []
    for l in loops:
        if not any(l is not o and any(n is l for n in A.walk(o["body"])) for o in loops):
            top.append(l)
    # statements outside loops
    yield ("outside", block, env, top)
    for l in top:
        it = A.strip(l["iter"])
        v = A.binding_name(l["pat"])
        if it.get("k") == "Array":
            for el in it["elems"]:
                e2 = dict(env)
                el_s = A.strip(el)
                if el_s.get("k") == "Lit" and el_s["ty"] == "bool":
                    e2[v] = el_s["v"] == "true"
                else:
                    e2[v] = corner_bits(el_s, env)
                yield ("loop", l["body"], e2, [])
        elif "Corner" in A.unparse(it) and "iter" in A.unparse(it):
            for bits in itertools.product((0, 1), repeat=3):
                e2 = dict(env)
                e2[v] = frozenset(ax for ax, b in zip(("X", "Y", "Z"), bits) if b)
                yield ("loop", l["body"], e2, [])
        else:
            raise Bad("loop over %s" % A.unparse(it)[:40])


def calls_outside(block, loops):
    """a copy of the block's statements with the given loops removed"""
    return {"k": "Block", "stmts": [s for s in block["stmts"] if not any(A.strip(A.stmt_expr(s) or {}) is l for l in loops)]}


def run_proc(rule, fn, tframe, bases, fr, nxt, label, body=None, env=None):
    seen = {}
    env = dict(env or {})
    body = body or fn["body"]
    # corner offsets named with `let` (`let xi = X * i;`) are read at their uses
    body = A.value_view(body)
    try:
        for kind, blk, e2, loops in expand_loops(body, env):
            b = calls_outside(blk, loops) if kind == "outside" else blk
            check_calls(rule, fn, b, e2, bases, tframe, fr, nxt, label, seen)
    except Bad as e:
        rule.bad("%s|loops" % label, "%s: %s" % (label, e), A.where(fn))
    return seen


def r1_dual_walk(rule, root=None):
    fr, nxt = frames(root)
    if set(fr) != {"XYZ", "YZX", "ZXY"}:
        rule.lost("Frame impls for XYZ, YZX, ZXY")
        return
    for name, axes in fr.items():
        if "".join(axes) == name and nxt.get(name) == name[1:] + name[0]:
            rule.ok("frame %s = (%s) with Next = %s (right-handed cyclic rotation)" % (name, ", ".join(axes), nxt[name]), file=FRAME)
        else:
            rule.bad("frame|%s" % name, "frame %s is %s with Next %s; the name spells the axes and Next is its left rotation" % (name, axes, nxt.get(name)), FRAME)
    # dc_cell: one cell at the origin
    fn = A.find_fn(DC, "dc_cell", root=root)
    ifs = [i for i in A.find(fn["body"], "If") if "Cell::Branch" in A.unparse(i["cond"])]
    if len(ifs) != 1:
        rule.lost("`if let Cell::Branch` in dc_cell")
        return
    body = ifs[0]["then"]
    bases = {"cell": {}}
    seen = run_proc(rule, fn, None, bases, fr, nxt, "dc_cell", body=body)
    # the nested generic helper dc_faces::<T>
    helpers = [s for s in body["stmts"] if s.get("k") == "Fn" and s["name"] == "dc_faces"]
    calls = [c for c in A.find(body, "Call") if (A.path_segs(c["func"]) or [])[-1:] == ["dc_faces"]]
    used = sorted((A.strip(c["func"]).get("s") or "").replace(" ", "").split("<")[-1].strip(">") for c in calls)
    if len(helpers) != 1 or used != ["XYZ", "YZX", "ZXY"]:
        rule.bad("dc_cell|faces", "dc_cell must call dc_faces for exactly the frames XYZ, YZX, ZXY (found %s)" % used, A.where(fn))
    else:
        h = helpers[0]
        h["_file"] = DC
        for F in used:
            t, u, v = fr[F]
            env = {"t": t, "u": u, "v": v}
            s2 = run_proc(rule, h, (t, u, v), {"cell": {}}, fr, nxt, "dc_cell/dc_faces<%s>" % F, env=env)
            for k, vals in s2.items():
                seen.setdefault(k, set()).update(vals)
    n_cell, n_face, n_edge = len(seen.get("cell", ())), len(seen.get("face", ())), len(seen.get("edge", ()))
    if (n_cell, n_face, n_edge) == (8, 12, 6):
        rule.ok("dc_cell visits all 8 children, all 12 interior faces and all 6 interior edges exactly once")
    else:
        rule.bad("dc_cell|coverage", "dc_cell visits %d children, %d distinct interior faces and %d distinct interior edges; a 2x2x2 cell has 8, 12 and 6" % (n_cell, n_face, n_edge), A.where(fn))
    # dc_face<T>(lo, hi): hi = lo + 2 along t
    fn = A.find_fn(DC, "dc_face", root=root)
    params = [A.binding_name(i["pat"]) for i in fn["sig"]["inputs"] if "pat" in i]
    lo, hi = params[1], params[2]
    T = ("t", "u", "v")
    env = {"t": "t", "u": "u", "v": "v"}
    seen = run_proc(rule, fn, T, {lo: {}, hi: {"t": 2}}, fr, nxt, "dc_face", env=env)
    if (len(seen.get("face", ())), len(seen.get("edge", ()))) == (4, 4):
        rule.ok("dc_face recurses into the 4 sub-faces and the 4 edges lying in the shared face")
    else:
        rule.bad("dc_face|coverage", "dc_face reaches %d sub-faces and %d edges; the shared face has 4 and 4" % (len(seen.get("face", ())), len(seen.get("edge", ()))), A.where(fn))
    for f in seen.get("face", ()):
        if dict(f[2]).get("t", 0) != 1:
            rule.bad("dc_face|plane", "a sub-face call does not straddle the shared face (lo child at t=%s)" % dict(f[2]).get("t", 0), A.where(fn))
    # dc_edge<T>(a, b, c, d): cells at (0,0), (2,0), (2,2), (0,2) in (u, v)
    fn = A.find_fn(DC, "dc_edge", root=root)
    params = [A.binding_name(i["pat"]) for i in fn["sig"]["inputs"] if "pat" in i]
    a, b, c, d = params[1:5]
    bases = {a: {}, b: {"u": 2}, c: {"u": 2, "v": 2}, d: {"v": 2}}
    ifs = [i for i in A.find(fn["body"], "If") if "is_leaf" in A.unparse(i["cond"])]
    els = ifs[0]["else"] if ifs else None
    if els is None:
        rule.lost("the recursive branch of dc_edge")
    else:
        seen = run_proc(rule, fn, T, bases, fr, nxt, "dc_edge", body=els, env=env)
        es = seen.get("edge", set())
        if len(es) == 2 and {e[1] for e in es} == {0, 1} and all((e[2], e[3]) == (1, 1) for e in es):
            rule.ok("dc_edge recurses into both halves of the shared edge, each with the four innermost sub-cells")
        else:
            rule.bad("dc_edge|coverage", "dc_edge's recursive calls are %s; it must visit t = 0 and t = 1 with the four sub-cells that touch the shared edge" % sorted(es), A.where(fn))
    # winding and per-leaf edge table in the leaf branch
    t = A.ftxt(fn["body"])
    need = [
        ("each cell's own copy of the shared edge", "letedges=[Edge::new((((t.index()*4)+3)asu8)),Edge::new((((t.index()*4)+2)asu8)),Edge::new((((t.index()*4)+0)asu8)),Edge::new((((t.index()*4)+1)asu8))];"),
        ("winding follows the sign at the start of the edge", "letwinding=ifstarting_sign{3}else{1};"),
        ("triangles fan around the edge skipping duplicate cells", "forjin0..4{if(cs[j].index!=cs[((j+winding)%4)].index){out.triangle(vs[j],vs[((j+winding)%4)],i)}}"),
        ("no sign change, no geometry", "if(start==end){return;}"),
        ("cells are taken in argument order", "letcs=[%s,%s,%s,%s];" % (a, b, c, d)),
    ]
    for what, frag in need:
        if frag in t:
            rule.ok("dc_edge leaf case: %s" % what, file=DC, line=fn["ln"])
        else:
            rule.bad("dc_edge|leaf|%s" % what[:20], "dc_edge leaf case: %s (`%s` not found)" % (what, frag[:50]), A.where(fn))
