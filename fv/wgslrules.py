"""Rules over the WGSL shaders (fidget-wgpu/src/shaders): the interval operations (C03) and the bytecode
decoder (C15).  Both work on the lane summaries / syntax tree of fv/wgsl.py."""
import math
import re

from . import ast as A
from . import opcodes as O
from . import wgsl as W

IOPS = "fidget-wgpu/src/shaders/interval_ops.wgsl"
TAPE = "fidget-wgpu/src/shaders/tape_interpreter.wgsl"


def _norm(c):
    while c.startswith("!!"):
        c = c[2:]
    return c


def _paths(rule, d, name):
    fn = d.get(name)
    if fn is None:
        rule.lost("WGSL interval operation %s" % name)
        return None, None
    try:
        ps = W.op_paths(fn)
    except W.Untranslatable as e:
        rule.bad("wgsl|%s|shape" % name, "%s: not a lane-wise interval computation the checker can read (%s)" % (name, e), "%s:%d" % (IOPS, fn["ln"]))
        return None, fn
    return [([_norm(c) for c in cs], r, p) for cs, r, p in ps], fn


def _where(fn):
    return "%s:%d" % (IOPS, fn["ln"])


def r_interval_ops(rule, root=None):
    """each GPU interval operation is an enclosure: monotone operations take each bound from the operand bound
    their direction dictates (inside their domain, NaN outside), products and quotients range over all four
    corner combinations (quotients only when the divisor excludes zero), min / max / and / or return an
    operand whole exactly when it is decided by strict separation"""
    d = W.load(IOPS, root)

    def mono(name, f, increasing, guard=None, unary_form=None):
        ps, fn = _paths(rule, d, name)
        if ps is None:
            return
        fa, fb = (unary_form or (lambda x: "%s(%s)" % (f, x)))("a"), (unary_form or (lambda x: "%s(%s)" % (f, x)))("b")
        want = (fa, fb) if increasing else (fb, fa)
        seen = False
        for conds, r, _p in ps:
            if r == W.NAN:
                continue
            if r == want:
                seen = True
                if guard and not any(g in conds for g in guard):
                    rule.bad("wgsl|%s|domain" % name, "%s returns [%s, %s] under %s; outside its domain (%s) the result must be the NaN interval" % (name, r[0], r[1], conds, " or ".join(guard)), _where(fn))
                    return
            elif r == (fa, fa) and "(a==b)" in conds:
                continue  # a degenerate box
            else:
                rule.bad("wgsl|%s|bounds" % name, "%s is %s, so its result must be [%s, %s]; one path returns %s" % (name, "increasing" if increasing else "decreasing", want[0], want[1], r), _where(fn))
                return
        if seen:
            rule.ok("WGSL %s (%s): [%s, %s]%s" % (name, "increasing" if increasing else "decreasing", want[0], want[1], (" inside " + guard[0]) if guard else ""), file=IOPS, line=fn["ln"])
        else:
            rule.bad("wgsl|%s|bounds" % name, "%s never returns [%s, %s]" % (name, want[0], want[1]), _where(fn))

    mono("op_neg", None, False, unary_form=lambda x: "(-%s)" % x)
    mono("op_recip", None, False, guard=["((a>0.0)||(b<0.0))", "((b<0.0)||(a>0.0))"], unary_form=lambda x: "(1.0/%s)" % x)
    mono("op_sqrt", "sqrt", True, guard=["(a>=0.0)", "!(a<0.0)"])
    mono("op_floor", "floor", True)
    mono("op_ceil", "ceil", True)
    mono("op_round", "round", True)
    mono("op_exp", "exp", True)
    mono("op_log", "log", True, guard=["!(a<0.0)", "(a>=0.0)"])
    mono("op_atan", "atan", True)
    mono("op_asin", "asin", True, guard=["!((a<(-1.0))||(b>1.0))"])
    mono("op_acos", "acos", False, guard=["!((a<(-1.0))||(b>1.0))"])
    mono("op_tan", "tan", True)

    # add / sub
    for name, want in (("op_add", ("(a+c)", "(b+d)")), ("op_sub", ("(a-d)", "(b-c)"))):
        ps, fn = _paths(rule, d, name)
        if ps is None:
            continue
        rs = [r for _c, r, _p in ps if r != W.NAN]
        if rs and all(r == want for r in rs):
            rule.ok("WGSL %s: [%s, %s]" % (name, want[0], want[1]), file=IOPS, line=fn["ln"])
        else:
            rule.bad("wgsl|%s|bounds" % name, "%s must be [%s, %s]; found %s" % (name, want[0], want[1], rs), _where(fn))

    # mul / div: all four corner combinations
    def leaves(expr, f):
        """operands of a nest of f(.., ..) calls"""
        m = re.fullmatch(r"%s\((.*)\)" % f, expr)
        if not m:
            return [expr]
        inner = m.group(1)
        depth = 0
        for i, ch in enumerate(inner):
            if ch == "(":
                depth += 1
            elif ch == ")":
                depth -= 1
            elif ch == "," and depth == 0:
                return leaves(inner[:i], f) + leaves(inner[i + 1:], f)
        return [expr]

    for name, op, need_guard in (("op_mul", "*", ("has_nan(lhs)", "has_nan(rhs)")), ("op_div", "/", ("has_nan(lhs)", "contains_i(rhs,0.0)"))):
        ps, fn = _paths(rule, d, name)
        if ps is None:
            continue
        corners = {W._bin(op, x, y) for x in "ab" for y in "cd"}
        ok = True
        for conds, r, _p in ps:
            if r == W.NAN:
                continue
            if not isinstance(r, tuple):
                ok = False
                rule.bad("wgsl|%s|bounds" % name, "%s returns an operand whole" % name, _where(fn))
                continue
            lo, hi = set(leaves(r[0], "min")), set(leaves(r[1], "max"))
            if lo != corners or hi != corners:
                ok = False
                rule.bad("wgsl|%s|corners" % name, "%s takes its bounds over %s / %s; an interval %s ranges over all four corner combinations %s (two intervals of mixed sign attain their extremes at the cross terms)" % (name, sorted(lo), sorted(hi), "product" if op == "*" else "quotient", sorted(corners)), _where(fn))
            guard_terms = set()
            for c in conds:
                if c.startswith("!"):
                    inner = c[1:]
                    if inner.startswith("(") and inner.endswith(")") and A._balanced(inner[1:-1]):
                        inner = inner[1:-1]
                    guard_terms |= set(inner.split("||"))
            missing = [g for g in need_guard if g not in guard_terms]
            if missing:
                ok = False
                rule.bad("wgsl|%s|guard" % name, "%s computes its corner %s although %s was not excluded: %s" % (name, "products" if op == "*" else "quotients", " / ".join(missing), "a divisor interval containing zero makes the quotient unbounded, so the result must be the NaN interval" if op == "/" else "NaN operands must give the NaN interval"), _where(fn))
        if ok:
            rule.ok("WGSL %s: min / max over the four corner %s, NaN interval when %s" % (name, "products" if op == "*" else "quotients", " or ".join(need_guard)), file=IOPS, line=fn["ln"])

    # min / max: an operand is returned whole only under strict separation, and the choice pushed says which
    for name, f, left_c, right_c in (("op_min", "min", "(b<c)", "(d<a)"), ("op_max", "max", "(a>d)", "(c>b)")):
        ps, fn = _paths(rule, d, name)
        if ps is None:
            continue
        ok = True
        for conds, r, pushes in ps:
            if r == W.NAN:
                want_push = ["CHOICE_BOTH"]
                good = True
            elif r == "lhs":
                want_push = ["CHOICE_LEFT"]
                good = left_c in conds
            elif r == "rhs":
                want_push = ["CHOICE_RIGHT"]
                good = right_c in conds
            else:
                want_push = ["CHOICE_BOTH"]
                good = r == ("%s(a,c)" % f, "%s(b,d)" % f) and ("!" + left_c) in conds and ("!" + right_c) in conds
            if not good or pushes != want_push:
                ok = False
                rule.bad("wgsl|%s|choice" % name, "%s: under %s it returns %s and records %s; an operand may be returned whole only when strictly separated (%s -> lhs / Left, %s -> rhs / Right), otherwise [%s(a,c), %s(b,d)] with Both" % (name, conds, r, pushes, left_c, right_c, f, f), _where(fn))
        if ok and ps:
            rule.ok("WGSL %s: Left under %s, Right under %s, else the lane-wise %s with Both" % (name, left_c, right_c, f), file=IOPS, line=fn["ln"])

    # abs / square: piecewise by the sign of the bounds
    ps, fn = _paths(rule, d, "op_abs")
    if ps is not None:
        want = {("(a<0.0)", "(b>0.0)"): ("0.0", "max((-a),b)"), ("(a<0.0)", "!(b>0.0)"): ("(-b)", "(-a)"), ("!(a<0.0)",): "lhs"}
        got = {tuple(c): r for c, r, _p in ps}
        if got == want:
            rule.ok("WGSL op_abs: straddling -> [0, max(-lo, hi)], negative -> [-hi, -lo], else unchanged", file=IOPS, line=fn["ln"])
        else:
            rule.bad("wgsl|op_abs", "op_abs must be [0, max(-lo, hi)] when lo < 0 < hi, [-hi, -lo] when hi <= 0, the operand otherwise; found %s" % got, _where(fn))
    ps, fn = _paths(rule, d, "op_square")
    if ps is not None:
        m = "max(abs(a),abs(b))"
        ok = True
        for conds, r, _p in ps:
            if r == W.NAN:
                ok = ok and "has_nan(lhs)" in conds
            elif r == ("(b*b)", "(a*a)"):
                ok = ok and "(b<0.0)" in conds
            elif r == ("(a*a)", "(b*b)"):
                ok = ok and "(a>0.0)" in conds
            elif r == ("0.0", "(%s*%s)" % (m, m)):
                ok = ok and "!(b<0.0)" in conds and "!(a>0.0)" in conds
            else:
                ok = False
        if ok and len(ps) >= 3:
            rule.ok("WGSL op_square: [hi^2, lo^2] below zero, [lo^2, hi^2] above, [0, max|.|^2] across", file=IOPS, line=fn["ln"])
        else:
            rule.bad("wgsl|op_square", "op_square must be [hi*hi, lo*lo] for hi < 0, [lo*lo, hi*hi] for lo > 0 and [0, max(|lo|,|hi|)^2] across zero; found %s" % [(c, r) for c, r, _p in ps], _where(fn))

    # and / or: decided only by an operand that is exactly zero or excludes zero
    for name, zero_res, zero_push, nz_res, nz_push, both in (
        ("op_and", ("0.0", "0.0"), "CHOICE_LEFT", "rhs", "CHOICE_RIGHT", ("min(0.0,c)", "max(0.0,d)")),
        ("op_or", "rhs", "CHOICE_RIGHT", "lhs", "CHOICE_LEFT", ("min(a,c)", "max(b,d)")),
    ):
        ps, fn = _paths(rule, d, name)
        if ps is None:
            continue
        ok = True
        for conds, r, pushes in ps:
            is_zero = "((a==0.0)&&(b==0.0))" in conds
            excl = "!contains_i(lhs,0.0)" in conds
            if r == W.NAN:
                good = pushes == ["CHOICE_BOTH"]
            elif pushes == [zero_push]:
                good = is_zero and (r == zero_res or (name == "op_and" and r == "lhs"))
            elif pushes == [nz_push]:
                good = excl and r == nz_res
            else:
                good = pushes == ["CHOICE_BOTH"] and r == both and not is_zero and not excl
            if not good:
                ok = False
                rule.bad("wgsl|%s|choice" % name, "%s: under %s it returns %s and records %s; the choice is decided only by an lhs that is exactly zero or excludes zero" % (name, conds, r, pushes), _where(fn))
        if ok and ps:
            rule.ok("WGSL %s: decided only by an lhs that is exactly zero / excludes zero, else the hull with Both" % name, file=IOPS, line=fn["ln"])

    # compare: the exact answer 0 only for two equal single values; -1 / +1 only under strict separation
    ps, fn = _paths(rule, d, "op_compare")
    if ps is not None:
        ok = True
        for conds, r, _p in ps:
            if r == W.NAN:
                continue
            if r == ("(-1.0)", "(-1.0)"):
                good = "(b<c)" in conds
            elif r == ("1.0", "1.0"):
                good = "(a>d)" in conds
            elif r == ("0.0", "0.0"):
                # all four bounds forced equal by the (positive) conditions on this path
                parent = {x: x for x in "abcd"}

                def find(x):
                    while parent[x] != x:
                        x = parent[x]
                    return x

                for c in conds:
                    if c.startswith("!"):
                        continue
                    for m in re.finditer(r"\(([abcd])==([abcd])\)", c):
                        if "||" not in c:
                            parent[find(m.group(1))] = find(m.group(2))
                good = len({find(x) for x in "abcd"}) == 1
            else:
                good = r == ("(-1.0)", "1.0")
            if not good:
                ok = False
                rule.bad("wgsl|op_compare", "op_compare returns %s under %s; -1 needs lhs.hi < rhs.lo, +1 needs lhs.lo > rhs.hi, exactly 0 needs two equal single values (two equal *intervals* still compare every way), anything else is [-1, 1]" % (r, conds), _where(fn))
        if ok and ps:
            rule.ok("WGSL op_compare: -1 / +1 under strict separation, 0 for equal single values, else [-1, 1]", file=IOPS, line=fn["ln"])
    # mod: the bound of the general case covers both ends of the divisor
    ps, fn = _paths(rule, d, "op_mod")
    if ps is not None:
        ok = True
        const_div = "((c==d)&&(c>0.0))"
        for conds, r, _p in ps:
            if r == W.NAN:
                continue
            if r == ("0.0", "max(abs(c),abs(d))"):
                good = True
            elif r in (("0.0", "abs(c)"), ("0.0", "abs(d)"), ("0.0", "c"), ("0.0", "d")):
                good = const_div in conds
            elif r == ("rem_euclid(a,c)", "rem_euclid(b,c)"):
                good = const_div in conds and any("floor((a/c))==floor((b/c))" in c and not c.startswith("!") for c in conds)
            else:
                good = False
            if not good:
                ok = False
                rule.bad("wgsl|op_mod", "op_mod returns %s under %s; with a divisor that is not one positive constant the result is only known to lie in [0, max(|lo|, |hi|)] of the divisor" % (r, conds), _where(fn))
        if ok and ps:
            rule.ok("WGSL op_mod: [0, max|divisor|] in general, the two remainders only within one period of a constant positive divisor", file=IOPS, line=fn["ln"])

    # constant enclosures
    for name in ("op_sin", "op_cos"):
        ps, fn = _paths(rule, d, name)
        if ps is None:
            continue
        f = name[3:]
        bad = [(c, r) for c, r, _p in ps if r != W.NAN and r != ("(-1.0)", "1.0") and not (r == ("%s(a)" % f, "%s(a)" % f) and "(a==b)" in c)]
        if bad:
            rule.bad("wgsl|%s" % name, "%s returns %s; without a quadrant analysis only [-1, 1] (or the point value of a degenerate box) is an enclosure" % (name, bad[0][1]), _where(fn))
        else:
            rule.ok("WGSL %s: [-1, 1] (point value for a degenerate box)" % name, file=IOPS, line=fn["ln"])
    ps, fn = _paths(rule, d, "op_atan2")
    if ps is not None:
        okc = True
        for c, r, _p in ps:
            if r == W.NAN:
                continue
            try:
                okc = okc and isinstance(r, tuple) and float(r[0].strip("()")) <= -math.pi and float(r[1].strip("()")) >= math.pi
            except ValueError:
                okc = False
        if okc:
            rule.ok("WGSL op_atan2: the whole range [-pi, pi]", file=IOPS, line=fn["ln"])
        else:
            rule.bad("wgsl|op_atan2", "op_atan2 must return an interval that contains [-pi, pi]; found %s" % [r for _c, r, _p in ps], _where(fn))


# ---------------------------------------------------------------------------
# the bytecode decoder


def _snake(name):
    return re.sub(r"(?<!^)(?=[A-Z])", "_", name).lower()


def _shouty(name):
    return _snake(name).upper()


def r_decoder(rule, root=None):
    """the shader that runs serialized bytecode reads it the way the encoder writes it: opcode in byte 0,
    output register in byte 1, operands in bytes 2 and 3 with 255 meaning "the immediate word", every
    opcode dispatched to its namesake operation with its operands in order, and the framing markers"""
    d = W.load(TAPE, root)
    fn = d.get("run_tape")
    if fn is None:
        rule.lost("run_tape in %s" % TAPE)
        return
    where = "%s:%d" % (TAPE, fn["ln"])
    body = fn["body"]
    lets = {s["pat"]["name"]: A.unparse(s["init"]).replace(" ", "") for s in A.find(body, "Let") if s.get("init") is not None}
    opv = next((n for n, t in lets.items() if t.startswith("unpack4xU8(")), None)
    if opv is None:
        rule.lost("`let op = unpack4xU8(word.op)` in run_tape")
        return
    word = re.fullmatch(r"unpack4xU8\((\w+)\.op\)", lets[opv])
    wv = word.group(1) if word else "?"
    facts = []
    # operand bytes and the immediate flag
    by_byte = {n: int(t[len(opv) + 1:-1]) for n, t in lets.items() if re.fullmatch(re.escape(opv) + r"\[\d\]", t)}

    def nb(text):
        """a name for one byte of the op word reads as that byte"""
        for n_, b_ in by_byte.items():
            text = re.sub(r"(?<![\w.])%s(?![\w(])" % re.escape(n_), "%s[%d]" % (opv, b_), text)
        return text

    loads = {}
    for i in A.find(body, "If"):
        c = nb(A.unparse(i["cond"]).replace(" ", "").strip("()"))
        m = re.fullmatch(re.escape(opv) + r"\[(\d)\](==|!=)(255|0xFFu?|255u)", c)
        if not m or i.get("else") is None:
            continue
        th = [nb(A.unparse(s["e"]).replace(" ", "")) for s in i["then"]["stmts"] if s.get("k") == "ExprStmt"]
        el = [nb(A.unparse(s["e"]).replace(" ", "")) for s in i["else"]["stmts"] if s.get("k") == "ExprStmt"] if i["else"].get("k") == "Block" else []
        if m.group(2) == "!=":
            th, el = el, th
        mt = re.fullmatch(r"(\w+)=(\w+)", th[0]) if len(th) == 1 else None
        me = re.fullmatch(r"(\w+)=reg\[%s\[(\d)\]\]" % re.escape(opv), el[0]) if len(el) == 1 else None
        if mt and me and mt.group(1) == me.group(1) and me.group(2) == m.group(1):
            loads[mt.group(1)] = (int(m.group(1)), mt.group(2))
    imm_ok = {v for v, t in lets.items() if re.fullmatch(r"build_imm\(bitcast<f32>\((%s\.imm|\w+)\)\)" % re.escape(wv), t) and (("%s.imm" % wv) in t or lets.get(re.fullmatch(r"build_imm\(bitcast<f32>\((.+)\)\)", t).group(1)) == "%s.imm" % wv)}
    facts.append(("the first operand is byte 2 and the second byte 3, each replaced by the immediate word when the byte is 255",
                  loads.get("lhs", (None,))[0] == 2 and loads.get("rhs", (None,))[0] == 3 and loads["lhs"][1] in imm_ok and loads["rhs"][1] in imm_ok))
    sw = [s for s in A.find(body, "Switch")]
    facts.append(("the opcode is byte 0", len(sw) == 1 and A.unparse(sw[0]["e"]).replace(" ", "") == "%s[0]" % opv))
    writes = [nb(A.unparse(a["left"]).replace(" ", "")) for a in A.find(body, "Assign") if A.unparse(a["left"]).replace(" ", "").startswith("reg[")]
    facts.append(("the result is written to the register in byte 1", writes == ["reg[%s[1]]" % opv]))
    for what, ok in facts:
        if ok:
            rule.ok("decoder: %s" % what, file=TAPE, line=fn["ln"])
        else:
            rule.bad("decoder|%s" % what[:32], "run_tape: %s - not what the shader does (the encoder writes [opcode, out, lhs, rhs] + immediate word)" % what, where)
    if len(sw) != 1:
        return
    # dispatch table
    cases = {}
    for c in sw[0]["cases"]:
        for sel in c["sel"] or []:
            cases[A.unparse(sel).replace(" ", "")] = c
    SPECIAL = {"Jump", "Mem", "Input", "Output"}
    RENAME = {"Ln": "log"}
    try:
        variants = O.enum_variants("fidget-bytecode/src/lib.rs", "BytecodeOp", root)
    except Exception:  # noqa: BLE001
        variants = []
    if len(variants) < 30:
        rule.lost("the BytecodeOp variants (found %d)" % len(variants))
        return
    choice = {"Min", "Max", "And", "Or"}
    # arity from the register-op table: an opcode with a RegReg form is binary
    reg = [v for v, _p in O.reg_variants(root)]
    binary = {v[: -len("RegReg")] for v in reg if v.endswith("RegReg")}
    binary = {"Atan2" if b == "Atan" else b for b in binary} | {"Atan2"}
    for v in variants:
        key = "OP_" + _shouty(v)
        c = cases.get(key)
        if v in SPECIAL:
            if c is None:
                rule.bad("decoder|case|%s" % v, "run_tape has no case for %s" % key, where)
            continue
        if c is None:
            rule.bad("decoder|case|%s" % v, "run_tape has no case for %s: such an op falls into `default` and ends the tape" % key, where)
            continue
        st = [A.unparse(s["e"]).replace(" ", "") for s in c["body"]["stmts"] if s.get("k") == "ExprStmt"]
        if v == "Copy":
            want = ["tmp=lhs"]
        else:
            f = "op_" + RENAME.get(v, _snake(v))
            args = "lhs" + (",rhs" if v in binary else "") + (",stack" if v in choice else "")
            want = ["tmp=%s(%s)" % (f, args)]
        if st == want:
            rule.ok("decoder: %s -> %s" % (key, want[0]), file=TAPE, line=c["ln"])
        else:
            rule.bad("decoder|dispatch|%s" % v, "case %s does `%s`; the opcode means `%s` (namesake operation, first operand then second)" % (key, "; ".join(st), want[0]), "%s:%d" % (TAPE, c["ln"]))
    # framing: the jump opcode with the end / start markers
    j = cases.get("OP_JUMP")
    jt = A.unparse(j["body"]).replace(" ", "") if j else ""
    if j and re.search(r"if\(?\w+==0xFFFFFFFFu?\)?\{.*?return\w*;", jt) and re.search(r"elseif\(?\w+==0u?\)?\{(?:[^{}]*)continue;", jt):
        rule.ok("decoder: jump word 0xFFFFFFFF ends the tape, 0 starts it", file=TAPE, line=j["ln"])
    else:
        rule.bad("decoder|framing", "the OP_JUMP case must stop at immediate 0xFFFFFFFF and carry on at 0 (the encoder's start / end markers)", where)
    # any other immediate is the index of the word to continue at: the loop variable takes it as it is
    mj = re.search(r"else\{(?:[^{}]*?)(\w+)=([^;]+);continue;\}", jt) if j else None
    imm_name = re.search(r"if\(?(\w+)==0xFFFFFFFFu?", jt)
    if mj and imm_name and mj.group(2).strip("()") in (imm_name.group(1), "u32(%s)" % imm_name.group(1)):
        rule.ok("decoder: any other jump word continues at exactly the word it names", file=TAPE, line=j["ln"])
    elif mj and imm_name:
        rule.bad("decoder|jump-target", "a mid-tape jump continues at `%s`; the link word holds the index of the next word to read, so it must be `%s` itself (an offset skips or repeats an instruction after every chunk link)" % (mj.group(2), imm_name.group(1)), where)
    else:
        rule.skip("decoder mid-tape jump", "the OP_JUMP case has no final `else { i = <immediate>; continue; }`", count=True)
    consts = {it["name"]: A.unparse(it["e"]).replace(" ", "") for it in d["_items"] if it.get("k") == "Const" and it.get("e") is not None}
    if consts.get("OP_JUMP") in ("0xFF", "255", "0xFFu", "255u"):
        rule.ok("decoder: OP_JUMP is the reserved opcode 0xFF", file=TAPE, line=1)
    else:
        rule.bad("decoder|jump-op", "OP_JUMP must be 0xFF (the marker words are u32::MAX, whose low byte is the opcode)", where)
    # the host tells the shader which input slot each axis occupies; an axis the tape does not use must be a value no
    # slot can equal (the shader compares every Input's slot with all three)
    try:
        rs = A.find_fn("fidget-wgpu/src/lib.rs", "new", self_ty="RenderShape", root=root)
    except Exception:  # noqa: BLE001
        rs = None
    if rs is None:
        rule.skip("RenderShape::new axes table", "function not found", count=True)
    else:
        ax = [l_ for l_ in A.find(rs["body"], "Let") if A.binding_name(l_["pat"]) == "axes" and l_.get("init") is not None]
        t_ = A.unparse(ax[0]["init"]).replace(" ", "") if ax else ""
        if not ax or "Var::X" not in t_:
            rule.skip("RenderShape::new axes table", "no `let axes = [Var::X, Var::Y, Var::Z]..`", count=True)
        else:
            dflt = re.findall(r"\.(unwrap_or|map_or)\(([^,)]+)", t_) + [("unwrap_or_default", "0")] * t_.count("unwrap_or_default()") + [("unwrap_or_else", m_) for m_ in re.findall(r"unwrap_or_else\(\|\|([^)]+)\)", t_)]
            vals = {v_ for _k, v_ in dflt}
            if vals and vals <= {"u32::MAX", "u32::MAXasu32", "!0u32", "0xFFFFFFFF", "0xFFFF_FFFF", "usize::MAXasu32"}:
                rule.ok("host: an axis the tape does not use is reported as u32::MAX, which no input slot equals", file="fidget-wgpu/src/lib.rs", line=ax[0]["ln"])
            elif vals:
                rule.bad("decoder|axes|absent", "RenderShape::new reports an axis the tape does not use as `%s`; that is a real input slot, so the shader feeds that axis' coordinate to whatever variable lives there (use a value no slot can equal: u32::MAX)" % sorted(vals)[0], "fidget-wgpu/src/lib.rs:%d" % ax[0]["ln"])
            else:
                rule.skip("RenderShape::new axes table", "the value for an absent axis is not a plain default", count=True)
    o = cases.get("OP_OUTPUT")
    ot = nb(A.unparse(o["body"]).replace(" ", "")) if o else ""
    if "out.value=reg[%s[1]]" % opv in ot:
        rule.ok("decoder: Output reads the register in byte 1", file=TAPE, line=o["ln"])
    else:
        rule.bad("decoder|output", "the OP_OUTPUT case must read the register named by byte 1", where)
    # cases that produce no value must not reach the shared `reg[out] = tmp` after the switch
    def leaves(block):
        st = block["stmts"]
        if not st:
            return [None]
        last = st[-1]["e"] if st[-1].get("k") == "ExprStmt" else st[-1]
        if last.get("k") == "If":
            out_ = leaves(last["then"])
            el = last.get("else")
            if el is None:
                out_.append(None)
            elif el.get("k") == "If":
                out_ += leaves({"stmts": [{"k": "ExprStmt", "e": el}]})
            else:
                out_ += leaves(el)
            return out_
        return [last.get("k")]

    for key in ("OP_OUTPUT", "OP_JUMP", "OP_MEM"):
        c = cases.get(key)
        if c is None:
            continue
        ends = leaves(c["body"])
        if all(k_ in ("Continue", "Return", "Break") for k_ in ends):
            rule.ok("decoder: %s never falls through to the register write" % key, file=TAPE, line=c["ln"])
        else:
            rule.bad("decoder|fallthrough|%s" % key, "the %s case can fall out of the switch, where `reg[byte 1] = tmp` overwrites a register with a value this op never computed (an Output only reads its register)" % key, "%s:%d" % (TAPE, c["ln"]))
    # Input: axes by their slot, anything else from the variable buffer at the slot the immediate names
    ci = cases.get("OP_INPUT")
    it = A.unparse(ci["body"]).replace(" ", "") if ci else ""
    immv = next((n for n, t_ in lets.items() if t_ == "%s.imm" % wv), None)
    good_in = bool(ci and immv) and all(re.search(r"\(?%s==config\.axes\.%s\)?\{tmp=xyz\[%du?\];?\}" % (immv, ax, k_), it) for k_, ax in enumerate("xyz")) and "tmp=build_imm(var_values[%s])" % immv in it
    if good_in:
        rule.ok("decoder: Input takes x / y / z by their own slot and any other variable from var_values[slot]", file=TAPE, line=ci["ln"])
    else:
        rule.bad("decoder|input", "the OP_INPUT case must map the slot in the immediate word to xyz[0..2] for the three axes and to var_values[slot] (the same slot, unshifted) otherwise", where)


def r_predicates(rule, root=None):
    """the predicates the interval operations guard with mean what the CPU's do: `contains_i(i, v)` is
    lower <= v <= upper with both ends included (Interval::contains), `has_nan(i)` looks at both bounds.
    A strict `contains_i` stops treating [0, k] as containing zero: not / and / or and the zero guard of
    division then decide (or divide) where the CPU evaluators do not."""
    d = W.load(IOPS, root)

    def comps(e, out):
        e_ = e
        while isinstance(e_, dict) and e_.get("k") == "Paren":
            e_ = e_["e"]
        if isinstance(e_, dict) and e_.get("k") == "Binary" and e_["op"] in ("&&", "||"):
            out.append(e_["op"])
            comps(e_["left"], out)
            comps(e_["right"], out)
        else:
            out.append(e_)

    fn = d.get("contains_i")
    if fn is None:
        rule.lost("WGSL contains_i")
    else:
        rets = [s_ for s_ in A.find(fn["body"], "Return")]
        ok = False
        why = "its body is not a single conjunction of two comparisons"
        if len(rets) == 1 and rets[0].get("e") is not None:
            parts = []
            comps(rets[0]["e"], parts)
            ops = [p for p in parts if isinstance(p, str)]
            cmps = [p for p in parts if not isinstance(p, str)]
            if ops == ["&&"] and len(cmps) == 2 and all(c.get("k") == "Binary" for c in cmps):
                canon = set()
                for c in cmps:
                    l_, r_ = _norm(A.unparse(c["left"]).replace(" ", "")), _norm(A.unparse(c["right"]).replace(" ", ""))
                    l_, r_ = [re.sub(r"\.v\.x$", ".v[0]", re.sub(r"\.v\.y$", ".v[1]", t_)) for t_ in (l_, r_)]
                    op = c["op"]
                    if op in (">=", ">"):
                        l_, r_, op = r_, l_, {">=": "<=", ">": "<"}[op]
                    canon.add((l_, op, r_))
                # i.v[0] <= v and v <= i.v[1] for whatever the parameters are called
                lows = [c for c in canon if re.fullmatch(r"\w+\.v\[0\]", c[0]) and re.fullmatch(r"\w+", c[2])]
                highs = [c for c in canon if re.fullmatch(r"\w+", c[0]) and re.fullmatch(r"\w+\.v\[1\]", c[2])]
                if len(lows) == 1 and len(highs) == 1 and lows[0][2] == highs[0][0]:
                    strict = [c for c in (lows[0], highs[0]) if c[1] != "<="]
                    if strict:
                        why = "it tests `%s %s %s`: the bounds themselves belong to the interval (Interval::contains uses <= and >=), so [0, k] contains 0" % strict[0]
                    else:
                        ok = True
                else:
                    why = "it does not test lower <= v and v <= upper"
        if ok:
            rule.ok("WGSL contains_i(i, v) = i.lower <= v <= i.upper, both ends included", file=IOPS, line=fn["ln"])
        else:
            rule.bad("wgsl|contains_i", "contains_i: %s" % why, _where(fn))
    fn = d.get("has_nan")
    if fn is None:
        rule.lost("WGSL has_nan")
    else:
        t = A.unparse(fn["body"]).replace(" ", "")
        t = re.sub(r"\.v\.x", ".v[0]", re.sub(r"\.v\.y", ".v[1]", t))
        m = re.search(r"return\(?is_nan\((\w+)\.v\[([01])\]\)\|\|is_nan\(\1\.v\[([01])\]\)\)?;", t)
        if m and {m.group(2), m.group(3)} == {"0", "1"}:
            rule.ok("WGSL has_nan(i) looks at both bounds", file=IOPS, line=fn["ln"])
        else:
            rule.bad("wgsl|has_nan", "has_nan must be is_nan(lower) || is_nan(upper)", _where(fn))
