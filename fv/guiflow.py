"""`Canvas2::interact` / `Canvas3::interact`, followed case by case.

The event handler is a small case analysis over the cursor state (no cursor, cursor with the button up, cursor with
the button down).  Whatever its shape - an accumulated `changed` flag, a tuple out of a `match`, `let`-`else`, an
`Option::map` for the cursor position - in each of those three worlds the body is a straight line, so it is
followed symbolically: `self.begin_drag / drag / end_drag / zoom` are recorded as effects in order, the results of
`drag` and `zoom` are atoms of a boolean OR-expression, `cs.screen_pos` is a symbol.  Per world:

* button down: begin_drag(cs.screen_pos[, mode]) then drag(cs.screen_pos); no end_drag;
* button up / no cursor: end_drag, neither begin_drag nor drag;
* always exactly one zoom(scroll, cursor position or None), after those;
* the size is stored before any of them;
* the answer is drag's flag OR zoom's flag (zoom's alone without a drag) - nothing else, and not short-circuited.

Anything outside the interpreted subset raises Stop (the caller falls back to its accepted written forms)."""
from . import ast as A


class Stop(Exception):
    pass


class Bad(Exception):
    pass


class Ret(Exception):
    def __init__(self, v):
        self.v = v


FALSE = ("b", frozenset())
TRUE = ("b", frozenset(["true"]))


def _isb(v):
    return isinstance(v, tuple) and v and v[0] == "b"


class World:
    def __init__(self, ty, cursor, drag):
        self.ty, self.cursor, self.drag = ty, cursor, drag
        self.effects = []
        self.env = {}

    # -- values
    def field(self, base, name):
        if base == ("cs",):
            if name == "screen_pos":
                return ("sp",)
            if name == "drag":
                if self.ty == "Canvas2":
                    return TRUE if self.drag else FALSE
                return ("some", ("mode",)) if self.drag else ("none",)
        raise Stop("field `.%s`" % name)

    def match(self, pat, v, env):
        k = pat.get("k")
        if k == "PWild":
            return True
        if k in ("PType", "PRef", "PParen"):
            return self.match(pat["pat"], v, env)
        if k == "PIdent":
            if pat["name"] == "None":
                return v == ("none",)
            env[pat["name"]] = v
            return True
        if k == "PPath" or (k == "Path"):
            segs = pat.get("segs") or (pat.get("path") or {}).get("segs") or []
            if segs[-1:] == ["None"]:
                return v == ("none",)
            raise Stop("pattern `%s`" % A.unparse(pat))
        if k == "PTupleStruct":
            segs = (pat.get("path") or {}).get("segs") or []
            if segs[-1:] == ["Some"] and len(pat["elems"]) == 1:
                if not (isinstance(v, tuple) and v[0] in ("some", "none")):
                    raise Stop("`Some(..)` against `%s`" % (v,))
                return v[0] == "some" and self.match(pat["elems"][0], v[1], env)
            raise Stop("pattern `%s`" % A.unparse(pat))
        if k == "PTuple":
            if not (isinstance(v, tuple) and v[0] == "tuple" and len(v[1]) == len(pat["elems"])):
                raise Stop("tuple pattern")
            return all(self.match(p, x, env) for p, x in zip(pat["elems"], v[1]))
        if k == "PLit":
            lit = A.strip(pat.get("e") or pat.get("lit") or {})
            s = str(lit.get("v", lit.get("s", A.unparse(pat)))).strip()
            if s in ("true", "false") and _isb(v) and v in (TRUE, FALSE):
                return (v == TRUE) == (s == "true")
            raise Stop("literal pattern `%s`" % s)
        if k == "POr":
            for c in pat.get("cases", pat.get("elems", [])):
                e2 = {}
                if self.match(c, v, e2):
                    env.update(e2)
                    return True
            return False
        if k == "PStruct":
            if v != ("cs",):
                raise Stop("struct pattern")
            for f in pat.get("fields", []):
                nm = f.get("name") or f.get("member")
                sub = f.get("pat")
                val = self.field(v, nm)
                if sub is None:
                    env[nm] = val
                elif not self.match(sub, val, env):
                    return False
            return True
        raise Stop("pattern `%s`" % (k or A.unparse(pat)))

    def const(self, v, what):
        if v == TRUE:
            return True
        if v == FALSE:
            return False
        raise Stop("a branch on `%s`, which is not settled by the cursor state" % what)

    def ev(self, e):
        e = A.strip(e)
        k = e.get("k")
        if k in ("Paren", "Ref", "Group"):
            return self.ev(e["e"])
        if k == "Lit":
            if e.get("ty") == "bool":
                return TRUE if str(e["v"]) == "true" else FALSE
            raise Stop("literal `%s`" % e.get("s"))
        if k == "Path":
            segs = e["segs"]
            if len(segs) == 1:
                if segs[0] in self.env:
                    return self.env[segs[0]]
                if segs[0] == "None":
                    return ("none",)
                if segs[0] == "self":
                    return ("self",)
            raise Stop("name `%s`" % "::".join(segs))
        if k == "Field":
            inner = A.strip(e["e"])
            if A.ident(inner) == "self":
                return ("selffield", e["member"])
            return self.field(self.ev(inner), e["member"])
        if k == "Tuple":
            return ("tuple", tuple(self.ev(x) for x in e["elems"]))
        if k == "Call":
            segs = A.path_segs(e["func"]) or []
            if segs[-1:] == ["Some"] and len(e["args"]) == 1:
                return ("some", self.ev(e["args"][0]))
            raise Stop("call `%s`" % A.unparse(e["func"]))
        if k == "Unary" and e.get("op") == "!":
            v = self.ev(e["e"])
            return FALSE if self.const(v, A.unparse(e)) else TRUE
        if k == "MethodCall":
            m = e["method"]
            rv = A.strip(e["recv"])
            if A.ident(rv) == "self":
                args = tuple(self.ev(a) for a in e["args"])
                if m in ("begin_drag", "end_drag"):
                    self.effects.append((m, args))
                    return ("unit",)
                if m in ("drag", "zoom"):
                    n = sum(1 for x in self.effects if x[0] == m)
                    self.effects.append((m, args))
                    return ("b", frozenset(["%s#%d" % (m, n)]))
                raise Stop("self.%s()" % m)
            v = self.ev(rv)
            if m in ("is_some", "is_none") and not e["args"] and isinstance(v, tuple) and v[0] in ("some", "none"):
                return TRUE if (v[0] == "some") == (m == "is_some") else FALSE
            if m == "map" and len(e["args"]) == 1 and isinstance(v, tuple) and v[0] in ("some", "none"):
                clo = A.strip(e["args"][0])
                if clo.get("k") != "Closure":
                    raise Stop("map with a non-closure")
                if v[0] == "none":
                    return v
                ps = clo.get("inputs", clo.get("params", []))
                if len(ps) != 1:
                    raise Stop("closure arity")
                saved = dict(self.env)
                if not self.match(ps[0], v[1], self.env):
                    raise Stop("closure pattern")
                out = self.ev(clo["body"])
                self.env = saved
                return ("some", out)
            if m in ("clone", "copied", "cloned", "as_ref", "into") and not e["args"]:
                return v
            raise Stop("method `.%s()`" % m)
        if k == "Binary":
            op = e["op"]
            if op in ("||", "|", "&&", "&"):
                a = self.ev(e["left"])
                n0 = len(self.effects)
                if op in ("||", "&&") and a in (TRUE, FALSE) and ((a == TRUE) == (op == "||")):
                    return a  # settled, the right side never runs
                b = self.ev(e["right"])
                if not (_isb(a) and _isb(b)):
                    raise Stop("`%s` on non-flags" % op)
                if op in ("||", "&&") and len(self.effects) > n0 and a not in (TRUE, FALSE):
                    raise Bad("`%s` only runs its right side (%s) when the left flag is %s: the step must happen whatever the other flag says" % (op, ", ".join(x[0] for x in self.effects[n0:]), "false" if op == "||" else "true"))
                if op in ("&&", "&"):
                    if a == TRUE:
                        return b
                    if b == TRUE:
                        return a
                    if FALSE in (a, b):
                        return FALSE
                    raise Bad("the flags are joined with `%s`; either step changing the view must be reported" % op)
                return ("b", a[1] | b[1])
            if op in ("|=", "||=") and A.strip(e["left"]).get("k") == "Path":
                n = A.strip(e["left"])["segs"][0]
                a, b = self.ev(e["left"]), self.ev(e["right"])
                if not (_isb(a) and _isb(b)):
                    raise Stop("`|=` on non-flags")
                self.env[n] = ("b", a[1] | b[1])
                return ("unit",)
            if op == "&=":
                raise Bad("a flag is narrowed with `&=`")
            raise Stop("operator `%s`" % op)
        if k == "Assign":
            tgt = A.strip(e["left"])
            v = self.ev(e["right"])
            if tgt.get("k") == "Field" and A.ident(A.strip(tgt["e"])) == "self":
                self.effects.append(("set:" + tgt["member"], (v,)))
                return ("unit",)
            if tgt.get("k") == "Path" and len(tgt["segs"]) == 1:
                self.env[tgt["segs"][0]] = v
                return ("unit",)
            raise Stop("assignment to `%s`" % A.unparse(tgt))
        if k == "Block":
            return self.block(e)
        if k == "If":
            c = A.strip(e["cond"])
            if c.get("k") == "LetCond":
                env2 = {}
                hit = self.match(c["pat"], self.ev(c["e"]), env2)
                if hit:
                    self.env.update(env2)
            else:
                hit = self.const(self.ev(c), A.unparse(c))
            if hit:
                return self.ev(e["then"])
            return self.ev(e["else"]) if e.get("else") is not None else ("unit",)
        if k == "Match":
            v = self.ev(e["e"])
            for arm in e["arms"]:
                env2 = {}
                if self.match(arm["pat"], v, env2):
                    saved = dict(self.env)
                    self.env.update(env2)
                    if arm.get("guard") is not None and not self.const(self.ev(arm["guard"]), A.unparse(arm["guard"])):
                        self.env = saved
                        continue
                    return self.ev(arm["body"])
            raise Stop("no arm matches")
        if k == "Return":
            raise Ret(self.ev(e["e"]) if e.get("e") is not None else ("unit",))
        if k == "Macro":
            return ("unit",)
        raise Stop("`%s`" % (k or A.unparse(e)[:30]))

    def block(self, b):
        last = ("unit",)
        for s in A.stmts_of(b):
            k = s.get("k")
            if k == "Let":
                if s.get("init") is None:
                    nm = A.binding_name(s["pat"])
                    if nm:
                        self.env[nm] = ("uninit",)
                        continue
                    raise Stop("uninitialised let")
                v = self.ev(s["init"])
                env2 = {}
                if self.match(s["pat"], v, env2):
                    self.env.update(env2)
                elif s.get("else") is not None or s.get("diverge") is not None:
                    self.ev(s.get("else") or s.get("diverge"))
                    raise Stop("let-else that does not diverge")
                else:
                    raise Stop("refutable let")
                last = ("unit",)
            elif k == "ExprStmt":
                last = self.ev(s["e"])
                if s.get("semi"):
                    last = ("unit",)
            elif k in ("Item", "Fn", "Use"):
                continue
            else:
                last = self.ev(s)
        return last


def follow(fn, ty):
    """[(world name, None | problem text)]; raises Stop when the body is outside the subset"""
    out = []
    names = [A.binding_name(i["pat"]) for i in fn["sig"]["inputs"] if "pat" in i]
    if len(names) != 3:
        raise Stop("interact's parameters")
    size_p, cur_p, scroll_p = names
    for wname, cursor, drag in (("no cursor", False, False), ("cursor, button up", True, False), ("cursor, button down", True, True)):
        w = World(ty, cursor, drag)
        w.env = {size_p: ("size",), scroll_p: ("scroll",), cur_p: ("some", ("cs",)) if cursor else ("none",)}
        try:
            try:
                res = w.block(fn["body"])
            except Ret as r:
                res = r.v
        except Bad as b:
            out.append((wname, str(b)))
            continue
        eff = w.effects
        kinds = [x[0] for x in eff]
        prob = None
        sp = ("sp",)
        want_pos = ("some", sp) if cursor else ("none",)
        if kinds.count("zoom") != 1:
            prob = "zoom is applied %d times" % kinds.count("zoom")
        elif eff[kinds.index("zoom")][1] != (("scroll",), want_pos):
            prob = "zoom is handed %s; it needs the scroll amount and %s" % (_show(eff[kinds.index("zoom")][1]), "the cursor position" if cursor else "no cursor position")
        elif "set:image_size" not in kinds or eff[kinds.index("set:image_size")][1] != (("size",),):
            prob = "the new image size is not stored"
        elif any(kinds.index("set:image_size") > i for i, x in enumerate(kinds) if x in ("begin_drag", "drag", "zoom")):
            prob = "the image size is stored after a cursor position was converted"
        elif drag:
            if kinds.count("drag") != 1 or kinds.count("begin_drag") != 1 or "end_drag" in kinds:
                prob = "with the button down the steps are %s; begin_drag and drag once each, no end_drag" % kinds
            elif not (kinds.index("begin_drag") < kinds.index("drag") < kinds.index("zoom")):
                prob = "the steps run in the order %s" % kinds
            elif eff[kinds.index("drag")][1] != (sp,) or eff[kinds.index("begin_drag")][1][:1] != (sp,) or (ty == "Canvas3" and eff[kinds.index("begin_drag")][1][1:] != (("mode",),)):
                prob = "begin_drag / drag are not handed the cursor's screen position (and the requested mode)"
            elif res != ("b", frozenset(["drag#0", "zoom#0"])):
                prob = "the answer is %s; it must be drag's flag OR zoom's flag" % _show(res)
        else:
            if "drag" in kinds or "begin_drag" in kinds or kinds.count("end_drag") < 1:
                prob = "with no drag requested the steps are %s; the drag must be ended and nothing dragged" % kinds
            elif kinds.index("end_drag") > kinds.index("zoom"):
                prob = "the drag is ended after the zoom"
            elif res != ("b", frozenset(["zoom#0"])):
                prob = "the answer is %s; it must be zoom's flag" % _show(res)
        out.append((wname, prob))
    return out


def _show(v):
    if _isb(v):
        return " | ".join(sorted(v[1])) or "false"
    return str(v)
