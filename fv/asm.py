"""fvasm: parse `dynasm!` token streams of the x86_64 assemblers into instruction
lists, build per-builder control-flow graphs and run dataflow checks over them.

Nothing is executed or evaluated: instructions are classified by an explicit
table into reads / writes / copies; values are never computed."""
import re

from . import ast as A

# ---------------------------------------------------------------------------
# registers

GPR64 = ["rax", "rcx", "rdx", "rbx", "rsp", "rbp", "rsi", "rdi"] + ["r%d" % i for i in range(8, 16)]
_ALIAS = {}
for r, (e, w, b) in {
    "rax": ("eax", "ax", "al"), "rcx": ("ecx", "cx", "cl"), "rdx": ("edx", "dx", "dl"), "rbx": ("ebx", "bx", "bl"),
    "rsp": ("esp", "sp", "spl"), "rbp": ("ebp", "bp", "bpl"), "rsi": ("esi", "si", "sil"), "rdi": ("edi", "di", "dil"),
}.items():
    _ALIAS[r] = (r, 8)
    _ALIAS[e] = (r, 4)
    _ALIAS[w] = (r, 2)
    _ALIAS[b] = (r, 1)
for i in range(8, 16):
    _ALIAS["r%d" % i] = ("r%d" % i, 8)
    _ALIAS["r%dd" % i] = ("r%d" % i, 4)
    _ALIAS["r%dw" % i] = ("r%d" % i, 2)
    _ALIAS["r%db" % i] = ("r%d" % i, 1)
_ALIAS["ah"] = ("rax", 1)

SIZE_KW = {"BYTE": 1, "WORD": 2, "DWORD": 4, "QWORD": 8, "OWORD": 16, "HWORD": 32}


class Op:
    """one operand"""

    def __init__(self, kind, **kw):
        self.kind = kind  # 'vec' | 'gpr' | 'mem' | 'imm' | 'label'
        self.__dict__.update(kw)

    def __repr__(self):
        if self.kind == "vec":
            return "%s%s" % ("y" if self.width == 32 else "x", self.name)
        if self.kind == "gpr":
            return self.text
        if self.kind == "mem":
            return "[%s]" % self.text
        if self.kind == "label":
            return self.text
        return self.text


class Ins:
    def __init__(self, mnem, ops, ln, label=None, glob=False):
        self.mnem = mnem
        self.ops = ops
        self.ln = ln
        self.label = label  # for label definitions: the name
        self.glob = glob

    def __repr__(self):
        if self.label is not None:
            return "%s%s:" % ("->" if self.glob else "", self.label)
        return "%s %s" % (self.mnem, ", ".join(map(repr, self.ops)))


def _ts(toks):
    return A.tokens_str(toks)


def parse_vec_inner(toks, local_imm_names):
    """contents of Rx(..)/Ry(..): `reg(NAME)` or `IMM_REG`"""
    s = _ts(toks).replace(" ", "")
    m = re.fullmatch(r"reg\((\w+)\)", s)
    if m:
        n = m.group(1)
        if n in local_imm_names:
            return "0"  # a register returned by load_imm: physical xmm0
        return "T:" + n
    if s == "IMM_REG":
        return "0"
    return "?:" + s


def parse_operand(toks, local_imm_names):
    if not toks:
        return Op("imm", text="")
    t0 = toks[0]
    # jump targets
    if t0["t"] == "p" and t0["s"] in (">", "<") and len(toks) == 2:
        return Op("label", text=t0["s"] + toks[1]["s"], name=toks[1]["s"], dir=t0["s"], glob=False)
    if t0["t"] == "p" and t0["s"] == "-" and len(toks) == 3 and toks[1]["s"] == ">":
        return Op("label", text="->" + toks[2]["s"], name=toks[2]["s"], dir="->", glob=True)
    size = None
    if t0["t"] == "i" and t0["s"] in SIZE_KW and len(toks) > 1:
        size = SIZE_KW[t0["s"]]
        toks = toks[1:]
        t0 = toks[0]
    if t0["t"] == "i" and t0["s"] in ("Rx", "Ry") and len(toks) == 2 and toks[1]["t"] == "g":
        return Op("vec", name=parse_vec_inner(toks[1]["ts"], local_imm_names), width=16 if t0["s"] == "Rx" else 32, text=_ts(toks))
    if t0["t"] == "i" and len(toks) == 1:
        s = t0["s"]
        m = re.fullmatch(r"([xy])mm(\d+)", s)
        if m:
            return Op("vec", name=m.group(2), width=16 if m.group(1) == "x" else 32, text=s)
        if s in _ALIAS:
            r, w = _ALIAS[s]
            return Op("gpr", name=r, width=w, text=s)
    if t0["t"] == "g" and t0["d"] == "[" and len(toks) == 1:
        inner = t0["ts"]
        regs = []
        disp = []
        sign = 1
        cur_sign = "+"
        parts = []
        cur = []
        for t in inner:
            if t["t"] == "p" and t["s"] in "+-" and cur:
                parts.append((cur_sign, cur))
                cur = []
                cur_sign = t["s"]
            else:
                cur.append(t)
        if cur:
            parts.append((cur_sign, cur))
        off = 0
        sym = []
        for sg, p in parts:
            s = _ts(p).replace(" ", "")
            if len(p) == 1 and p[0]["t"] == "i" and p[0]["s"] in _ALIAS:
                regs.append(_ALIAS[p[0]["s"]][0])
            elif len(p) == 1 and p[0]["t"] == "l" and re.fullmatch(r"(0x[0-9a-fA-F_]+|\d+)(i8|i32|u8|u32)?", p[0]["s"]):
                v = int(re.sub(r"(i8|i32|u8|u32)$", "", p[0]["s"]).replace("_", ""), 0)
                off += v if sg == "+" else -v
            else:
                sym.append(sg + s)
        return Op("mem", regs=regs, off=off, sym=sym, size=size, text=_ts(inner).replace(" ", ""))
    return Op("imm", text=_ts(toks), size=size)


def split_statements(tokens):
    out = []
    cur = []
    for t in tokens:
        if t["t"] == "p" and t["s"] == ";":
            out.append(cur)
            cur = []
        else:
            cur.append(t)
    out.append(cur)
    return out


def parse_block(mac, local_imm_names=()):
    """one dynasm!(..) invocation -> (ops expression text, [Ins])"""
    stmts = split_statements(mac["tokens"])
    head = _ts(stmts[0]).replace(" ", "")
    ins = []
    for st in stmts[1:]:
        if not st:
            continue
        # label definitions
        if len(st) == 2 and st[0]["t"] == "i" and st[1]["t"] == "p" and st[1]["s"] == ":":
            ins.append(Ins(None, [], st[0]["ln"], label=st[0]["s"]))
            continue
        if len(st) == 4 and st[0]["s"] == "-" and st[1]["s"] == ">" and st[3]["s"] == ":":
            ins.append(Ins(None, [], st[0]["ln"], label=st[2]["s"], glob=True))
            continue
        if st[0]["t"] != "i":
            ins.append(Ins("?" + _ts(st), [], st[0].get("ln", 0)))
            continue
        mnem = st[0]["s"]
        ops = []
        cur = []
        for t in st[1:]:
            if t["t"] == "p" and t["s"] == ",":
                ops.append(parse_operand(cur, local_imm_names))
                cur = []
            else:
                cur.append(t)
        if cur:
            ops.append(parse_operand(cur, local_imm_names))
        ins.append(Ins(mnem, ops, st[0]["ln"]))
    return head, ins


# ---------------------------------------------------------------------------
# instruction table
#
# kinds:
#   'v3'    dst = f(src1, src2[, imm])            (VEX, dst write-only)
#   'v2'    dst = f(src)                          (VEX 2-operand, dst write-only)
#   'vmov'  vector move (load / store / reg-reg), VEX or legacy
#   'rmw'   dst = f(dst, src)                     (legacy SSE and GPR ALU)
#   'mov'   GPR move
#   'cmp'   reads both operands, writes flags
#   'jcc' / 'jmp' / 'call' / 'setcc' / 'push' / 'pop' / 'ret' / 'nop'
#   'g3'    dst = f(src1, src2)  (GPR three operand: imul r, r, imm ; shrx)
#   'unary' single-operand RMW (inc, dec, neg, not)
#   'v4'    dst = f(src1, src2, imm/src3)

V3 = """vaddps vaddss vsubps vsubss vmulps vmulss vdivps vdivss vminps vminss vmaxps vmaxss
vandps vandpd vorps vorpd vxorps vxorpd vandnps vpand vpor vpxor vpaddd vpsubd vpmulld
vcmpeqps vcmpeqss vcmpltps vcmpltss vcmpgtps vcmpgtss vcmpunordps vcmpunordss vcmpleps vcmpless
vcmpneqps vcmpneqss vcmpnltps vcmpnleps vcmpordps vcmpordss
vpcmpeqd vpcmpeqw vpcmpgtd vpshufd vpslld vpsllq vpsrld vpsrlq vpsrad vpsrlvd vpsllvd
vpunpckldq vpunpcklqdq vunpcklps vunpckhps vunpcklpd vroundps vsqrtss vrcpss vpermilps vshufps vblendps""".split()
V2 = "vsqrtps vbroadcastss vpbroadcastd vrcpps vcvtdq2ps vcvtps2dq vcvttps2dq vpabsd".split()
VMOV = "vmovss vmovsd vmovups vmovaps vmovd vmovq vmovdqu vmovdqa movss movsd movaps movups movd movq".split()
RMW_SSE = "addss subss mulss divss sqrtss andps andpd orps orpd xorps xorpd pxor pand por pcmpeqd pcmpeqw pslld psrld psllq psrlq pshufd minss maxss".split()
RMW_GPR = "add sub and or xor shl shr sar imul".split()
CMP = "cmp test comiss ucomiss vcomiss vucomiss ptest vptest".split()
JCC = "ja jae jb jbe je jne jz jnz jp jnp jg jge jl jle js jns jc jnc".split()
SETCC = "sete setne setp setnp seta setb setae setbe setz setnz setg setl".split()
V4 = "vroundss vpinsrd vblendvps vinsertps vcmpps vcmpss vroundsd".split()

# sysv64: clobbered by a call
CALL_CLOBBER_GPR = ["rax", "rcx", "rdx", "rsi", "rdi", "r8", "r9", "r10", "r11"]


class Eff:
    """effect of one instruction"""

    def __init__(self):
        self.reads = []  # Op list (registers read; for mem operands the address registers are added separately)
        self.writes = []
        self.addr = []  # gpr names read for addressing
        self.mem_reads = []
        self.mem_writes = []
        self.flags_w = False
        self.flags_r = False
        self.kind = None
        self.unknown = False


def effect(ins):
    e = Eff()
    m = ins.mnem
    ops = ins.ops
    if ins.label is not None:
        e.kind = "label"
        return e

    def rd(o):
        if o.kind in ("vec", "gpr"):
            e.reads.append(o)
        elif o.kind == "mem":
            e.addr.extend(o.regs)
            e.mem_reads.append(o)

    def wr(o):
        if o.kind in ("vec", "gpr"):
            e.writes.append(o)
        elif o.kind == "mem":
            e.addr.extend(o.regs)
            e.mem_writes.append(o)

    n = len(ops)
    if m in V3 and n == 3:
        e.kind = "v3"
        wr(ops[0]); rd(ops[1]); rd(ops[2])
    elif m in V3 and n == 2 and m in ("vsqrtss",):
        e.kind = "v2"
        wr(ops[0]); rd(ops[1])
    elif m in V4 and n == 4:
        e.kind = "v4"
        wr(ops[0]); rd(ops[1]); rd(ops[2]); rd(ops[3])
    elif m in V2 and n == 2:
        e.kind = "v2"
        wr(ops[0]); rd(ops[1])
    elif m in VMOV and n == 2:
        e.kind = "vmov"
        wr(ops[0]); rd(ops[1])
        # legacy reg-reg movss/movsd merge into the destination: it is also read
        if m in ("movss", "movsd") and ops[0].kind == "vec" and ops[1].kind == "vec":
            rd(ops[0])
    elif m in ("vmovss", "vmovsd") and n == 3:
        e.kind = "vmov3"
        wr(ops[0]); rd(ops[1]); rd(ops[2])
    elif m in RMW_SSE and n == 2:
        e.kind = "rmw"
        # pxor x,x / pcmpeq x,x do not depend on the old value
        same = ops[0].kind == "vec" and ops[1].kind == "vec" and ops[0].name == ops[1].name
        if not (same and m in ("pxor", "xorps", "xorpd", "pcmpeqd", "pcmpeqw")):
            rd(ops[0]); rd(ops[1])
        wr(ops[0])
    elif m == "pshufd" and n == 3:
        e.kind = "v2"
        wr(ops[0]); rd(ops[1])
    elif m in RMW_GPR and n == 2:
        e.kind = "rmw"
        same = ops[0].kind == "gpr" and ops[1].kind == "gpr" and ops[0].name == ops[1].name
        if not (same and m in ("xor", "sub")):
            rd(ops[0]); rd(ops[1])
        wr(ops[0])
        e.flags_w = True
    elif m == "imul" and n == 3:
        e.kind = "g3"
        wr(ops[0]); rd(ops[1]); rd(ops[2])
        e.flags_w = True
    elif m == "shrx" and n == 3:
        e.kind = "g3"
        wr(ops[0]); rd(ops[1]); rd(ops[2])
    elif m in ("inc", "dec", "neg", "not") and n == 1:
        e.kind = "unary"
        rd(ops[0]); wr(ops[0])
        e.flags_w = m != "not"
    elif m in ("mov", "movzx", "movsx", "lea") and n == 2:
        e.kind = "mov"
        wr(ops[0])
        if m == "lea":
            e.addr.extend(ops[1].regs if ops[1].kind == "mem" else [])
        else:
            rd(ops[1])
    elif m in CMP and n == 2:
        e.kind = "cmp"
        rd(ops[0]); rd(ops[1])
        e.flags_w = True
    elif m in JCC and n == 1:
        e.kind = "jcc"
        e.flags_r = True
    elif m == "jmp" and n == 1:
        e.kind = "jmp"
    elif m in SETCC and n == 1:
        e.kind = "setcc"
        wr(ops[0])
        e.flags_r = True
    elif m == "call" and n == 1:
        e.kind = "call"
        rd(ops[0])
    elif m == "push" and n == 1:
        e.kind = "push"
        rd(ops[0])
    elif m == "pop" and n == 1:
        e.kind = "pop"
        wr(ops[0])
    elif m in ("ret", "vzeroupper", "nop") and n == 0:
        e.kind = m
    else:
        e.kind = "unknown"
        e.unknown = True
    return e


def reads_names(e, include_addr=True):
    out = [("v", o.name) if o.kind == "vec" else ("g", o.name) for o in e.reads]
    if include_addr:
        out += [("g", r) for r in e.addr]
    return out


def writes_names(e):
    return [("v", o.name) if o.kind == "vec" else ("g", o.name) for o in e.writes]


# ---------------------------------------------------------------------------
# control flow


def build_cfg(ins):
    """-> succ: list of successor index lists; exits = index len(ins)"""
    n = len(ins)
    labels = {}
    for i, x in enumerate(ins):
        if x.label is not None and not x.glob:
            labels.setdefault(x.label, []).append(i)
    succ = [[] for _ in range(n)]
    problems = []
    for i, x in enumerate(ins):
        if x.label is not None:
            succ[i] = [i + 1]
            continue
        e = effect(x)
        if e.kind in ("jcc", "jmp"):
            t = x.ops[0]
            tgt = None
            if t.kind == "label" and not t.glob:
                cands = labels.get(t.name, [])
                if t.dir == ">":
                    c = [j for j in cands if j > i]
                    tgt = min(c) if c else None
                else:
                    c = [j for j in cands if j < i]
                    tgt = max(c) if c else None
                if tgt is None:
                    problems.append((x.ln, "jump to `%s` has no matching label in this builder" % t.text))
            elif t.kind == "label" and t.glob:
                tgt = "global:" + t.name
            else:
                problems.append((x.ln, "indirect or unrecognised jump target `%r`" % t))
            if e.kind == "jmp":
                succ[i] = [tgt] if tgt is not None else []
            else:
                succ[i] = [i + 1] + ([tgt] if tgt is not None else [])
        elif e.kind == "ret":
            succ[i] = []
        else:
            succ[i] = [i + 1]
    return succ, problems


def enumerate_paths(ins, succ, limit=4096):
    """all entry->exit instruction index paths of an acyclic builder;
    returns (paths, cyclic?)"""
    n = len(ins)
    paths = []
    cyclic = False
    stack = [(0, [])]
    while stack:
        i, p = stack.pop()
        if i == n or (isinstance(i, str)):
            paths.append(p + ([i] if isinstance(i, str) else []))
            if len(paths) > limit:
                return paths, cyclic
            continue
        if i in p:
            cyclic = True
            continue
        if not succ[i] and i < n:
            paths.append(p + [i])
            continue
        for s in succ[i]:
            stack.append((s, p + [i]))
    return paths, cyclic


# ---------------------------------------------------------------------------
# builders


class Builder:
    def __init__(self, path, fn):
        self.path = path
        self.fn = fn
        self.name = fn["name"]
        self.params = [(A.binding_name(i["pat"]), i["ty"].replace(" ", "")) for i in fn["sig"]["inputs"] if "pat" in i]
        self.blocks = []  # (macro node, head, [Ins], guarded?)
        self.unrolled = set()  # ids of dynasm macro nodes read as a constant-trip loop written out
        self.local_imm = set()
        self.helper_calls = []  # (method, [arg names])
        self.commit_local = 0
        self.asserts = []


def local_imm_names(fn):
    """`let imm = self.load_imm(x);` names inside a builder"""
    out = set()
    for s in A.find(fn["body"], "Let"):
        init = A.strip(s.get("init")) if s.get("init") else None
        if init is not None and init.get("k") == "MethodCall" and init["method"] == "load_imm" and A.ident(A.strip(init["recv"])) == "self":
            n = A.binding_name(s["pat"])
            if n:
                out.add(n)
    return out


def _const_int(d, e, env):
    """integer value of a small constant expression (literals, file-level consts, loop variables, + - *)"""
    e = A.strip(e)
    if e is None:
        return None
    v = A.lit_value(e)
    if v is not None and e.get("k") in ("Lit", "Cast", "Unary"):
        return int(v)
    k = e.get("k")
    if k == "Cast":
        return _const_int(d, e["e"], env)
    if k == "Path":
        segs_ = A.path_segs(e) or []
        lim = {("i8", "MAX"): 127, ("u8", "MAX"): 255, ("i16", "MAX"): 32767, ("u16", "MAX"): 65535, ("i32", "MAX"): 2**31 - 1, ("u32", "MAX"): 2**32 - 1}
        if tuple(segs_[-2:]) in lim:
            return lim[tuple(segs_[-2:])]
        n = A.ident(e)
        if n in env:
            return env[n]
        for it in d.get("items", []):
            if it.get("k") == "Const" and it.get("name") == n and it.get("e") is not None:
                return _const_int(d, it["e"], {})
        return None
    if k == "Binary" and e["op"] in ("+", "-", "*", "/"):
        l, r = _const_int(d, e["left"], env), _const_int(d, e["right"], env)
        if l is None or r is None or (e["op"] == "/" and r == 0):
            return None
        return {"+": l + r, "-": l - r, "*": l * r, "/": l // r if e["op"] == "/" else 0}[e["op"]]
    if k == "Call" and not e["args"]:
        t = A.unparse(e["func"]).replace(" ", "")
        m = re.search(r"size_of::<(\w+)>$", t)
        sizes = {"f32": 4, "u32": 4, "i32": 4, "f64": 8, "u64": 8, "i64": 8, "usize": 8, "u8": 1, "i8": 1, "u16": 2, "Interval": 8, "Grad": 16}
        if m and m.group(1) in sizes:
            return sizes[m.group(1)]
    return None


def _unroll(d, fn, m, ins):
    """a dynasm! block inside `for v in A..B { let off = <const expr of v>; dynasm!(..) }` with constant
    bounds is the same instructions written out once per value, the symbolic offsets evaluated: returns the
    list of instruction lists, or None when the block is not in such a loop"""
    import copy

    binders = A.enclosing_binders(fn["body"], m) or []
    loops = [b for b in binders if b[2].get("k") == "For"]
    if len(loops) != 1:
        return None
    var, _it, node = loops[0]
    rng = A.strip(node["iter"])
    while rng.get("k") in ("Cast", "Paren"):
        rng = A.strip(rng["e"])
    if rng.get("k") != "Range" or rng.get("closed"):
        return None
    lo, hi = _const_int(d, rng.get("start"), {}), _const_int(d, rng.get("end"), {})
    if lo is None or hi is None or not (0 < hi - lo <= 64):
        return None
    out = []
    for v in range(lo, hi):
        env = {var: v}
        for s_ in node["body"].get("stmts", []):
            if s_.get("k") == "Let" and A.binding_name(s_["pat"]) and s_.get("init") is not None:
                val = _const_int(d, s_["init"], env)
                if val is not None:
                    env[A.binding_name(s_["pat"])] = val
        ins_v = copy.deepcopy(ins)
        for x in ins_v:
            for o in x.ops:
                if getattr(o, "kind", None) == "mem" and getattr(o, "sym", None):
                    rest = []
                    for sname in o.sym:
                        sign = -1 if sname.startswith("-") else 1
                        nm = sname.lstrip("+-")
                        if nm in env:
                            o.off = (o.off or 0) + sign * env[nm]
                        else:
                            rest.append(sname)
                    o.sym = rest
                    if not rest:
                        o.text = "+".join(o.regs) + ("+0x%x" % o.off if o.off else "")
        out.append(ins_v)
    return out


def load_builders(path, root=None):
    """every fn in the file's impl blocks that contains dynasm! or calls a helper"""
    d = A.load(path, root)
    out = {}
    for fn in d["_fns"]:
        if fn["_test"] or fn.get("body") is None:
            continue
        b = Builder(path, fn)
        b.local_imm = local_imm_names(fn)
        for m in A.find(fn["body"], "Macro"):
            if m.get("name") == "dynasm":
                head, ins = parse_block(m, b.local_imm)
                unrolled = _unroll(d, fn, m, ins)
                if unrolled is None:
                    b.blocks.append((m, head, ins))
                else:
                    b.unrolled.add(id(m))
                    for ins_v in unrolled:
                        b.blocks.append((m, head, ins_v))
        for c in A.find(fn["body"], "MethodCall"):
            if A.ident(A.strip(c["recv"])) == "self" and (c["method"].startswith("build_") or c["method"].startswith("call_fn") or c["method"] in ("load_imm", "ensure_callee_regs_saved")):
                b.helper_calls.append((c["method"], [A.ident(A.strip(a)) for a in c["args"]], c))
            if c["method"] == "commit_local":
                b.commit_local += 1
        for m in A.find(fn["body"], "Macro"):
            if m.get("name") in ("assert", "assert_ne", "assert_eq"):
                b.asserts.append(A.ftxt(m))
        if b.blocks or b.helper_calls:
            key = b.name
            if fn.get("_mods") and any(x.startswith("{") for x in fn["_mods"]):
                continue  # nested fns (extern callbacks)
            out[key] = b
    splice_emitters(out)
    return out


_NOT_EMITTERS = ("load_imm", "ensure_callee_regs_saved", "finalize", "init", "new", "prepare_stack", "push_stack")


def splice_emitters(builders):
    """a private helper that only emits instructions on the registers it is handed (`self.spread_nan(out_reg)`) is part
    of every clause that calls it: its instructions are spliced in at the call, with its register parameters renamed
    to the caller's arguments, so that every rule reads the clause as it is emitted"""
    import copy as _copy

    for b in list(builders.values()):
        added = False
        for c in A.find(b.fn["body"], "MethodCall"):
            m = c["method"]
            h = builders.get(m)
            if h is None or h is b or A.ident(A.strip(c["recv"])) != "self":
                continue
            if m.startswith("build_") or m.startswith("call_fn") or m in _NOT_EMITTERS:
                continue
            if not h.blocks or h.helper_calls or not h.params or any(ty != "u8" for _n, ty in h.params) or len(h.params) != len(c["args"]):
                continue
            args = [A.ident(A.strip(a)) for a in c["args"]]
            if any(a is None for a in args):
                continue
            ren = {"T:%s" % pn: "T:%s" % an for (pn, _ty), an in zip(h.params, args)}
            ins = _copy.deepcopy(flat_ins(h))
            for x in ins:
                x.ln = c["ln"]
                for o in x.ops:
                    if getattr(o, "kind", None) == "vec" and o.name in ren:
                        o.name = ren[o.name]
            b.blocks.append(({"k": "Macro", "name": "dynasm", "ln": c["ln"], "c": c.get("c", 0), "_spliced": m}, None, ins))
            added = True
        if added:
            b.blocks.sort(key=lambda blk: (blk[0].get("ln", 0), blk[0].get("c", 0)))


def flat_ins(b):
    out = []
    for _m, _h, ins in b.blocks:
        out.extend(ins)
    return out
