"""Effect summaries of small state-updating functions, in a canonical language that does not depend on
local names, on whether a sub-expression was named with `let`, on integer cast idioms (`x as usize`,
`usize::from(x)`, `x.into()`), on operand order of `==` / `!=`, or on struct-literal field order.

A local bound by an immutable `let` is replaced by its initialiser.  Every read of the object's state
(`self.a[b].c`) is classified by *when it is evaluated*: before the function's first write it is rendered
plainly (it reads the entry state); after a write it is rendered `new(..)`.  A value named with `let`
before the first write therefore reads the same wherever it is used, and two writes that do not feed each
other can be reordered without changing the summary."""
from . import ast as A

_CAST_CALLS = {("usize", "from"), ("u32", "from"), ("u64", "from"), ("u8", "from"), ("i32", "from"), ("f32", "from")}


def _self_rooted(e):
    e = A.strip(e)
    while e is not None and e.get("k") in ("Field", "Index", "Cast", "Paren"):
        e = A.strip(e["e"])
    return e is not None and A.ident(e) == "self"


def canon(e, env=None, post=False, place=False):
    """canonical text of an expression.  env: name -> (init node, post-at-let); post: has the object's
    state been written before this expression is evaluated; place: `e` is the target of a write (its
    own chain is not a read, its index sub-expressions are)"""
    env = env or {}
    e = A.strip(e)
    if e is None:
        return ""
    k = e.get("k")
    if k in ("Cast", "Paren", "Try", "Ref"):
        return canon(e["e"], env, post, place)
    if k in ("Field", "Index") and _self_rooted(e):
        def chain(x):
            x = A.strip(x)
            kk = x.get("k")
            if kk in ("Cast", "Paren"):
                return chain(x["e"])
            if kk == "Field":
                return "%s.%s" % (chain(x["e"]), x["member"])
            if kk == "Index":
                return "%s[%s]" % (chain(x["e"]), canon(x["index"], env, post))
            return "self"
        t = chain(e)
        return "new(%s)" % t if (post and not place) else t
    if k == "Path":
        n = A.ident(e)
        if n in env:
            init, post_at_let = env[n]
            return canon(init, {k2: v for k2, v in env.items() if k2 != n}, post_at_let)
        segs_ = A.path_segs(e) or [A.unparse(e)]
        if len(segs_) >= 2 and segs_[-2] == "consts":
            segs_ = segs_[-1:]  # `std::f32::consts::TAU` and an imported `TAU` are one constant
        return "::".join(segs_)
    if k == "Lit":
        return str(e.get("v"))
    if k == "Field":
        if str(e["member"]).isdigit():
            # `t.0` of a tuple that was built in place is that element
            inner = A.strip(e["e"])
            seen_ = set()
            env_ = env
            while inner is not None and inner.get("k") == "Path" and A.ident(inner) in env_ and A.ident(inner) not in seen_:
                n_ = A.ident(inner)
                seen_.add(n_)
                inner = A.strip(env_[n_][0])
                env_ = {k2: v for k2, v in env_.items() if k2 != n_}
            if inner is not None and inner.get("k") == "Tuple" and int(e["member"]) < len(inner["elems"]):
                return canon(inner["elems"][int(e["member"])], env_, post)
        return "%s.%s" % (canon(e["e"], env, post), e["member"])
    if k == "Index":
        return "%s[%s]" % (canon(e["e"], env, post), canon(e["index"], env, post))
    if k == "Unary":
        if e["op"] == "*":
            return canon(e["e"], env, post)  # a dereference denotes the same value
        if e["op"] == "!":
            return _negate(e["e"], env, post)
        return "%s%s" % (e["op"], canon(e["e"], env, post))
    if k == "Binary":
        l, r = canon(e["left"], env, post), canon(e["right"], env, post)
        if e["op"] in ("==", "!=", "&&", "||") and r < l:
            # (`&&` / `||` of side-effect-free operands: the order does not change the value)
            l, r = r, l
        return "(%s%s%s)" % (l, e["op"], r)
    if k == "Call":
        segs = tuple(A.path_segs(e["func"]) or [])
        if segs[-2:] in _CAST_CALLS and len(e["args"]) == 1:
            return canon(e["args"][0], env, post)
        if segs[-2:] in (("Arc", "clone"), ("Rc", "clone"), ("Clone", "clone")) and len(e["args"]) == 1:
            return canon(e["args"][0], env, post)  # a clone denotes the same value
        return "%s(%s)" % ("::".join(segs) or canon(e["func"], env, post), ",".join(canon(a, env, post) for a in e["args"]))
    if k == "MethodCall":
        if e["method"] in ("into", "clone") and not e["args"]:
            return canon(e["recv"], env, post)
        return "%s.%s(%s)" % (canon(e["recv"], env, post), e["method"], ",".join(canon(a, env, post) for a in e["args"]))
    if k == "Struct":
        fs = sorted((f["name"], canon(f["e"], env, post)) for f in e["fields"])
        return "%s{%s}" % ((A.path_segs(e["path"]) or ["?"])[-1], ",".join("%s:%s" % f for f in fs))
    if k == "Tuple":
        return "(%s)" % ",".join(canon(x, env, post) for x in e["elems"])
    return A.unparse(e).replace(" ", "")


def _negate(e, env, post):
    """canonical text of `!e` with the negation pushed inward: `!(a == b)` is `a != b` (exact for floats
    too), `!(x && y)` is `!x || !y`, `!!x` is x; a name is resolved first"""
    e = A.strip(e)
    k = e.get("k")
    if k == "Path" and A.ident(e) in env:
        n = A.ident(e)
        init, post_at_let = env[n]
        return _negate(init, {k2: v for k2, v in env.items() if k2 != n}, post_at_let)
    if k == "Unary" and e["op"] == "!":
        return canon(e["e"], env, post)
    if k == "Binary" and e["op"] in ("==", "!="):
        l, r = canon(e["left"], env, post), canon(e["right"], env, post)
        if r < l:
            l, r = r, l
        return "(%s%s%s)" % (l, "!=" if e["op"] == "==" else "==", r)
    if k == "Binary" and e["op"] in ("&&", "||"):
        l, r = _negate(e["left"], env, post), _negate(e["right"], env, post)
        if r < l:
            l, r = r, l
        return "(%s%s%s)" % (l, "||" if e["op"] == "&&" else "&&", r)
    return "!%s" % canon(e, env, post)


def tuple_bindings(pat, init, post=False):
    """`let (a, b) = (x, y)` -> a: x, b: y ; `let (a, b) = v` -> a: v.0, b: v.1"""
    out = {}
    iv = A.strip(init)
    while iv is not None and iv.get("k") == "Unary" and iv.get("op") == "*":
        iv = A.strip(iv["e"])
    for k, pe in enumerate(pat.get("elems", [])):
        b = A.binding_name(pe)
        if not b or pe.get("mut"):
            continue
        if iv.get("k") == "Tuple" and k < len(iv["elems"]):
            out[b] = (iv["elems"][k], post)
        else:
            out[b] = ({"k": "Field", "e": init, "member": str(k)}, post)
    return out


def let_env(stmts):
    """name -> (initialiser, False) for the immutable lets of a statement list (destructuring included)"""
    env = {}
    for s in stmts:
        if s.get("k") != "Let" or s.get("init") is None:
            continue
        p = s["pat"]["pat"] if s["pat"].get("k") == "PType" else s["pat"]
        if p.get("k") == "PIdent" and not p.get("mut"):
            env[p["name"]] = (s["init"], False)
        elif p.get("k") == "PTuple":
            env.update(tuple_bindings(p, s["init"]))
        elif p.get("k") == "PStruct":
            for f in p.get("fields", []):
                b = A.binding_name(f["pat"])
                if b:
                    env[b] = ({"k": "Field", "e": s["init"], "member": f["name"]}, False)
        elif p.get("k") == "PTupleStruct":
            # `let Tree(x) = t;` names t.0
            _segs, subs = A.pat_variant(p)
            for k, sp in enumerate(subs or []):
                b = A.binding_name(sp)
                if b and not sp.get("mut"):
                    env[b] = ({"k": "Field", "e": s["init"], "member": str(k)}, False)
    return env


def summary(fn):
    """[(kind, conds, a, b)] in source order:
       ('write', conds, place, value) | ('call', conds, 'self.m', 'args') | ('return', conds, value, '')"""
    out = []
    st = {"post": False}

    def self_calls(e, env, conds):
        for c in A.find(e, "MethodCall"):
            if A.ident(A.strip(c["recv"])) == "self":
                out.append(("call", tuple(conds), "self.%s" % c["method"], ",".join(canon(a, env, st["post"]) for a in c["args"])))
                st["post"] = True

    def rec(stmts, env, conds):
        for s in stmts:
            if s.get("k") == "Let":
                nm = A.binding_name(s["pat"])
                p_ = s["pat"]["pat"] if s["pat"].get("k") == "PType" else s["pat"]
                if s.get("init") is not None:
                    iv_ = A.strip(s["init"])
                    if nm and iv_.get("k") == "Call" and (A.path_segs(iv_["func"]) or [])[-2:] == ["mem", "replace"] and len(iv_["args"]) == 2:
                        # `let old = mem::replace(&mut place, v);` reads the place, then writes it
                        place_n = A.strip(iv_["args"][0])
                        env = dict(env)
                        env[nm] = (place_n, st["post"])
                        out.append(("write", tuple(conds), canon(place_n, env, st["post"], place=True), canon(iv_["args"][1], env, st["post"])))
                        st["post"] = True
                        continue
                    self_calls(s["init"], env, conds)
                    if nm and not p_.get("mut"):  # a mutable local is state, not a name for a value
                        env = dict(env)
                        env[nm] = (s["init"], st["post"])
                    elif p_.get("k") == "PStruct":
                        # `let T { a, b: c } = v;` names v.a and v.b
                        env = dict(env)
                        for f in p_.get("fields", []):
                            b = A.binding_name(f["pat"])
                            if b and not f["pat"].get("mut"):
                                env[b] = ({"k": "Field", "e": s["init"], "member": f["name"]}, st["post"])
                    elif p_.get("k") == "PTuple":
                        env = dict(env)
                        env.update(tuple_bindings(p_, s["init"], st["post"]))
                continue
            e = A.strip(A.stmt_expr(s) or {})
            c0 = canon(e["cond"], env, st["post"]) if e.get("k") == "If" else None
            handle(e, env, conds, tail=not s.get("semi", True))
            if c0 is not None:
                th = A.stmts_of(e["then"])
                last = A.strip(A.stmt_expr(th[-1]) or {}) if th else {}
                if last.get("k") in ("Return", "Break", "Continue"):
                    conds = conds + ["!" + c0]  # what follows runs only when the diverging branch was not taken
        return env

    def handle(e, env, conds, tail=False):
        k = e.get("k")
        if k == "Assign" or (k == "Binary" and e.get("op", "").endswith("=") and e["op"] not in ("==", "!=", "<=", ">=")):
            val = canon(e["right"], env, st["post"])
            place = canon(e["left"], env, st["post"], place=True)
            if k == "Binary":
                val = "(%s%s%s)" % (canon(e["left"], env, st["post"]), e["op"][:-1], val)
            out.append(("write", tuple(conds), place, val))
            st["post"] = True
        elif k == "If":
            c = canon(e["cond"], env, st["post"])
            before = st["post"]
            rec(A.stmts_of(e["then"]), env, conds + [c])
            after_then = st["post"]
            st["post"] = before
            if e.get("else") is not None:
                el = A.strip(e["else"])
                if el.get("k") == "If":
                    handle(el, env, conds + ["!" + c])
                else:
                    rec(A.stmts_of(el), env, conds + ["!" + c])
            st["post"] = st["post"] or after_then
        elif k == "Return":
            out.append(("return", tuple(conds), canon(e["e"], env, st["post"]) if e.get("e") else "", ""))
        elif k == "Block":
            rec(e["stmts"], env, conds)
        elif k in ("MethodCall", "Call"):
            self_calls(e, env, conds)
            if tail and not (k == "MethodCall" and A.ident(A.strip(e["recv"])) == "self"):
                out.append(("return", tuple(conds), canon(e, env, st["post"]), ""))
        elif k in ("For", "While", "Loop"):
            rec(A.stmts_of(e["body"]), env, conds + ["loop"])
        elif tail and k:
            out.append(("return", tuple(conds), canon(e, env, st["post"]), ""))

    rec(fn["body"]["stmts"], {}, [])
    return out


def env_at(block, target):
    """let_env of the lets that precede `target` on the way down to it (enclosing blocks included)"""
    env = {}
    cur = block
    while cur is not None:
        nxt = None
        stmts = cur.get("stmts") if cur.get("k") == "Block" else None
        if stmts is None:
            # not a block: find the nearest blocks below that contain the target
            for b in A.find(cur, "Block"):
                if b is not cur and any(n is target for n in A.walk(b)):
                    nxt = b
                    break
            cur = nxt
            continue
        for idx, s_ in enumerate(stmts):
            if any(n is target for n in A.walk(s_)):
                env.update(let_env(stmts[:idx]))
                nxt = s_
                break
        if nxt is None or nxt is target:
            break
        cur = None
        for b in A.find(nxt, "Block"):
            if any(n is target for n in A.walk(b)):
                cur = b
                break
    return env
