"""fidget-raster: tile fan-out, fill-sign guards, coverage arithmetic, sample
positions, z ordering, merge clamp (C06, C07, C09)."""
import re

from . import ast as A

LIB = "fidget-raster/src/lib.rs"
PIX = "fidget-raster/src/pixel.rs"
VOX = "fidget-raster/src/voxel.rs"


def txt(n):
    return A.ftxt(n)


def worker_fn(path, name, root=None):
    return A.find_fn(path, name, self_ty="Worker", root=root)


def cond_chain(fn, node):
    """the if-conditions (as text, negated for else-branches) enclosing `node` inside fn"""
    out = []

    def rec(n, conds):
        if n is node:
            out.append(list(conds))
            return True
        if isinstance(n, list):
            return any(rec(x, conds) for x in n)
        if not isinstance(n, dict):
            return False
        if n.get("k") == "If":
            c = txt(n["cond"])
            if rec(n["cond"], conds):
                return True
            if rec(n["then"], conds + [A.no_double_neg(c)]):
                return True
            if n.get("else") is not None and rec(n["else"], conds + [A.no_double_neg("!" + c)]):
                return True
            return False
        if n.get("k") == "Match":
            if rec(n["e"], conds):
                return True
            for a in n["arms"]:
                bm = A.bool_match_conds(n, a)
                if rec(a["body"], conds + (bm or [])):
                    return True
            return False
        return any(rec(v, conds) for v in A.children(n))

    rec(fn["body"], [])
    return out[0] if out else None


# ---------------------------------------------------------------------------
# R1: fill-sign agreement


def r_fill_sign_pixel(rule, root=None):
    fn = worker_fn(PIX, "render_tile_recurse", root)
    fills = [s for s in A.find(fn["body"], "Struct") if A.path_segs(s["path"])[-2:] == ["DistancePixel", "Fill"]]
    if not fills:
        rule.lost("DistancePixel::Fill sites in pixel render_tile_recurse")
        return
    ivar = _interval_var(fn)
    virtual = []
    for s in fills:
        f = {x["name"]: A.strip(x["e"]) for x in s["fields"]}
        ins = f.get("inside")
        if ins is not None and ins.get("k") == "Lit" and ins["ty"] == "bool":
            virtual.append((s, ins["v"] == "true", cond_chain(fn, s) or []))
            continue
        cases = _decided_cases(fn, s, ins)
        if cases is None:
            rule.bad("pixel|fill|computed", "a tile is filled with `inside: %s`; inside/outside must each be decided by its own strict comparison of the tile's interval (`upper() < 0` / `lower() > 0`), which both fail for a NaN interval" % A.unparse(ins), A.where(fn, s))
            continue
        virtual += [(s, v_, c_) for v_, c_ in cases]
    for s, inside, conds in virtual:
        ins = {"v": "true" if inside else "false"}
        want = "(%s.upper()<0.0)" % ivar if inside else "(%s.lower()>0.0)" % ivar
        other = "(%s.upper()<0.0)" % ivar
        if want not in conds or (not inside and "!" + other not in conds and other in conds):
            rule.bad("pixel|fill|%s" % ("inside" if inside else "outside"), "a tile is filled %s under `%s`; that is only justified under `%s`" % ("inside" if inside else "outside", " && ".join(conds), want), A.where(fn, s))
        elif "!self.pixel_perfect" not in conds:
            rule.bad("pixel|fill|pixel_perfect", "tiles are filled in pixel-perfect mode too: every pixel must carry its own value there", A.where(fn, s))
        else:
            rule.ok("pixel: Fill{inside:%s} only under %s and not in pixel-perfect mode" % (ins["v"], want), file=PIX, line=s["ln"])
    # the interval is the one returned by this tile's evaluation
    _check_interval_source(rule, fn, "pixel", PIX)


def _decided_cases(fn, s, ins):
    """`decided.map(|inside| Fill { inside, .. })` with `decided` an Option<bool> chosen by comparisons:
    -> [(inside, conditions)] for its Some(true) / Some(false) cases (None fills nothing), else None"""
    name = A.ident(ins) if ins is not None else None
    if not name:
        return None
    for c in A.find(fn["body"], "MethodCall"):
        if c["method"] != "map" or len(c["args"]) != 1 or c["args"][0].get("k") != "Closure":
            continue
        cl = c["args"][0]
        if len(cl.get("inputs", [])) != 1 or A.binding_name(cl["inputs"][0]) != name or not any(n is s for n in A.walk(cl["body"])):
            continue
        src = A.strip(c["recv"])
        if A.ident(src):
            lets = [l for l in A.find(fn["body"], "Let") if A.binding_name(l["pat"]) == A.ident(src) and l.get("init") is not None]
            if len(lets) != 1:
                return None
            outer = cond_chain(fn, lets[0]) or []
            src = lets[0]["init"]
        else:
            outer = cond_chain(fn, c) or []
        out = []
        for leaf, cs in A.value_cases(src):
            t_ = txt(leaf)
            if t_ == "None":
                continue
            if t_ in ("Some(true)", "Some(false)"):
                out.append((t_ == "Some(true)", list(outer) + list(cs)))
            else:
                return None
        return out or None
    return None


def _interval_var(fn):
    for s in A.find(fn["body"], "Let"):
        if s.get("init") is not None and "eval_interval" in txt(s["init"]) and s["pat"].get("k") == "PTuple":
            return A.binding_name(s["pat"]["elems"][0])
    raise A.AnchorLost("`let (i, trace) = self.eval_interval...` in %s" % A.fn_label(fn))


def _trace_var(fn):
    for s in A.find(fn["body"], "Let"):
        if s.get("init") is not None and "eval_interval" in txt(s["init"]) and s["pat"].get("k") == "PTuple":
            return A.binding_name(s["pat"]["elems"][1])
    raise A.AnchorLost("trace binding in %s" % A.fn_label(fn))


def _check_interval_source(rule, fn, label, path):
    t = txt(fn["body"])
    calls = [c for c in A.find(fn["body"], "MethodCall") if c["method"] == "eval_with_transform_and_vars" and "eval_interval" in txt(c["recv"])]
    if len(calls) != 1:
        rule.lost("%s: the interval evaluation call" % label)
        return
    args = [txt(a) for a in calls[0]["args"]]
    if args[1:4] == ["x", "y", "z"] and args[4] == "&self.transform" and args[5] == "self.vars" and args[0] == "shape.i_tape(&mutself.tape_storage)":
        rule.ok("%s: the tile's box (x, y, z) is evaluated through the view transform on this handle's interval tape" % label, file=path, line=calls[0]["ln"])
    else:
        rule.bad("%s|interval-args" % label, "%s render_tile_recurse evaluates its tile with arguments %s" % (label, args), A.where(fn, calls[0]))


def r_fill_sign_voxel(rule, root=None):
    fn = worker_fn(VOX, "render_tile_recurse", root)
    ivar = _interval_var(fn)
    rets = list(A.find(fn["body"], "Return"))
    full = empty = None
    for r in rets:
        conds = cond_chain(fn, r) or []
        v = txt(r["e"])
        if any("upper()" in c or "lower()" in c for c in conds):
            if v == "false":
                full = (r, conds)
            elif v == "true":
                empty = (r, conds)
    up = "(%s.upper()<0.0)" % ivar
    lo = "(%s.lower()>0.0)" % ivar
    if full is None or up not in full[1]:
        rule.bad("voxel|full", "the tile is declared completely full under `%s`; only `%s` justifies it (a value of exactly 0 is not inside)" % (" && ".join(full[1]) if full else "?", up), A.where(fn, full[0] if full else {}))
    else:
        rule.ok("voxel: a tile is full only under %s" % up, file=VOX, line=full[0]["ln"])
    if empty is None or lo not in empty[1]:
        rule.bad("voxel|empty", "the tile is declared empty under `%s`; only `%s` justifies it" % (" && ".join(empty[1]) if empty else "?", lo), A.where(fn, empty[0] if empty else {}))
    else:
        rule.ok("voxel: a tile is skipped as empty only under %s" % lo, file=VOX, line=empty[0]["ln"])
    # the full branch raises every pixel of the tile to the tile's top
    t = txt(fn["body"])
    if "letfill_z=((tile.corner[2]+tile_size)+1).try_into().unwrap();" in t and "self.out[(i+x)].depth=self.out[(i+x)].depth.max(fill_z)" in t:
        rule.ok("voxel: a full tile raises each pixel to corner.z + tile_size + 1 (never lowers one)")
    else:
        rule.bad("voxel|fill_z", "a full tile must raise each covered pixel's depth to max(depth, corner.z + tile_size + 1)", A.where(fn))
    _check_interval_source(rule, fn, "voxel", VOX)


# ---------------------------------------------------------------------------
# R2: the trace used to simplify is this tile's


def r_trace_use(rule, path, label, root=None):
    """the handle handed to children / pixels is `shape.simplify(<this tile's trace>, ..)` when the
    interval evaluation returned a trace and `shape` itself otherwise (however the choice is written)"""
    fn = worker_fn(path, "render_tile_recurse", root)
    tv = _trace_var(fn)
    params = [A.binding_name(i["pat"]) for i in fn["sig"]["inputs"] if isinstance(i, dict) and "pat" in i]
    shape_p = params[0] if params else "shape"
    sub = None
    why = "no `let <handle> = ..` choosing between %s.simplify(trace, ..) and %s" % (shape_p, shape_p)
    for s in A.find(fn["body"], "Let"):
        init = s.get("init")
        if init is None or not any(c["method"] == "simplify" for c in A.find(init, "MethodCall")):
            continue
        name = A.binding_name(s["pat"])
        leaves = A.branch_leaves(init)
        simp, keep, other = [], [], []
        for leaf, ctx in leaves:
            lf = A.strip(leaf)
            if lf.get("k") == "MethodCall" and lf["method"] == "simplify" and A.ident(A.strip(lf["recv"])) == shape_p:
                simp.append((lf, ctx))
            elif A.ident(lf) == shape_p:
                keep.append((lf, ctx))
            else:
                other.append(lf)
        if name is None or len(simp) != 1 or len(keep) != 1 or other:
            why = "`%s` is not a choice between %s.simplify(..) and %s" % (A.unparse(s["pat"]), shape_p, shape_p)
            continue
        call, ctx = simp[0]
        arg0 = A.ident(A.strip(call["args"][0])) if call["args"] else None
        # the trace argument is the payload of this tile's Option<trace>
        src = [A.option_source(scr) for (p, scr) in ctx if A.some_binding(p) == arg0]
        if src != [tv]:
            why = "%s.simplify is given `%s`, which is not the trace returned by this tile's interval evaluation (`%s`)" % (shape_p, arg0, tv)
            continue
        rest = [txt(a) for a in call["args"][1:]]
        if rest != ["&mutself.workspace", "&mutself.shape_storage", "&mutself.tape_storage"]:
            why = "simplify must use this worker's workspace and storages, found %s" % rest
            continue
        sub = name
    if sub:
        rule.ok("%s: children use the handle simplified with this tile's trace, or the parent's when there is none" % label, file=path, line=fn["ln"])
    else:
        rule.bad("%s|subtape" % label, "%s render_tile_recurse must simplify with the trace returned by this tile's interval evaluation (`%s`) and otherwise keep `%s`: %s" % (label, tv, shape_p, why), A.where(fn))
        return
    uses = [c for c in A.find(fn["body"], "MethodCall") if c["method"] in ("render_tile_recurse", "render_tile_pixels")]
    bad = [c for c in uses if A.ident(A.strip(c["args"][0])) != sub]
    if uses and not bad:
        rule.ok("%s: recursion and per-pixel evaluation both use %s" % (label, sub))
    else:
        rule.bad("%s|subtape-use" % label, "%s: children / pixels are evaluated with `%s` instead of the simplified handle `%s`" % (label, txt(bad[0]["args"][0]) if bad else "?", sub), A.where(fn))


# ---------------------------------------------------------------------------
# R3: coverage arithmetic


def r_root_tiles(rule, root=None):
    """root tiles: corner (i * t, j * t) for i over ceil(width / t) columns and j over ceil(height / t) rows,
    t = tile_sizes[0], width / height from the config.  Read with lets folded and with loops / iterator
    chains treated alike."""
    fn = A.find_fn(LIB, "render_tiles", root=root)
    body = A.inline_lets_deep(fn["body"])
    pts = [c for c in A.find(body, "Call") if (A.path_segs(c["func"]) or [])[-2:] == ["Point2", "new"] and len(c["args"]) == 2]
    if len(pts) != 1:
        rule.lost("the root tile corner `Point2::new(i * t, j * t)` in render_tiles (%d found)" % len(pts))
        return
    binders = A.enclosing_binders(body, pts[0]) or []
    src = {name: A.iter_source(it) for name, it, _n in binders}
    W = "(render_config.width()asusize)"
    H = "(render_config.height()asusize)"
    T0 = "tile_sizes[0]"
    want_w = "0..%s.div_ceil(%s)" % (W, T0)
    want_h = "0..%s.div_ceil(%s)" % (H, T0)
    axis = {}
    for name, s_ in src.items():
        if s_ == want_w:
            axis[name] = "width"
        elif s_ == want_h:
            axis[name] = "height"
    got = sorted(src.values())
    if sorted(axis.values()) == ["height", "width"] and len(src) == 2:
        rule.ok("render_tiles: columns cover ceil(width / t), rows cover ceil(height / t), t = tile_sizes[0], from the config's width and height", file=LIB, line=fn["ln"])
        rule.ok("render_tiles: width from the config's width")
        rule.ok("render_tiles: height from the config's height")
        rule.ok("render_tiles: root tile size is the first tile size")
    else:
        rule.bad("root|loops", "render_tiles iterates %s; the root grid must be 0..width.div_ceil(t) by 0..height.div_ceil(t) with width / height from the config and t = tile_sizes[0]" % got, A.where(fn))
        return

    def factor(a):
        a = A.strip(a)
        if a.get("k") == "Binary" and a["op"] == "*":
            l, r = txt(A.strip(a["left"])), txt(A.strip(a["right"]))
            if r == T0 and l in axis:
                return axis[l]
            if l == T0 and r in axis:
                return axis[r]
        return None

    f0, f1 = factor(pts[0]["args"][0]), factor(pts[0]["args"][1])
    if (f0, f1) == ("width", "height"):
        rule.ok("render_tiles: tile corner = (column * t, row * t)")
    else:
        rule.bad("root|corner", "root tile corner is (%s, %s); x must be the width index times t and y the height index times t" % (txt(pts[0]["args"][0]), txt(pts[0]["args"][1])), A.where(fn, pts[0]))


def r_children(rule, path, label, dims, root=None):
    fn = worker_fn(path, "render_tile_recurse", root)
    t = txt(fn["body"])
    bound_next = any(f_ in t for f_ in ("ifletSome(next_tile_size)=self.tile_sizes.get((depth+1))", "letSome(next_tile_size)=self.tile_sizes.get((depth+1))else", "matchself.tile_sizes.get((depth+1)){Some(next_tile_size)=>"))
    if bound_next and "lettile_size=self.tile_sizes[depth];" in t:
        rule.ok("%s: children per axis n = tile_size / next_tile_size at depth + 1" % label, file=path, line=fn["ln"])
    else:
        rule.bad("%s|children|n" % label, "%s: the child count must be tile_size / next_tile_size for the tile size at depth + 1" % label, A.where(fn))
    # read with lets folded (a named offset / sub-tile is the same call) and with loops and iterator
    # chains alike
    body = A.inline_lets_deep(fn["body"])
    calls = [c for c in A.find(body, "MethodCall") if c["method"] == "render_tile_recurse"]
    if len(calls) != 1:
        rule.lost("%s: the recursive call" % label)
        return
    c = calls[0]
    binders = A.enclosing_binders(body, c) or []
    names = [b[0] for b in binders]
    iters = {b[0]: str(b[1]) for b in binders}
    args = [str(txt(a)) for a in c["args"]]
    vec = "Vector%d" % dims
    m = re.search(r"Tile::new\(\(tile\.corner\+\(%s::new\(([\w,]+)\)\*next_tile_size\)\)\)" % vec, args[2])
    if args[1] != "(depth+1)" or not m:
        rule.bad("%s|children|call" % label, "%s: children must be rendered at depth + 1 with corner = tile.corner + (i, j%s) * next_tile_size; found (%s, %s)" % (label, ", k" if dims == 3 else "", args[1], args[2]), A.where(fn, c))
        return
    comps = m.group(1).split(",")
    ok = len(comps) == dims and sorted(comps) == sorted(names) and len(set(comps)) == dims
    N = "(tile_size/next_tile_size)"  # `let n = tile_size / next_tile_size` folded
    for nme in comps[:2]:
        if A.iter_source(iters.get(nme) or "") != "0..%s" % N:
            ok = False
    if dims == 3 and iters.get(comps[2]) != "(0..%s).rev()" % N:
        rule.bad("%s|children|zorder" % label, "%s: children along z must be visited from the top down (`(0..n).rev()`), found `%s`: early exit on filled pixels relies on it" % (label, iters.get(comps[2])), A.where(fn, c))
        ok = False
    # ... and none is skipped: the only test a child may sit behind is "its own corner is already beyond the
    # image" - a test on the far corner drops children that still overlap the image
    loops_ = [b[2] for b in binders if b[2].get("k") == "For"]
    extra = []
    if loops_:
        for cj in sorted(A.path_conjuncts(loops_[0]["body"], c) or set()):
            if re.fullmatch(r"\(\w+\.corner(\[\d\]|\.[xyz])<[\w.\[\]()]+\)", cj):
                continue  # the child's near corner lies inside the image
            extra.append(cj)
    if extra:
        ok = False
        rule.bad("%s|children|skipped" % label, "%s: a child tile is rendered only under `%s`; every child that overlaps the image must be rendered (a test on `corner + size` skips the partial tile at the edge, whose in-range samples are then never evaluated)" % (label, " && ".join(extra)), A.where(fn, c))
    elif ok:
        rule.ok("%s: every child (each axis 0..n%s) is rendered once at its own corner" % (label, ", z descending" if dims == 3 else ""))
        ok = None
    if ok:
        rule.ok("%s: every child (each axis 0..n%s) is rendered once at its own corner" % (label, ", z descending" if dims == 3 else ""))
    elif ok is False and not extra and (dims == 2 or iters.get(comps[2] if len(comps) > 2 else "") == "(0..%s).rev()" % N):
        rule.bad("%s|children|loops" % label, "%s: child loops %s do not cover each axis 0..n with its own index (corner uses %s)" % (label, iters, comps), A.where(fn, c))


def _tile_start_ok(fn):
    """TileSizesRef(&tiles[S..]) with S = (k - 1, saturating) for the first k with tiles[k] < max_size, and
    tiles.len() - 1 (saturating) when there is none - as an unwrap_or chain, a match or an if-let"""
    view = A.value_view(fn["body"])
    tail = A.strip(A.stmt_expr(view["stmts"][-1])) if view.get("stmts") else None
    m = re.fullmatch(r"TileSizesRef\(&tiles\[(.+)\.\.\]\)", str(txt(tail)) if tail is not None else "")
    if not m:
        return False
    # find the start expression node
    start = None
    for r_ in A.find(tail, "Range"):
        start = r_.get("start")
    if start is None:
        return False
    start = A.strip(start)
    if start.get("k") == "Path" and A.ident(start):
        lets = [s_ for s_ in A.find(fn["body"], "Let") if A.binding_name(s_["pat"]) == A.ident(start) and s_.get("init") is not None]
        if len(lets) != 1:
            return False
        start = A.strip(lets[0]["init"])

    def is_pos(e):
        e = A.strip(e)
        if e.get("k") != "MethodCall" or e["method"] != "position" or str(txt(e["recv"])) != "tiles.iter()" or len(e["args"]) != 1:
            return False
        c = A.strip(e["args"][0])
        if c.get("k") != "Closure" or len(c.get("inputs") or []) != 1:
            return False
        pin = c["inputs"][0]
        by_ref = False
        while isinstance(pin, dict) and pin.get("k") in ("PRef", "PReference") and pin.get("pat") is not None:
            pin, by_ref = pin["pat"], True
        p_ = A.binding_name(pin)
        d_ = "" if by_ref else "*"
        return str(txt(A.strip(c["body"]))).strip("()") in ("%s%s<max_size" % (d_, p_), "max_size>%s%s" % (d_, p_))

    def cases(e, depth=0):
        """-> (value when the position is Some(k), value when it is None) as texts over `k`"""
        e = A.strip(e)
        k = e.get("k")
        if k == "Path" and A.ident(e) and depth < 4:
            ls_ = [s_ for s_ in A.find(fn["body"], "Let") if A.binding_name(s_["pat"]) == A.ident(e) and s_.get("init") is not None]
            if len(ls_) == 1:
                return cases(ls_[0]["init"], depth + 1)
            return None
        if k == "MethodCall" and e["method"] == "saturating_sub" and len(e["args"]) == 1 and str(txt(e["args"][0])) == "1":
            c = cases(e["recv"])
            return None if c is None else (c[0] + ".saturating_sub(1)", c[1] + ".saturating_sub(1)")
        if k == "MethodCall" and e["method"] == "unwrap_or" and len(e["args"]) == 1 and is_pos(e["recv"]):
            return ("k", str(txt(e["args"][0])))
        if k == "MethodCall" and e["method"] in ("map_or",) and len(e["args"]) == 2 and is_pos(e["recv"]):
            f_ = A.strip(e["args"][1])
            if f_.get("k") == "Closure" and len(f_.get("inputs") or []) == 1:
                b_ = A.binding_name(f_["inputs"][0])
                return (re.sub(r"\b%s\b" % re.escape(b_), "k", str(txt(A.strip(f_["body"])))), str(txt(e["args"][0])))
        if k == "Match" and is_pos(e["e"]) and len(e["arms"]) == 2:
            some = none = None
            for arm in e["arms"]:
                segs, subs = A.pat_variant(arm["pat"]) if arm["pat"].get("k") in ("PTupleStruct", "PIdent", "PPath") else (None, None)
                if segs and segs[-1] == "Some" and subs and A.binding_name(subs[0]):
                    some = re.sub(r"\b%s\b" % re.escape(A.binding_name(subs[0])), "k", str(txt(A.unblock(arm["body"]))))
                elif segs and segs[-1] == "None":
                    none = str(txt(A.unblock(arm["body"])))
            return (some, none) if some and none else None
        return None

    c = cases(start)
    return c == ("k.saturating_sub(1)", "tiles.len().saturating_sub(1)")


def r_tile_sizes(rule, root=None):
    """TileSizes::new enforces strictly decreasing sizes, each dividing the previous"""
    path = "fidget-core/src/render/mod.rs"
    try:
        fn = A.find_fn(path, "new", self_ty="TileSizes", root=root)
    except A.AnchorLost:
        path = "fidget-core/src/render/config.rs"
        fn = A.find_fn(path, "new", self_ty="TileSizes", root=root)
    t = txt(fn["body"])
    need = {
        "sizes must be non-empty": "ifsizes.is_empty(){returnErr(",
        "each size strictly smaller than the previous": "if(sizes[(i-1)]<=sizes[i]){returnErr(",
        "each size divides the previous": "if!sizes[(i-1)].is_multiple_of(sizes[i]){returnErr(",
        "every adjacent pair is checked": "foriin1..sizes.len()",
    }
    for what, f in need.items():
        if f in t:
            rule.ok("TileSizes::new: %s" % what, file=path, line=fn["ln"])
        else:
            rule.bad("tilesizes|%s" % what[:20], "TileSizes::new no longer checks that %s" % what, A.where(fn))
    fn = A.find_fn(LIB, "new", self_ty="TileSizesRef", root=root)
    t = txt(fn["body"])
    if t == "{leti=tiles.iter().position(|t|(*t<max_size)).unwrap_or(tiles.len()).saturating_sub(1);TileSizesRef(&tiles[i..])}" or _tile_start_ok(fn):
        rule.ok("TileSizesRef::new keeps the smallest tile size that still covers the image, and everything below")
    else:
        rule.bad("tilesizesref", "TileSizesRef::new must start at the last size >= the image size (position of the first smaller size, minus one)", A.where(fn))
    fn = A.find_fn(LIB, "pixel_offset", self_ty="TileSizesRef", root=root)
    folded = A.inline_lets_deep(fn["body"])
    tail = A.unblock(folded)
    tt = str(txt(tail)) if tail.get("k") != "Block" else ""
    if tt in ("((pos.x%self.0[0])+((pos.y%self.0[0])*self.0[0]))", "(((pos.y%self.0[0])*self.0[0])+(pos.x%self.0[0]))"):
        rule.ok("pixel_offset is row-major within the root tile")
    else:
        rule.bad("pixel_offset", "pixel_offset must be (x mod root) + (y mod root) * root", A.where(fn))


def _assembly_common(rule, fn, label, path, write_ok):
    """image assembly read with lets folded: for every root tile, rows j outer and columns i inner over
    0..tile_sizes[0]; pixel (y, x) = (j + corner.y, i + corner.x); written only inside the image
    (y < height from the image size, x < width); the flat index advances once per pixel."""
    body = A.inline_lets_deep(fn["body"])
    loops = [("j", "0..tile_sizes[0]"), ("i", "0..tile_sizes[0]")]
    W = "(render_config.image_size.width()asusize)"
    H = "(render_config.image_size.height()asusize)"
    bumps = [s for s, _b in A.stmts_in_loops(body, loops, "(index+=1);") if not (A.enclosing_conds(body, s) or []) and not (A.path_conjuncts(body, s) or set())]
    closed = "[((%s*tile_sizes[0])+%s)]"  # a closed-form flat index instead of a running counter
    has_closed = any(closed % (b[-2][0], b[-1][0]) in str(A.ftxt(s_)) for s_ in A.all_stmts(body) for b in [A.enclosing_binders(body, s_) or []] if len(b) >= 2)
    if bumps or has_closed:
        rule.ok("%s assembly: rows outer, columns inner over the root tile; the flat index advances once per pixel" % label, file=path, line=fn["ln"])
    else:
        rule.bad("assembly|%s|index advances once per p" % label, "%s image assembly: `index += 1` must run once per (row j, column i) of 0..tile_sizes[0], unconditionally (or the flat index be j * tile_sizes[0] + i)" % label, A.where(fn))
        return None, None, None
    writes = []
    for s in A.all_stmts(body):
        e = A.strip(A.stmt_expr(s) or {})
        if e.get("k") == "Assign" and A.unparse(e["left"]).replace(" ", "").startswith("image["):
            b = A.enclosing_binders(body, s) or []
            if len(b) >= 2 and [A.iter_source(x[1]) for x in b[-2:]] == ["0..tile_sizes[0]", "0..tile_sizes[0]"]:
                writes.append((s, e, b[-2][0], b[-1][0]))
    if not writes:
        rule.bad("assembly|%s|writes" % label, "%s image assembly: no write to `image[..]` inside the row / column loops" % label, A.where(fn))
        return None, None, None
    okc = True
    for s, e, jn, in_ in writes:
        y = "(%s+tile.corner.y)" % jn
        x = "(%s+tile.corner.x)" % in_
        conds = set()
        for c in A.enclosing_conds(body, s) or []:
            conds |= {c}
        allc = set()
        for n in A.walk(body):
            pass
        # the guard may be one `a && b`, nested ifs, or an earlier `if outside { continue }`
        cj = A.path_conjuncts(body, s) or set()
        # `render_config.width()` is `render_config.image_size.width()` when the RenderSize impl says so
        try:
            deleg = all(str(txt(A.find_fn(path, n_, self_ty="RenderConfig", trait="RenderSize", root=fn.get("_root"))["body"])) == "{self.image_size.%s()}" % n_ for n_ in ("width", "height"))
        except Exception:  # noqa: BLE001
            deleg = False
        if deleg:
            cj = {c_.replace("render_config.width()", "render_config.image_size.width()").replace("render_config.height()", "render_config.image_size.height()") for c_ in cj}
        if "(%s<%s)" % (y, H) not in cj or "(%s<%s)" % (x, W) not in cj:
            okc = False
            rule.bad("assembly|%s|writes guarded by the imag" % label, "%s image assembly: `%s` is not guarded by both `y < height` and `x < width` (y = j + corner.y, x = i + corner.x, width / height from the image size); guards seen: %s" % (label, A.unparse(e)[:40], sorted(cj)), A.where(fn))
        elif not write_ok(A.unparse(e["left"]).replace(" ", ""), y, x, W):
            okc = False
            rule.bad("assembly|%s|target" % label, "%s image assembly writes `%s`; expected the pixel at row y = %s, column x = %s" % (label, A.unparse(e["left"]), y, x), A.where(fn))
    if okc:
        rule.ok("%s assembly: writes guarded by the image bounds, at (row, column)" % label)
        rule.ok("%s assembly: width/height from the image size" % label)
    return body, writes, (W, H)


def r_assembly_pixel(rule, root=None):
    fn = A.find_fn(PIX, "render", root=root)
    body, writes, _wh = _assembly_common(rule, fn, "pixel", PIX, lambda left, y, x, W: left == "image[(%s,%s)]" % (y, x))
    if writes:
        if all(A.unparse(e["right"]).replace(" ", "") in ("data[index]", "data[((%s*tile_sizes[0])+%s)]" % (_j, _i)) for _s, e, _j, _i in writes):
            rule.ok("pixel assembly: each pixel takes the tile's value at the flat index")
        else:
            rule.bad("assembly|pixel|source", "2D image assembly must copy `data[index]`", A.where(fn))
    t = txt(fn["body"])
    f = "letmax_size=(render_config.width().max(render_config.height())asusize);"
    from . import effects as E

    ml = [l_ for l_ in fn["body"]["stmts"] if l_.get("k") == "Let" and A.binding_name(l_["pat"]) == "max_size" and l_.get("init") is not None]
    mcanon = E.canon(ml[0]["init"], E.let_env(fn["body"]["stmts"][:fn["body"]["stmts"].index(ml[0])])) if len(ml) == 1 else ""
    if f in t or mcanon in ("render_config.width().max(render_config.height())", "render_config.height().max(render_config.width())"):
        rule.ok("pixel assembly: largest dimension bounds the tile list", file=PIX, line=fn["ln"])
    else:
        rule.bad("assembly|pixel|largest dimension bounds", "2D image assembly: largest dimension bounds the tile list (`%s` not found)" % f[:60], A.where(fn))


def r_assembly_voxel(rule, root=None):
    fn = A.find_fn(VOX, "render", root=root)
    _assembly_common(rule, fn, "voxel", VOX, lambda left, y, x, W: left == "image[((%s*%s)+%s)]" % (y, W, x))
    t = txt(fn["body"])
    # merge + clamp, read on the let-folded body as guarded writes to image[..] (one entry per value case, so
    # `if c { image[o] = a } else { image[o] = b }` and `image[o] = if c { a } else { b }` are the same):
    #   saturated: image[o] = GeometryPixel { depth: D, normal: [0, 0, 1] }  under  out[index].depth >= D, D = grid depth
    #   otherwise: image[o] = out[index]                                     under !(out[index].depth >= D)
    #   both only under out[index].depth >= image[o].depth
    body = A.inline_lets_deep(fn["body"])
    ws = A.guarded_writes(body, "image[")
    D = "render_config.image_size.depth()"
    sat = [w for w in ws if A.strip(w[1]).get("k") == "Struct" and (A.path_segs(A.strip(w[1])["path"]) or [None])[-1] == "GeometryPixel"]
    plain = [w for w in ws if str(txt(w[1])) == "out[index]"]
    if len(sat) != 1 or len(plain) != 1:
        rule.lost("the depth clamp in voxel::render")
        return
    left, val, conds, node = sat[0]
    f = {x["name"]: str(txt(x["e"])) for x in A.strip(val)["fields"]}
    # names for the grid depth (`let max_depth = render_config.image_size.depth();`) read as the grid depth
    names = {D} | {A.binding_name(l["pat"]) for l in A.find(fn["body"], "Let") if l.get("init") is not None and str(txt(l["init"])) == D and not (l["pat"].get("mut"))}
    def canon_int(c):
        """`(a>=b)` / `!(a<b)` -> `(b<=a)`; `!(a>=b)` / `(a<b)` -> `(a<b)` (unsigned depths)"""
        neg = c.startswith("!")
        c2 = c[1:] if neg else c
        m_ = re.fullmatch(r"\((.+?)(>=|<=|<|>)(.+)\)", c2)
        if not m_:
            return c
        a_, op_, b_ = m_.groups()
        if neg:
            op_ = {">=": "<", "<": ">=", "<=": ">", ">": "<="}[op_]
        if op_ in (">=", ">"):
            a_, b_, op_ = b_, a_, {">=": "<=", ">": "<"}[op_]
        return "(%s%s%s)" % (a_, op_, b_)

    cj_sat = (A.path_conjuncts(body, node) or set()) | {canon_int(c) for c in conds}
    cj_plain = (A.path_conjuncts(body, plain[0][3]) or set()) | {canon_int(c) for c in plain[0][2]}
    cmp_ = sorted(c for c in cj_sat if re.fullmatch(r"\((.+)<=out\[index\]\.depth\)", c) and "image[" not in c)
    bound = re.fullmatch(r"\((.+)<=out\[index\]\.depth\)", cmp_[-1]).group(1) if cmp_ else None
    if cmp_ and bound in names and f.get("depth") in names and "(out[index].depth<%s)" % bound in cj_plain:
        rule.ok("voxel merge: depths >= the grid depth are clamped to exactly the grid depth", file=VOX, line=node["ln"])
    else:
        rule.bad("assembly|voxel|clamp", "the depth clamp compares `out[index].depth` with `%s` but assigns `%s` (grid depth: %s); it must compare with and assign the grid depth, or columns one voxel short of the top are reported saturated" % (bound, f.get("depth"), D), A.where(fn, node))
    if f.get("normal") == "[0.0,0.0,1.0]":
        rule.ok("voxel merge: saturated pixels get the documented +Z normal")
    else:
        rule.bad("assembly|voxel|normal", "saturated pixels must get normal [0, 0, 1]", A.where(fn, node))
    keep = "(out[index].depth>=%s.depth)" % left
    if all(keep in w[2] for w in (sat[0], plain[0])):
        rule.ok("voxel merge keeps the greater depth")
    else:
        rule.bad("assembly|voxel|max", "tile results must only replace shallower pixels (`out[index].depth >= image[o].depth`)", A.where(fn))


# ---------------------------------------------------------------------------
# R4: sample positions


def r_samples_pixel(rule, root=None):
    fn = worker_fn(PIX, "render_tile_pixels", root)
    t = txt(fn["body"])
    # facts with loop context (statement order inside a loop body and extra statements are irrelevant;
    # `for` loops and iterator chains read alike): rows j outer, columns i inner over 0..tile_size
    body = A.inline_lets_deep(fn["body"])
    nest = [("j", "0..tile_size"), ("i", "0..tile_size")]
    need = [
        ("x sample = corner.x + i", nest, "self.scratch.x[index]=((tile.corner[0]+{i})asf32);"),
        ("y sample = corner.y + j", nest, "self.scratch.y[index]=((tile.corner[1]+{j})asf32);"),
        ("z sample = the slice height", nest, "self.scratch.z[index]=self.z;"),
        ("the row's offset is that of the tile's row j", nest[:1], "leto=self.tile_sizes.pixel_offset(tile.add(Vector2::new(0,{j})));"),
        ("results stored at the row's offset plus the column, same nesting", nest, "self.image[(o+{i})]=out[index].into();"),
    ]
    fills = []
    row_copy = False
    for what, loops, f in need:
        hits = A.stmts_in_loops(body, loops, f)
        if not hits and what.startswith("results stored"):
            # the same copy written one row at a time: `for (i, v) in out[index..index + tile_size].iter().enumerate()
            # { self.image[o + i] = (*v).into() }` with `index += tile_size` per row
            for s_ in A.all_stmts(body):
                b_ = A.enclosing_binders(body, s_) or []
                e_ = A.strip(A.stmt_expr(s_) or {})
                if len(b_) >= 2 and e_.get("k") == "Assign" and A.iter_source(b_[-2][1]) == "0..tile_size":
                    node_ = b_[-1][2]
                    pat_ = node_.get("pat") if node_.get("k") == "For" else None
                    els_ = pat_.get("elems") if pat_ and pat_.get("k") == "PTuple" else None
                    src_ = b_[-1][1]
                    base_ = A.iter_source(src_[: -len(".enumerate()")]) if src_.endswith(".enumerate()") else ""
                    for l_ in A.find(b_[-2][2].get("body") or {}, "Let"):
                        if A.binding_name(l_["pat"]) == base_ and l_.get("init") is not None:
                            base_ = A.iter_source(str(txt(l_["init"])))
                    if els_ and len(els_) == 2 and base_ in ("out[index..(index+tile_size)]",):
                        i_, v_ = A.binding_name(els_[0]), A.binding_name(els_[1])
                        if str(txt(e_["left"])) == "self.image[(o+%s)]" % i_ and str(txt(e_["right"])) in ("(*%s).into()" % v_, "%s.into()" % v_) and A.stmts_in_loops(body, nest[:1], "(index+=tile_size);"):
                            hits = [(s_, b_[-2:])]
                            row_copy = True
        if hits:
            rule.ok("pixel samples: %s" % what, file=PIX, line=fn["ln"])
            fills.append(hits[0])
        else:
            rule.bad("samples|pixel|%s" % what[:24], "per-pixel evaluation: %s (`%s` not found under rows j / columns i of 0..tile_size)" % (what, f[:60]), A.where(fn))
    # the flat index advances once per pixel in the loop that fills and in the loop that stores
    bumps = [s_ for s_, b in A.stmts_in_loops(body, nest, "(index+=1);") if not (A.enclosing_conds(body, s_) or [])]
    inner_loops = {id(b[-1][2]) for _s, b in fills if len(b) == 2 and not (row_copy and A.iter_source(b[-1][1]) != "0..tile_size")}
    bump_loops = {id(A.enclosing_binders(body, s_)[-1][2]) for s_ in bumps}
    if fills and inner_loops <= bump_loops:
        rule.ok("pixel samples: rows outer, columns inner; the flat index advances once per pixel in both loops")
    else:
        rule.bad("samples|pixel|rows outer, columns inne", "per-pixel evaluation: every (row, column) loop that fills or stores by `index` must advance it exactly once per pixel", A.where(fn))
    calls = [c for c in A.find(fn["body"], "MethodCall") if c["method"] == "eval_with_transform_and_vars"]
    if len(calls) == 1 and [txt(a) for a in calls[0]["args"]] == ["shape.f_tape(&mutself.tape_storage)", "&self.scratch.x", "&self.scratch.y", "&self.scratch.z", "&self.transform", "self.vars"]:
        rule.ok("pixel samples: evaluated as (x, y, z) through the view transform")
    else:
        rule.bad("samples|pixel|args", "the per-pixel evaluation must receive (x, y, z) scratch arrays, the transform and the vars in that order", A.where(fn))
    rf = worker_fn(PIX, "render_tile_recurse", root)
    t = txt(rf["body"])
    need = [
        ("tile box x = [corner.x, corner.x + size]", "letx=Interval::new(base.x,(base.x+(tile_sizeasf32)));"),
        ("tile box y = [corner.y, corner.y + size]", "lety=Interval::new(base.y,(base.y+(tile_sizeasf32)));"),
        ("tile box z = the slice height", "letz=Interval::new(self.z,self.z);"),
        ("base is the tile corner", "letbase=Point2::from(tile.corner).cast::<f32>();"),
    ]
    for what, f in need:
        if f in t:
            rule.ok("pixel tile box: %s" % what, file=PIX, line=rf["ln"])
        else:
            rule.bad("box|pixel|%s" % what[:24], "2D tile box: %s (`%s` not found)" % (what, f[:60]), A.where(rf))
    # fill loop covers tile_size rows of tile_size pixels
    if "foryin0..tile_size{letstart=self.tile_sizes.pixel_offset(tile.add(Vector2::new(0,y)));self.image[start..][..tile_size].fill(fill);}" in t:
        rule.ok("pixel fill covers tile_size rows of tile_size pixels")
    else:
        rule.bad("fill|pixel|cover", "a filled tile must fill tile_size rows of tile_size pixels starting at each row's offset", A.where(rf))


def _normals_in_step(fn):
    """`self.out[P].normal = [G.dx, ..]` with P the k-th remembered offset and G the k-th gradient result, for
    k over the first `grad` slots - as an enumerate, a zip or an index loop"""
    from . import effects as E

    for a in A.find(fn["body"], "Assign"):
        lt = str(A.ftxt(a["left"]))
        if not lt.endswith(".normal"):
            continue
        loops = [b_ for b_ in (A.enclosing_binders(fn["body"], a) or []) if b_[2].get("k") == "For"]
        if not loops:
            return False
        loop = loops[-1][2]
        lanes = A.lane_bindings(loop)
        if lanes is None:
            return False
        idx, elems = lanes
        env = E.env_at(loop["body"], a)
        pix = E.canon(A.strip(a["left"])["e"]["index"], env) if A.strip(a["left"]).get("k") == "Field" and A.strip(A.strip(a["left"])["e"]).get("k") == "Index" else None
        rhs = A.strip(a["right"])
        if pix is None or rhs.get("k") != "Array" or len(rhs["elems"]) != 3:
            return False
        gs = {E.canon(A.strip(x)["e"], env) for x in rhs["elems"] if A.strip(x).get("k") == "Field"}
        if len(gs) != 1:
            return False
        g = gs.pop()

        def slot(name, base):
            """-> (index key, bounded by grad?) when `name` is the k-th element of `base`"""
            if name in elems:
                src = elems[name]
                m = re.fullmatch(re.escape(base) + r"(\[(0)?\.\.grad\])?", src)
                if m:
                    return (idx or "#lockstep", bool(m.group(1)))
                return None
            m = re.fullmatch(re.escape(base) + r"\[(\w+)\]", name)
            if m and m.group(1) == idx:
                return (idx, False)
            return None

        sp, sg = slot(pix, "self.scratch.columns"), slot(g, "out")
        if sp is None or sg is None or sp[0] != sg[0]:
            return False
        rng = str(A.ftxt(A.strip(loop["iter"])))
        bounded = sp[1] or sg[1] or rng in ("0..grad", "(0..grad)")
        return bool(bounded)
    return False


def _filled_skip(fn):
    """a column is skipped (`continue`) exactly when its pixel's depth is already >= the depth of the tile's top,
    corner.z + tile_size - wherever that bound is computed"""
    from . import effects as E

    for i in A.find(fn["body"], "If"):
        th = i["then"]
        if not any(A.strip(A.stmt_expr(s_) or {}).get("k") == "Continue" for s_ in th.get("stmts", [])):
            continue
        c = E.canon(i["cond"], E.env_at(fn["body"], i))
        if re.fullmatch(r"\(self\.out\[.+\]\.depth>=\(tile\.corner\[2\]\+tile_size\)\.try_into\(\)\.unwrap\(\)\)", c):
            return True
    return False


def r_samples_voxel(rule, root=None):
    fn = worker_fn(VOX, "render_tile_pixels", root)
    t = txt(fn["body"])
    need = [
        ("column (i, j) from the flat index", [
            "forxyin0..tile_size.pow(2){leti=(xy%tile_size);letj=(xy/tile_size);",
            # the same enumeration written as two loops: xy = j * size + i with i the fast index
            "forjin0..tile_size{foriin0..tile_size{letxy=((j*tile_size)+i);",
            "forjin0..tile_size{foriin0..tile_size{letxy=(i+(j*tile_size));",
        ]),
        # the samples of a column fill consecutive slots from its top voxel down: a running `index += 1`, or slot
        # `index + n` with n counting the reversed range and `index += tile_size` after the column
        ("voxels of a column are visited top down", ["forkin(0..tile_size).rev(){", "@enum-rev"]),
        ("x sample = corner.x + i", ["*self.scratch.x.get_unchecked_mut(index)=((tile.corner[0]+i)asf32);", "@slot:x:0:i"]),
        ("y sample = corner.y + j", ["*self.scratch.y.get_unchecked_mut(index)=((tile.corner[1]+j)asf32);", "@slot:y:1:j"]),
        ("z sample = corner.z + k", ["*self.scratch.z.get_unchecked_mut(index)=((tile.corner[2]+k)asf32);", "@slot:z:2:k"]),
        ("columns already filled to the tile's top are skipped", ["letzmax=(tile.corner[2]+tile_size).try_into().unwrap();if(self.out[o].depth>=zmax){continue;}", "@filled-skip"]),
        ("first negative sample in the (descending) column", [
            "letk=match$C.iter().enumerate().find(|(_,$D)|(**$D<0.0)){Some(($I,_))=>$I,None=>continue,};",
            "letSome(k)=$C.iter().position(|$D|(*$D<0.0))else{continue;};",
            "letk=match$C.iter().position(|$D|(*$D<0.0)){Some($I)=>$I,None=>continue,};",
        ]),
        ("index flipped back to an ascending voxel index", "letk=((tile_size-1)-k);"),
        ("depth = voxel index + 1", "letz=((tile.corner[2]+k)+1).try_into().unwrap();"),
        ("one chunk of tile_size samples per column", ["letmut$C=out.chunks(tile_size);", "for($K,$C)in(0..self.scratch.columns.len()).zip(out.chunks(tile_size))", "for($K,$C)in$R.zip(out.chunks(tile_size))", "for($K,$C)inout.chunks(tile_size).enumerate()"]),
    ]
    tv = txt(A.value_view(fn)["body"])
    enum_rev = tv.fmatch("for($N,k)in(0..tile_size).rev().enumerate(){")
    enum_ok = enum_rev is not None and "(index+=tile_size);" in t and "(index+=1);" not in t

    def _special(x):
        if x == "@filled-skip":
            return _filled_skip(fn)
        if x == "@enum-rev":
            return enum_ok
        if x.startswith("@slot:"):
            _a, arr, ax, v_ = x.split(":")
            forms = {"i": ("i", "(xy%tile_size)"), "j": ("j", "(xy/tile_size)"), "k": ("k",)}[v_]
            return enum_ok and any(tv.fmatch("*self.scratch.%s.get_unchecked_mut((index+$N))=((tile.corner[%s]+%s)asf32);" % (arr, ax, f_), bind=enum_rev) is not None for f_ in forms)
        return None

    for what, f in need:
        alts = f if isinstance(f, list) else [f]
        if any(_special(x) if x.startswith("@") else ((x in t) if "$" not in x else (t.fmatch(x) is not None)) for x in alts):
            rule.ok("voxel samples: %s" % what, file=VOX, line=fn["ln"])
        else:
            rule.bad("samples|voxel|%s" % what[:28], "per-voxel evaluation: %s (`%s` not found)" % (what, alts[0][:60]), A.where(fn))
    # unsafe writes are dominated by the three length assertions against tile_size^3
    un = list(A.find(fn["body"], "Unsafe"))
    asserts = [m for m in A.find(fn["body"], "Macro") if m["name"] == "assert" and "tile_size.pow(3)" in txt(m)]
    arrs = sorted(re.findall(r"self\.scratch\.(\w)\.len\(\)>=tile_size\.pow\(3\)", "".join(txt(m) for m in asserts)))
    if len(un) == 1 and arrs == ["x", "y", "z"] and all(m["ln"] < un[0]["ln"] for m in asserts):
        rule.ok("the unchecked writes are preceded by length assertions on x, y and z against tile_size^3")
    else:
        rule.bad("samples|voxel|unsafe", "get_unchecked_mut must be preceded by assertions that scratch.x/y/z hold tile_size^3 elements (found %s)" % arrs, A.where(fn))
    # gradient seeds
    seeds = {
        "xg": "Grad::new(((tile.corner[0]+i)asf32),1.0,0.0,0.0)",
        "yg": "Grad::new(((tile.corner[1]+j)asf32),0.0,1.0,0.0)",
        "zg": "Grad::new(((tile.corner[2]+k)asf32),0.0,0.0,1.0)",
    }
    for arr, f in seeds.items():
        if "self.scratch.%s[grad]=%s;" % (arr, f) in t:
            rule.ok("normal evaluation seeds %s with its own unit axis at the surface voxel" % arr)
        else:
            rule.bad("samples|voxel|seed|%s" % arr, "the gradient seed for %s must be %s" % (arr, f), A.where(fn))
    # the k-th gradient sample belongs to the pixel whose offset sits in slot k: seeds and the remembered
    # offset are written at the same running index, which then advances by one, and the results are read
    # back in step with those slots
    mo = t.fmatch("self.out[$O].depth=$Z;")
    slot = t.fmatch("self.scratch.columns[grad]=$O;", bind=mo) if mo is not None else None
    back = _normals_in_step(fn)
    if slot is not None and "(grad+=1);" in t and back:
        rule.ok("the k-th gradient result is stored in the pixel whose offset was remembered in slot k")
    else:
        rule.bad("samples|voxel|normal-slot", "the pixel offset of a surface voxel must be remembered at the same running index as its gradient seeds (`columns[grad] = o; grad += 1`) and the normals written back in step with those slots", A.where(fn))
    # every pixel whose depth is recorded also gets its gradient sample: nothing between the depth assignment
    # and the slot bookkeeping may leave the iteration (a skipped pixel keeps a zero / stale normal)
    dep = [a for a in A.find(fn["body"], "Assign") if str(txt(a["left"])).endswith(".depth")]
    slotw = [a for a in A.find(fn["body"], "Assign") if re.fullmatch(r"self\.scratch\.columns\[\w+\]", str(txt(a["left"])))]
    if len(dep) == 1 and slotw:
        lo, hi = dep[0]["ln"], max(a["ln"] for a in slotw)
        exits = [n for n in A.walk(fn["body"]) if isinstance(n, dict) and n.get("k") in ("Continue", "Break", "Return") and lo < n.get("ln", 0) <= hi]
        conds_ = [c for a in slotw for c in (A.enclosing_conds(fn["body"], a) or [])]
        conds_d = A.enclosing_conds(fn["body"], dep[0]) or []
        extra = [c for c in conds_ if c not in conds_d]
        if exits:
            rule.bad("samples|voxel|normal-skip", "a pixel whose depth was just recorded can leave the iteration before its gradient sample is queued (`%s` under `%s`): it keeps a zero or stale normal" % (A.unparse(exits[0])[:20], " && ".join(A.enclosing_conds(fn["body"], exits[0]) or [])[:80]), A.where(fn, exits[0]))
        elif extra:
            rule.bad("samples|voxel|normal-skip", "the gradient sample of a pixel whose depth was recorded is queued only under `%s`" % extra[0][:80], A.where(fn, slotw[0]))
        else:
            rule.ok("every pixel whose depth is recorded has its gradient sample queued")
    if t.fmatch("self.out[*$O].normal=[$G.dx,$G.dy,$G.dz];") is not None or t.fmatch("self.out[$O].normal=[$G.dx,$G.dy,$G.dz];") is not None:
        rule.ok("normals are read as (dx, dy, dz)")
    else:
        rule.bad("samples|voxel|normal", "the stored normal must be [g.dx, g.dy, g.dz]", A.where(fn))
    calls = [c for c in A.find(fn["body"], "MethodCall") if c["method"] == "eval_with_transform_and_vars"]
    a0 = [txt(a) for a in calls[0]["args"]] if calls else []
    a1 = [txt(a) for a in calls[1]["args"]] if len(calls) > 1 else []
    if a0[1:4] == ["&self.scratch.x[..index]", "&self.scratch.y[..index]", "&self.scratch.z[..index]"] and a1[1:4] == ["&self.scratch.xg[..grad]", "&self.scratch.yg[..grad]", "&self.scratch.zg[..grad]"]:
        rule.ok("value and gradient batches are passed as (x, y, z)")
    else:
        rule.bad("samples|voxel|args", "value / gradient batches must be passed as (x, y, z) prefixes of the scratch arrays", A.where(fn))
    rf = worker_fn(VOX, "render_tile_recurse", root)
    t = txt(rf["body"])
    for ax in "xyz":
        f = "let%s=Interval::new(base.%s,(base.%s+(tile_sizeasf32)));" % (ax, ax, ax)
        if f in t:
            rule.ok("voxel tile box %s = [corner, corner + size]" % ax)
        else:
            rule.bad("box|voxel|%s" % ax, "3D tile box %s must be [corner.%s, corner.%s + tile_size]" % (ax, ax, ax), A.where(rf))
    # early exit threshold
    # every covered pixel already at or above the tile's top: `all(all(depth >= top))`, or its De Morgan twin
    # `!any(any(depth < top))` (the comparison is on unsigned integers)
    folded = txt(A.inline_lets_deep(rf["body"]))
    # the row-offset helper read in place (so that keeping or inlining it is the same text)
    tin = txt(A.inline_helpers(rf))
    ROW = "self.tile_sizes.pixel_offset(tile.add(Vector2::new(0,$Y)))"
    early_inl = any(tin.fmatch(f_.replace("self.tile_row_offset(tile,$Y)", ROW)) is not None for f_ in (
        "if(0..tile_size).all(|$Y|{let$I={%s};(0..tile_size).all(|$X|(self.out[($I+$X)].depth>=fill_z))}){returnfalse;}" % "self.tile_row_offset(tile,$Y)",
        "if(0..tile_size).all(|$Y|{let$I=self.tile_row_offset(tile,$Y);(0..tile_size).all(|$X|(self.out[($I+$X)].depth>=fill_z))}){returnfalse;}",
        "if!(0..tile_size).any(|$Y|{let$I=self.tile_row_offset(tile,$Y);(0..tile_size).any(|$X|(self.out[($I+$X)].depth<fill_z))}){returnfalse;}",
        "if!(0..tile_size).any(|$Y|{let$I={%s};(0..tile_size).any(|$X|(self.out[($I+$X)].depth<fill_z))}){returnfalse;}" % "self.tile_row_offset(tile,$Y)",
    ))
    early = early_inl or (
        t.fmatch("if(0..tile_size).all(|$Y|{let$I=self.tile_row_offset(tile,$Y);(0..tile_size).all(|$X|(self.out[($I+$X)].depth>=fill_z))}){returnfalse;}") is not None
        or t.fmatch("let$U=(0..tile_size).any(|$Y|{let$I=self.tile_row_offset(tile,$Y);(0..tile_size).any(|$X|(self.out[($I+$X)].depth<fill_z))});if!$U{returnfalse;}") is not None
        or t.fmatch("if!(0..tile_size).any(|$Y|{let$I=self.tile_row_offset(tile,$Y);(0..tile_size).any(|$X|(self.out[($I+$X)].depth<fill_z))}){returnfalse;}") is not None
    )
    if not early and _all_filled_guard(rf):
        early = True
    if early:
        rule.ok("a tile is skipped only when every pixel under it is already at or above the tile's top")
    else:
        rule.bad("voxel|early-exit", "the early exit must require every covered pixel's depth >= corner.z + tile_size + 1", A.where(rf))


def r_zorder_root(rule, root=None):
    fn = worker_fn(VOX, "render_tile", root)
    loops = list(A.find(fn["body"], "For"))
    if not loops:
        # the same descent as a count-down: `let mut k = ceil(depth / root); while k > 0 { k -= 1; .. }`
        whiles = list(A.find(fn["body"], "While"))
        if len(whiles) == 1:
            w = whiles[0]
            cnd = str(txt(A.strip(w["cond"]))).strip("()")
            mk = re.fullmatch(r"(\w+)>0|0<(\w+)|(\w+)!=0", cnd)
            kname = next((g for g in (mk.groups() if mk else ()) if g), None)
            first = A.stmts_of(w["body"])[:1]
            dec = bool(first) and str(txt(first[0])).strip("();") in ("%s-=1" % kname, "(%s-=1)" % kname)
            init = [l_ for l_ in A.find(fn["body"], "Let") if A.binding_name(l_["pat"]) == kname and l_.get("init") is not None]
            it0 = A.resolve_locals(fn["body"], init[0]["init"]) if init else ""
            if kname and dec and it0 in ("self.image_size[2].div_ceil((self.tile_sizes[0]asu32))", "self.image_size[2].div_ceil((root_tile_sizeasu32))"):
                rule.ok("root tiles along z are visited from the top down and cover ceil(depth / root) (count-down loop)", file=VOX, line=w["ln"])
                loops = [{"body": {"k": "Block", "stmts": A.stmts_of(w["body"])[1:]}, "pat": {"k": "PIdent", "name": kname}, "ln": w["ln"], "_countdown": True}]
    if len(loops) != 1:
        rule.lost("the root z loop in voxel render_tile")
        return
    it = A.resolve_locals(fn["body"], loops[0]["iter"]) if not loops[0].get("_countdown") else "(0..self.image_size[2].div_ceil((root_tile_sizeasu32))).rev()"
    if loops[0].get("_countdown"):
        pass
    elif it in ("(0..self.image_size[2].div_ceil((self.tile_sizes[0]asu32))).rev()", "(0..self.image_size[2].div_ceil((root_tile_sizeasu32))).rev()"):
        rule.ok("root tiles along z are visited from the top down and cover ceil(depth / root)", file=VOX, line=loops[0]["ln"])
    else:
        rule.bad("voxel|root-z", "root tiles along z are iterated as `%s`; they must cover 0..ceil(depth / root) from the top down, because a full tile ends the column" % it, A.where(fn, loops[0]))
    t = txt(loops[0]["body"])
    k = A.binding_name(loops[0]["pat"])
    m = t.fmatch("let$T=Tile::new(Point3::new(tile.corner.x,tile.corner.y,((%sasusize)*root_tile_size)));" % k)
    if m is not None and (t.fmatch("if!self.render_tile_recurse(shape,0,$T){break;}", bind=m) is not None
                          or t.fmatch("let$K=self.render_tile_recurse(shape,0,$T);if!$K{break;}", bind=m) is not None
                          or t.fmatch("let$K=self.render_tile_recurse(shape,0,$T);if(!$K){break;}", bind=m) is not None):
        rule.ok("each root tile keeps the 2D corner and stacks along z; a full tile stops the descent")
    else:
        rule.bad("voxel|root-corner", "root tile corners must be (corner.x, corner.y, k * root) and a `false` result must stop the descent", A.where(fn, loops[0]))


# ---------------------------------------------------------------------------
# C09: cancellation and per-thread state


def _per_thread_init(fn):
    """`.map_init(init, |(w, rh), tile| ..)` where `init` (a closure, possibly bound by a let) builds a fresh
    `W::new(render_config, <the tile sizes>, vars)` and a `.clone()` of the render handle and returns the pair"""
    mis = [c for c in A.find(fn["body"], "MethodCall") if c["method"] == "map_init" and len(c["args"]) == 2]
    if len(mis) != 1:
        return False
    init, body = A.strip(mis[0]["args"][0]), A.strip(mis[0]["args"][1])
    if init.get("k") == "Path":
        nm = A.ident(init)
        lets = [s_ for s_ in A.find(fn["body"], "Let") if A.binding_name(s_["pat"]) == nm and s_.get("init") is not None]
        if len(lets) != 1:
            return False
        init = A.strip(lets[0]["init"])
    if init.get("k") != "Closure" or body.get("k") != "Closure" or init.get("inputs"):
        return False
    ins = body.get("inputs") or []
    if len(ins) != 2 or (ins[0].get("k") if isinstance(ins[0], dict) else None) not in ("PTuple",):
        return False
    cb = A.strip(init["body"])
    stmts = cb.get("stmts") if cb.get("k") == "Block" else None
    if not stmts:
        return False
    env = {}
    # copies of Copy parameters made outside the closure (`let ts = tile_sizes;`)
    for s_ in A.find(fn["body"], "Let"):
        n_ = A.binding_name(s_["pat"])
        i_ = A.strip(s_.get("init")) if s_.get("init") is not None else None
        if n_ and i_ is not None and i_.get("k") == "Path" and A.ident(i_):
            env[n_] = A.ident(i_)
    clone_of = {}
    worker = None
    for s_ in stmts:
        if s_.get("k") != "Let":
            continue
        n_ = A.binding_name(s_["pat"])
        i_ = A.strip(s_["init"]) if s_.get("init") is not None else None
        if i_ is None:
            continue
        if i_.get("k") == "MethodCall" and i_["method"] == "clone" and A.ident(A.strip(i_["recv"])):
            clone_of[n_] = A.ident(A.strip(i_["recv"]))
        if i_.get("k") == "Call" and (A.path_segs(i_["func"]) or [])[-2:] == ["W", "new"]:
            args = [A.ident(A.strip(a)) for a in i_["args"]]
            args = [env.get(a, a) for a in args]
            if args == ["render_config", "tile_sizes", "vars"]:
                worker = n_
    tail = A.stmt_expr(stmts[-1]) if not stmts[-1].get("semi") else None
    tail = A.strip(tail) if tail is not None else None
    if tail is None or tail.get("k") != "Tuple" or len(tail["elems"]) != 2:
        return False
    a, b = [A.ident(A.strip(e)) for e in tail["elems"]]
    return worker is not None and a == worker and clone_of.get(b) == "rh"


def r_cancel_tiles(rule, root=None):
    fn0 = A.find_fn(LIB, "render_tiles", root=root)
    # read with same-file helpers expanded in place (a per-tile helper is the same per-tile code)
    fn = dict(fn0)
    fn["body"] = A.inline_helpers(fn0)
    errs = [c for c in A.find(fn["body"], "Call") if A.is_path(c["func"], "Err")]
    if len(errs) != 2:
        rule.lost("the two cancellation sites in render_tiles (found %d)" % len(errs))
    for e in errs:
        conds = cond_chain(fn, e) or []
        if conds and conds[-1] == "eval_config.is_cancelled()":
            rule.ok("a tile aborts only when the cancel token is set", file=LIB, line=e["ln"])
        else:
            rule.bad("cancel|origin", "render_tiles produces Err(()) under `%s`; an abort may only originate from is_cancelled()" % " && ".join(conds), A.where(fn, e))
    t = txt(fn["body"])
    cols = [c for c in A.find(fn["body"], "MethodCall") if c["method"] == "collect" and "Result<Vec<_>,()>" in (c.get("turbofish") or "").replace(" ", "")]
    direct = [c for c in cols if A.strip(c["recv"]).get("k") == "MethodCall" and A.strip(c["recv"])["method"] in ("map", "map_init")]
    if len(cols) == 2 and len(direct) == 2 and t.count(".collect::<Result<Vec<_>,()>>().ok()") == 2:
        rule.ok("any aborted tile turns the whole result into None (no partial image): the per-tile Results are collected directly")
    else:
        bad = [c for c in cols if c not in direct]
        rule.bad("cancel|collect", "tile results must be collected directly from the per-tile map as Result<Vec<_>, ()> and turned into an Option; an adapter in between (`%s`) can swallow the Err and let a partial image through" % (A.strip(bad[0]["recv"])["method"] if bad and A.strip(bad[0]["recv"]).get("k") == "MethodCall" else "?"), A.where(fn, bad[0] if bad else None))
    polls = [c for c in A.find(fn["body"], "MethodCall") if c["method"] == "is_cancelled"]
    if len(polls) == 2 and all(p for p in polls):
        rule.ok("the token is polled once per tile on both the serial and the pooled path")
    else:
        rule.bad("cancel|poll", "the cancel token must be polled per tile on both paths (found %d polls)" % len(polls), A.where(fn))
    # per-thread state
    if _per_thread_init(fn):
        rule.ok("each pool thread gets its own worker and its own clone of the render handle")
    else:
        rule.bad("threads|init", "pooled rendering must give every thread a fresh worker and a clone of the handle via map_init", A.where(fn))
    if "Ok((tile,pixels))" in t and t.count("Ok((tile,pixels))") == 2:
        rule.ok("results are keyed by their tile, not by completion order")
    else:
        rule.bad("threads|keyed", "each result must carry its tile so that assembly does not depend on scheduling", A.where(fn))
    for path, label in ((PIX, "2D"), (VOX, "3D")):
        f = A.find_fn(path, "render", root=root)
        tt = txt(f["body"])
        if ")?;" in tt and "super::render_tiles::<F,Worker<F>,_>(" in tt:
            rule.ok("%s render returns None when render_tiles was cancelled" % label)
        else:
            rule.bad("cancel|%s" % label, "%s render must propagate a cancelled render_tiles as None" % label, A.where(f))


def r_effect_siblings(rule, root=None):
    """Image::apply_effect: the pooled and the serial branch chunk the pixel buffer identically"""
    fn = A.find_fn(LIB, "apply_effect", root=root)
    ifs = [i for i in A.find(fn["body"], "If") if "threads" in txt(i["cond"])]
    if len(ifs) != 1:
        rule.lost("`if let Some(threads) = threads` in Image::apply_effect")
        return
    par = [c for c in A.find(ifs[0]["then"], "MethodCall") if c["method"] == "par_chunks_mut"]
    ser = [c for c in A.find(ifs[0]["else"], "MethodCall") if c["method"] == "chunks_mut"]
    if len(par) != 1 or len(ser) != 1:
        rule.lost("par_chunks_mut / chunks_mut in Image::apply_effect")
        return
    a, b = txt(par[0]["args"][0]), txt(ser[0]["args"][0])
    from . import effects as E

    ca = E.canon(par[0]["args"][0], E.env_at(fn["body"], par[0]))
    cb = E.canon(ser[0]["args"][0], E.env_at(fn["body"], ser[0]))
    if a == b == "(self.size.width()asusize)" or ca == cb == "self.size.width()":
        rule.ok("apply_effect: both branches process rows of `width` pixels", file=LIB, line=fn["ln"])
    else:
        rule.bad("effect|chunks", "apply_effect chunks rows by `%s` with a pool and by `%s` without: the two must agree (and be the image width)" % (a, b), A.where(fn, ser[0]))
    tp = txt(ifs[0]["then"]).replace("par_chunks_mut", "chunks_mut")
    te = txt(ifs[0]["else"])
    mp = re.search(r"\.enumerate\(\)\.for_each\((\w+)\)", str(tp))
    me = re.search(r"\.enumerate\(\)\.for_each\((\w+)\)", str(te))
    rname = mp.group(1) if mp and me and mp.group(1) == me.group(1) else None
    if rname:
        rule.ok("apply_effect: both branches feed (row index, row) to the same closure")
    else:
        rule.bad("effect|closure", "both branches of apply_effect must feed enumerate()d rows to the same closure", A.where(fn))
    if ("let%s=|(y,row):(usize,&mut[P])|{for(x,v)inrow.iter_mut().enumerate(){*v=f(x,y);}};" % (rname or "r")) in txt(fn["body"]):
        rule.ok("apply_effect: pixel (x, y) receives f(x, y)")
    else:
        rule.bad("effect|xy", "apply_effect must store f(x, y) at column x of row y", A.where(fn))


REGION = "fidget-core/src/render/region.rs"


def r_view_convention(rule, root=None):
    """the sample position of a pixel is the documented screen-to-world map applied to it: centre of the
    image at the origin (y one pixel up, so that +1 lies one pixel beyond the top edge), the *shorter* axis
    spans -1..+1, y flipped; translation is applied before scaling"""
    fn = A.find_fn(REGION, "screen_to_world", self_ty="RegionSize", root=root)
    t = A.ftxt(fn["body"])
    c = t.fmatch("letmut$C=(self.size.cast::<f32>()/2.0);")
    facts = []
    facts.append(("the centre is half the size", c is not None))
    facts.append(("the centre's y is moved one pixel up", c is not None and t.fmatch("($C[1]-=1.0);", bind=c) is not None))
    # the scale is 2 / (shorter side), however the shorter side is spelled
    sc = None
    for l in A.find(fn["body"], "Let"):
        init = A.strip(l.get("init") or {})
        if init.get("k") == "Binary" and init["op"] == "/" and A.lit_value(init["left"]) == 2.0:
            den = str(A.ftxt(A.strip(init["right"])))
            sc = (A.binding_name(l["pat"]), den)
    short = sc is not None and sc[1] in ("(self.size.min()asf32)", "self.size.min()asf32", "(self.size.iter().copied().min().unwrap()asf32)", "(self.size[0].min(self.size[1])asf32)", "(self.size[1].min(self.size[0])asf32)")
    facts.append(("the shorter side spans -1..+1 (scale = 2 / size.min())", bool(short)))
    calls = [x for x in A.linear_calls(fn) if x["method"] in ("append_translation_mut", "append_nonuniform_scaling_mut", "append_scaling_mut", "append_translation", "append_nonuniform_scaling")]
    names = [x["method"].replace("_mut", "") for x in calls]
    facts.append(("translation to the centre is applied before the scaling", names == ["append_translation", "append_nonuniform_scaling"]))
    tr = t.fmatch("$O.append_translation_mut(&(-$C));", bind=c) if c is not None else None
    facts.append(("the translation is minus the centre", tr is not None))
    v = t.fmatch("letmut$V=OVector::<f32,_>::from_element($S);") if sc is None else t.fmatch("letmut$V=OVector::<f32,_>::from_element(%s);" % sc[0])
    facts.append(("y is flipped between screen and world", v is not None and t.fmatch("($V[1]*=-1.0);", bind=v) is not None and t.fmatch("$O.append_nonuniform_scaling_mut(&$V);", bind=v) is not None))
    for what, ok in facts:
        if ok:
            rule.ok("screen_to_world: %s" % what, file=REGION, line=fn["ln"])
        else:
            rule.bad("view|%s" % what[:40], "RegionSize::screen_to_world: %s - not found (the documented map puts the shorter axis on -1..+1 with +1 one pixel beyond the edge)" % what, A.where(fn))


def r_widen_2d(rule, root=None):
    """the 2D worker evaluates at cfg.mat() * (i, j, 1): widening the 3x3 view matrix to the 4x4 the shape
    takes must carry every entry (rows / columns 0, 1, 2 -> 0, 1, 3) and leave z alone"""
    fn = A.find_fn(PIX, "new", self_ty="Worker", root=root)
    body = fn["body"]
    t = str(A.ftxt(A.value_view(body)))
    emb = {0: 0, 1: 1, 2: 3}
    want = {(i, j): (emb[i], emb[j]) for i in range(3) for j in range(3)}
    got = None
    rows = [c for c in A.find(body, "MethodCall") if c["method"] == "insert_row"]
    cols = [c for c in A.find(body, "MethodCall") if c["method"] == "insert_column"]
    views = [c for c in A.find(body, "MethodCall") if c["method"] == "copy_from"]
    if len(rows) == 1 and len(cols) == 1 and not views:
        ok_args = all(A.lit_value(c["args"][0]) == 2 and A.lit_value(c["args"][1]) == 0.0 for c in rows + cols if len(c["args"]) == 2)
        src = "cfg.mat()" in t
        z = [a for a in A.find(body, "Assign") if str(A.ftxt(a["left"])).endswith("[(2,2)]") and A.lit_value(a["right"]) == 1.0]
        if ok_args and src and len(z) == 1:
            got = dict(want)
    elif views and not rows and not cols:
        # identity + block copies: `dst.fixed_view_mut::<R, C>(r, c).copy_from(&src.fixed_view::<R, C>(r2, c2))`
        got = {}
        ident = "Matrix4::identity()" in t or "Matrix4::<f32>::identity()" in t
        for c in views:
            d_ = A.strip(c["recv"])
            s_ = A.strip(c["args"][0])
            s_ = A.strip(s_["e"]) if s_.get("k") == "Ref" else s_
            m1 = re.fullmatch(r"::<(\d),(\d)>", (d_.get("turbofish") or "").replace(" ", "")) if d_.get("k") == "MethodCall" and d_["method"] == "fixed_view_mut" else None
            m2 = re.fullmatch(r"::<(\d),(\d)>", (s_.get("turbofish") or "").replace(" ", "")) if s_.get("k") == "MethodCall" and s_["method"] == "fixed_view" else None
            if not m1 or not m2 or m1.groups() != m2.groups() or not ident:
                got = None
                break
            R_, C_ = int(m1.group(1)), int(m1.group(2))
            dr, dc = [A.lit_value(a) for a in d_["args"]]
            sr, sc_ = [A.lit_value(a) for a in s_["args"]]
            for i in range(R_):
                for j in range(C_):
                    got[(sr + i, sc_ + j)] = (dr + i, dc + j)
    if got is None:
        rule.lost("how pixel::Worker::new widens cfg.mat() to 4x4 (insert_row / insert_column at 2, or identity + block copies)")
        return
    missing = sorted(k for k in want if got.get(k) != want[k])
    if missing:
        rule.bad("widen|entries", "pixel::Worker::new does not carry entries %s of cfg.mat() into the 4x4 transform (each (i, j) must land at (i', j') with 2 -> 3): a view with a perspective row / non-unit w is rendered as if it were affine" % missing, A.where(fn))
    else:
        rule.ok("the 3x3 view is embedded in the 4x4 transform entry by entry, z preserved", file=PIX, line=fn["ln"])


# ---------------------------------------------------------------------------
# axis roles of tile-local indices (C06 / C07)

_AXIS_OF_SIZE = {"width": 0, "height": 1, "depth": 2}


def _corner_axis(e):
    """`<tile>.corner[K]` / `<tile>.corner.x` -> K"""
    e = A.strip(e)
    if e.get("k") == "Index" and A.unparse(A.strip(e["e"])).replace(" ", "").endswith(".corner"):
        ix = A.strip(e["index"])
        if ix.get("k") == "Lit" and str(ix.get("v", "")).isdigit():
            return int(ix["v"])
    if e.get("k") == "Field" and e.get("member") in ("x", "y", "z") and A.unparse(A.strip(e["e"])).replace(" ", "").endswith(".corner"):
        return "xyz".index(e["member"])
    return None


def _index_roles(fn):
    """locals that split one linear index over a square tile: `i = v % n` is the x offset, `j = v / n` the y offset
    (both from the same v and n) -> {name: axis}"""
    mods, divs = {}, {}
    for s in A.find(fn["body"], "Let"):
        n = A.binding_name(s["pat"])
        init = A.strip(s.get("init")) if s.get("init") is not None else None
        if not n or init is None or init.get("k") != "Binary" or init.get("op") not in ("%", "/"):
            continue
        key = (A.unparse(init["left"]).replace(" ", ""), A.unparse(init["right"]).replace(" ", ""))
        (mods if init["op"] == "%" else divs).setdefault(key, []).append(n)
    roles = {}
    for key in set(mods) & set(divs):
        for n in mods[key]:
            roles[n] = 0
        for n in divs[key]:
            roles[n] = 1
    return roles


def r_axis_roles(rule, path, label, root=None):
    """a tile-local x offset is added to the tile's x corner, compared with the width and passed in the first
    position of an offset vector; the y offset goes with corner[1], the height, the second position"""
    d = A.load(path, root)
    n = 0
    for fn in d["_fns"]:
        if fn["_test"] or fn.get("body") is None:
            continue
        roles = _index_roles(fn)
        if not roles:
            continue
        names = {0: "x", 1: "y", 2: "z"}
        for b in A.find(fn["body"], "Binary"):
            if b.get("op") not in ("+", "-"):
                continue
            for side, other in ((b["left"], b["right"]), (b["right"], b["left"])):
                ax = _corner_axis(side)
                o = A.strip(other)
                if ax is None or o.get("k") != "Path" or len(o["segs"]) != 1 or o["segs"][0] not in roles:
                    continue
                n += 1
                v = o["segs"][0]
                if roles[v] != ax:
                    rule.bad("%s|%s|corner[%d]+%s" % (label, fn["name"], ax, v), "%s %s adds `%s`, the tile-local %s offset, to the tile's %s corner (`%s`)" % (label, fn["name"], v, names[roles[v]], names[ax], A.unparse(b)), A.where(path, b))
                else:
                    rule.ok("%s %s: `%s` pairs the %s offset with the %s corner" % (label, fn["name"], A.unparse(b), names[ax], names[ax]), file=path, line=b["ln"])
        for c in A.find(fn["body"], "Call"):
            segs = A.path_segs(c["func"]) or []
            if segs[-1:] != ["new"] or len(segs) < 2 or segs[-2] not in ("Vector2", "Vector3", "Point2", "Point3"):
                continue
            for pos, a in enumerate(c["args"]):
                a = A.strip(a)
                if a.get("k") == "Path" and len(a["segs"]) == 1 and a["segs"][0] in roles:
                    n += 1
                    v = a["segs"][0]
                    if roles[v] != pos:
                        rule.bad("%s|%s|vec|%s" % (label, fn["name"], v), "%s %s passes `%s`, the tile-local %s offset, as component %d of `%s`" % (label, fn["name"], v, names[roles[v]], pos, A.unparse(c)), A.where(path, c))
                    else:
                        rule.ok("%s %s: `%s` has `%s` in the %s position" % (label, fn["name"], A.unparse(c), v, names[pos]), file=path, line=c["ln"])
        for b in A.find(fn["body"], "Binary"):
            if b.get("op") not in ("<", "<=", ">", ">="):
                continue
            for side, other in ((b["left"], b["right"]), (b["right"], b["left"])):
                axs = {_corner_axis(x) for x in A.find(side, None, lambda q: q.get("k") in ("Index", "Field"))} - {None}
                ot = A.unparse(A.strip(other)).replace(" ", "")
                ot = A.resolve_locals(fn["body"], A.strip(other)).replace(" ", "") if hasattr(A, "resolve_locals") else ot
                size_ax = [ax for nm, ax in _AXIS_OF_SIZE.items() if nm + "()" in ot or ot == nm]
                if len(axs) == 1 and len(size_ax) == 1:
                    n += 1
                    ax = next(iter(axs))
                    if ax != size_ax[0]:
                        rule.bad("%s|%s|bound|%d" % (label, fn["name"], ax), "%s %s compares a %s coordinate with the image's %s (`%s`)" % (label, fn["name"], names[ax], [k for k, v_ in _AXIS_OF_SIZE.items() if v_ == size_ax[0]][0], A.unparse(b)), A.where(path, b))
                    else:
                        rule.ok("%s %s: `%s` bounds %s by its own extent" % (label, fn["name"], A.unparse(b), names[ax]), file=path, line=b["ln"])
    if n == 0:
        rule.skip("%s axis roles" % label, "no tile-local offsets are split from a linear index (`i = v %% n`, `j = v / n`) in this file", count=True)


def _all_filled_guard(rf):
    """does the first `return false` of the voxel recursion sit behind "every pixel under the tile is at or above the
    tile's top"?  Recognised however it is spelled: nested `.all(.. >= ..)`, `!` nested `.any(.. < ..)`, either of
    them named by a `let`, or a flag cleared inside two nested loops over 0..tile_size.  -> True / False / None"""
    body = rf["body"]
    rets = [r for r in A.find(body, "Return") if str(txt(r.get("e") or {})) == "false"]
    if not rets:
        return None
    r0 = min(rets, key=lambda r: r.get("ln", 0))
    conds = A.enclosing_conds(body, r0) or []
    if not conds:
        return False
    g = A.no_double_neg(str(conds[-1]).replace(" ", ""))
    neg = g.startswith("!")
    name = g.lstrip("!").strip("()")
    expr_t = None
    flag = None
    if re.fullmatch(r"\w+", name):
        for l_ in A.find(body, "Let"):
            if A.binding_name(l_["pat"]) == name and l_.get("init") is not None:
                if A.pat_is_mut(l_["pat"]) if hasattr(A, "pat_is_mut") else bool(l_["pat"].get("mut")):
                    flag = (l_, str(txt(l_["init"])))
                else:
                    expr_t = str(txt(l_["init"]))
    else:
        expr_t = g.lstrip("!")
    rng = r"\(?0\.\.tile_size\)?"
    row = r"(?:self\.tile_row_offset\(tile,(\w+)\)|self\.tile_sizes\.pixel_offset\(tile\.add\(Vector2::new\(0,(\w+)\)\)\))"
    if expr_t is not None:
        for quant, cmp_, want_neg in (("all", ">=", False), ("any", "<", True)):
            m = re.search(rng + r"\.%s\(\|(\w+)\|\{?(?:let(\w+)=\{?%s\}?;)?" % (quant, row) + rng + r"\.%s\(\|(\w+)\|\(?self\.out\[\(?(\w+|%s)\+(\w+)\)?\]\.depth%sfill_z" % (quant, row, re.escape(cmp_)), expr_t)
            if m and neg == want_neg:
                return True
        return False
    if flag is not None:
        l_, init = flag
        if init not in ("true", "false"):
            return False
        start_true = init == "true"
        # the flag is flipped under the per-pixel comparison inside two nested loops over 0..tile_size
        outer = [f for f in A.find(body, "For") if re.fullmatch(rng, str(txt(f["iter"]))) and f.get("ln", 0) > l_.get("ln", 0) and f.get("ln", 0) < r0.get("ln", 1 << 30)]
        for fo in outer:
            inner = [f for f in A.find(fo["body"], "For") if re.fullmatch(rng, str(txt(f["iter"])))]
            for fi in inner:
                for a in A.find(fi["body"], "Assign"):
                    if str(txt(a["left"])) != name:
                        continue
                    val = str(txt(a["right"]))
                    cs = [A.no_double_neg(str(c).replace(" ", "")) for c in (A.enclosing_conds(fi["body"], a) or [])]
                    y, x = A.binding_name(fo["pat"]), A.binding_name(fi["pat"])
                    pix = r"\(?self\.out\[\(?(\w+)\+%s\)?\]\.depth" % re.escape(x or "?")
                    below = any(re.fullmatch(pix + r"<fill_z\)?", c) for c in cs)
                    above_neg = any(re.fullmatch(r"!" + pix + r">=fill_z\)?", c) for c in cs)
                    if start_true and val == "false" and (below or above_neg) and not neg:
                        return True
                    if (not start_true) and val == "true" and (below or above_neg) and neg:
                        return True
        return False
    return False


def r_keep_going(rule, root=None):
    """voxel `render_tile_recurse` answers `false` ("stop, this column of root tiles is finished") only when every
    pixel of the tile is filled: either it already was, or the tile is full (`upper() < 0`) and has just been
    filled.  An empty tile answers `true`: geometry may still lie in the root tiles below it."""
    fn0 = worker_fn(VOX, "render_tile_recurse", root)
    ivar = _interval_var(fn0)
    fn = A.value_view(fn0)  # a named test (`let all_filled = ..; if all_filled {..}`) reads as the test itself
    cases = A.result_cases(fn["body"])
    if not cases:
        rule.lost("the results of voxel render_tile_recurse")
        return
    # a child's answer concerns the child's own pixels only: the parent visits every subtile and decides about itself
    # from its own state - an answer aggregated from the children says "stop" while another column is still open
    rec = [c for c in A.find(fn0["body"], "MethodCall") if c["method"] == "render_tile_recurse" and str(txt(c["recv"])) == "self"]
    as_stmt = set()
    for st_ in A.all_stmts(fn0["body"]):
        e_ = A.stmt_expr(st_)
        if e_ is not None and st_.get("k") == "ExprStmt":
            e_ = A.strip(e_)
            if e_.get("k") == "MethodCall" and e_["method"] == "render_tile_recurse":
                as_stmt.add(id(e_))
    used = [c for c in rec if id(c) not in as_stmt]
    if rec and not used:
        rule.ok("the recursion visits every subtile and does not let a child's answer decide for the parent", file=VOX, line=rec[0]["ln"])
    elif used:
        rule.bad("voxel|stop|children", "voxel render_tile_recurse uses the answer of its recursive call on a subtile (`%s`): `false` from a child means that child's pixels are filled, not the parent's - the other subtile columns, and the root tiles below them, still have to be rendered" % str(txt(used[0]))[:60], A.where(VOX, used[0]))
    nf = 0
    for v, conds in cases:
        t = A.unparse(v).replace(" ", "")
        cs = [A.no_double_neg(c.replace(" ", "")) for c in conds]
        if t == "true":
            rule.ok("`true` under %s" % (cs[-1:] or ["the fall-through"]), file=VOX, line=v.get("ln", fn["ln"]))
            continue
        if t != "false":
            rule.skip("voxel render_tile_recurse result `%s`" % t[:40], "not a literal", count=True)
            continue
        nf += 1
        last = cs[-1] if cs else ""
        # a test that was given a name (`let any_unfilled = ..;`) reads as the test
        mname = re.fullmatch(r"(!?)\(?(\w+)\)?", last)
        if mname:
            for l_ in A.find(fn0["body"], "Let"):
                if A.binding_name(l_["pat"]) == mname.group(2) and l_.get("init") is not None and not l_["pat"].get("mut"):
                    last = mname.group(1) + str(txt(l_["init"]))
        full = ivar is not None and last.strip("()") in ("%s.upper()<0.0" % ivar, "0.0>%s.upper()" % ivar)
        filled = ".depth" in last and ((".all(" in last and ">=" in last and ".any(" not in last and not last.startswith("!")) or (last.startswith("!") and ".any(" in last and "<" in last and ".all(" not in last and ">=" not in last))
        if not (full or filled) and nf == 1 and _all_filled_guard(fn0):
            filled = True
        if full or filled:
            rule.ok("`false` only once the tile is filled (%s)" % ("full tile" if full else "already filled"), file=VOX, line=v.get("ln", fn["ln"]))
        else:
            rule.bad("voxel|stop|%s" % ("empty" if "lower()>0.0" in last else "other"), "voxel render_tile_recurse answers `false` (stop rendering this column of root tiles) under `%s`; only a filled tile may stop the descent - an empty tile says nothing about the root tiles below it" % (last or "no condition"), A.where(VOX, v if isinstance(v, dict) and v.get("ln") else fn))
    if nf == 0:
        rule.lost("a `false` result of voxel render_tile_recurse (the early exit on filled tiles)")
    # the caller stops the z loop on `false` only
    rt = worker_fn(VOX, "render_tile", root)
    t = txt(rt["body"])
    brk = [b for b in A.find(rt["body"], "Break")]
    if not brk:
        rule.skip("voxel render_tile", "no early exit from its z loop", count=True)
    else:
        conds = A.enclosing_conds(rt["body"], brk[0]) or []
        c = A.no_double_neg(conds[-1].replace(" ", "")) if conds else ""
        # a named result (`let keep_going = self.render_tile_recurse(..); if !keep_going { break }`)
        nm_ = re.fullmatch(r"\(?!\(?(\w+)\)?\)?", c)
        if nm_:
            for l_ in A.find(rt["body"], "Let"):
                if A.binding_name(l_["pat"]) == nm_.group(1) and l_.get("init") is not None and not l_["pat"].get("mut") and "render_tile_recurse(" in str(txt(l_["init"])):
                    c = "!" + str(txt(l_["init"]))
        if c.startswith("!") and "render_tile_recurse(" in c:
            rule.ok("render_tile leaves its z loop when render_tile_recurse answers false", file=VOX, line=brk[0].get("ln", rt["ln"]))
        else:
            rule.bad("voxel|stop|caller", "voxel render_tile leaves its descending z loop under `%s`; it may only stop when render_tile_recurse answers false (column filled)" % c, A.where(VOX, brk[0]))


# ---------------------------------------------------------------------------
# the NaN-boxed 2D pixel (C06)


def _const_int(path, owner, name, root=None):
    d = A.load(path, root)
    for c in A.find(d, "Const"):
        if c.get("name") == name:
            t = A.unparse(c.get("e") or c.get("init") or c.get("value") or {}).replace(" ", "")
            if re.fullmatch(r"[0-9a-fA-Fxb_()<>|&+*-]+", t):
                try:
                    return int(eval(t, {"__builtins__": {}}, {}))  # noqa: S307 - digits and operators only
                except Exception:  # noqa: BLE001
                    return None
    return None


def r_pixel_boxing(rule, root=None):
    """`RawDistancePixel` packs either a distance or a fill record into one f32.  A distance is inside exactly under
    `v < 0.0` - a comparison, so a NaN distance is outside whatever its sign bit (hardware NaNs are negative); a fill
    is inside by its own flag; the packed fill is a NaN whose key bits cannot be confused with flag / depth bits,
    and the reader takes flag and depth from the bits the writer put them in."""
    fn = A.find_fn(PIX, "inside", self_ty="RawDistancePixel", root=root)
    ms = list(A.find(fn["body"], "Match"))
    arms = {}
    if ms:
        for arm in ms[0]["arms"]:
            segs, subs = A.pat_variant(arm["pat"])
            if segs:
                arms[segs[-1]] = (arm, subs)
    if "Value" not in arms or "Fill" not in arms:
        rule.lost("match self.unpack() { Fill .. , Value(v) .. } in RawDistancePixel::inside")
    else:
        arm, subs = arms["Value"]
        v = A.binding_name(subs[0]) if subs else None
        t = str(txt(arm["body"])).strip("()")
        if v and t in ("%s<0.0" % v, "0.0>%s" % v, "*%s<0.0" % v):
            rule.ok("a distance pixel is inside exactly under `v < 0.0` (NaN: outside)", file=PIX, line=arm["ln"])
        else:
            rule.bad("pixel|inside|value", "RawDistancePixel::inside decides a distance value with `%s`; it must be the comparison `v < 0.0`, which is false for a NaN of either sign (invalid operations on x86 produce NaNs with the sign bit set) and for -0.0" % t[:70], A.where(PIX, arm))
        arm, subs = arms["Fill"]
        t = str(txt(arm["body"]))
        if t == "inside":
            rule.ok("a filled pixel is inside by its own flag", file=PIX, line=arm["ln"])
        else:
            rule.bad("pixel|inside|fill", "a filled pixel must report its own `inside` flag, found `%s`" % t[:50], A.where(PIX, arm))
    key, mask = _const_int(PIX, "RawDistancePixel", "KEY", root), _const_int(PIX, "RawDistancePixel", "KEY_MASK", root)
    if key is None or mask is None:
        rule.skip("RawDistancePixel KEY / KEY_MASK", "constants not evaluable", count=True)
        return
    payload = (0xFF << 1) | 1
    if key & ~mask or mask & payload or key == 0 or mask & 0xFF800000:
        rule.bad("pixel|key", "KEY = %#x / KEY_MASK = %#x: the key must lie inside its mask, inside the mantissa, and clear of the flag (bit 0) and depth (bits 1-8) fields" % (key, mask), PIX)
    else:
        rule.ok("the fill key lies inside its mask and clear of the flag / depth bits", file=PIX)
    # writer
    d = A.load(PIX, root)
    fr = [f for f in d["_fns"] if f["name"] == "from" and (f.get("_owner") or {}).get("self_ty") == "RawDistancePixel" and "DistancePixel" in ((f.get("_owner") or {}).get("trait") or "")]
    wt = str(txt(fr[0]["body"])) if fr else ""
    m = re.search(r"letbits=(.+?);Self\(f32::from_bits\(bits\)\)", wt)
    if not fr or not m:
        rule.skip("RawDistancePixel::from(DistancePixel)", "the packed bits are not a single `let bits = ..`", count=True)
    else:
        terms = set(m.group(1).strip("()").replace("(", "").replace(")", "").split("|"))
        nanbits = [int(x, 16) for x in terms if re.fullmatch(r"0x[0-9a-fA-F_]+", x)]
        ok_ = ({"u32::fromdepth<<1", "u32::frominside", "Self::KEY"} <= terms or {"depthasu32<<1", "insideasu32", "Self::KEY"} <= terms) and nanbits and (nanbits[0] & 0x7F800000) == 0x7F800000
        if ok_:
            rule.ok("writer: NaN | depth << 1 | inside | KEY", file=PIX, line=fr[0]["ln"])
        else:
            rule.bad("pixel|pack", "a fill is packed as `%s`; it must be a NaN exponent | depth << 1 | inside (bit 0) | KEY" % m.group(1)[:80], A.where(PIX, fr[0]))
    un = A.find_fn(PIX, "unpack", self_ty="RawDistancePixel", root=root)
    ut = str(txt(un["body"]))
    flag_ok = ("letinside=((bits&1)==1);" in ut or "letinside=((bits&1)!=0);" in ut or "inside:((bits&1)==1)" in ut or "inside:((bits&1)!=0)" in ut)
    depth_ok = "letdepth=((bits>>1)asu8);" in ut or "depth:((bits>>1)asu8)" in ut
    value_ok = "ifself.is_distance(){DistancePixel::Value(self.0)}" in ut or "ifself.is_distance(){returnDistancePixel::Value(self.0);}" in ut or "if!self.is_distance(){" in ut and "DistancePixel::Value(self.0)" in ut
    if flag_ok and depth_ok and value_ok:
        rule.ok("reader: inside = bit 0, depth = bits 1-8, a distance is handed back unchanged", file=PIX, line=un["ln"])
    else:
        rule.bad("pixel|unpack", "unpack must read the flag from bit 0 and the depth from bits 1-8 (what the writer stored), and return a distance unchanged", A.where(PIX, un))
    isd = A.find_fn(PIX, "is_distance", self_ty="RawDistancePixel", root=root)
    it = str(txt(isd["body"]))
    it_v = str(txt(A.value_view(isd)["body"]))
    two_step = "if!self.0.is_nan(){returntrue;}" in it and ("((bits&Self::KEY_MASK)!=Self::KEY)" in it or "((self.0.to_bits()&Self::KEY_MASK)!=Self::KEY)" in it_v)
    one_expr = re.search(r"!self\.0\.is_nan\(\)\|\|\(?\(?(?:bits|self\.0\.to_bits\(\))&Self::KEY_MASK\)!=Self::KEY", it_v) is not None
    if two_step or one_expr:
        rule.ok("every non-NaN value and every NaN without the key is a distance", file=PIX, line=isd["ln"])
    else:
        rule.bad("pixel|is_distance", "is_distance must hold for every non-NaN value and for NaNs whose masked bits differ from KEY", A.where(PIX, isd))
