"""Algebra of the quadratic error function that places mesh vertices (fidget-mesh/src/qef.rs).

With unit normals n_i at intersections p_i the error of a vertex x is  E(x) = sum_i (n_i . (x - p_i))^2
= x^T (A^T A) x - 2 x^T (A^T b) + b^T b  with  A^T A = sum n n^T,  A^T b = sum n (n . p),  b^T b = sum (n . p)^2.
`add_intersection` must accumulate exactly those three sums (and the mass point as (p, 1)); `solve` must minimise
about the mass point c = m.xyz / m.w, i.e. hand the decomposition of A^T A the right-hand side A^T b - A^T A c,
add c back to the solution, and report E at the returned position (clamped from below) - that error is what the
cell-collapse test compares (C08.R4b).

The two bodies are interpreted symbolically on sympy matrices (struct fields and parameters are symbols, nalgebra's
constructors / xyz / normalize / transpose / dot are modelled; the SVD itself is opaque: its `solve` returns a
symbolic vector and records its arguments).  Nothing is evaluated numerically."""
import sympy as sp

from . import ast as A
from . import corners as CR

QEF = "fidget-mesh/src/qef.rs"
Stop, Done = CR.Stop, CR.Done


class Opaque:
    def __init__(self, what, **kw):
        self.what = what
        self.__dict__.update(kw)

    def __repr__(self):
        return "<%s>" % self.what


def _vec(prefix, n):
    return sp.Matrix([sp.Symbol("%s%d" % (prefix, i), real=True) for i in range(n)])


class MInterp(CR.Interp):
    def __init__(self, env):
        super().__init__(env)
        self.svd_of = None
        self.solve_args = None
        self.fields = {}

    def ev(self, e):
        k = e.get("k")
        if k == "Field":
            t = A.unparse(e).replace(" ", "")
            if t in self.env:
                return self.env[t]
            base = self.ev(e["e"])
            m = e["member"]
            if isinstance(base, sp.MatrixBase) and m in ("x", "y", "z", "w") and base.shape[1] == 1:
                i = "xyzw".index(m)
                if i < base.shape[0]:
                    return base[i]
            if isinstance(base, Opaque) and base.what == "svd" and m == "singular_values":
                return Opaque("singular values")
            raise Stop("field `%s`" % t)
        if k == "Call":
            segs = A.path_segs(e["func"]) or []
            if segs[-1:] == ["new"] and len(segs) >= 2 and segs[-2] in ("Vector3", "Vector4", "Vector2", "Point3"):
                return sp.Matrix([self.ev(a) for a in e["args"]])
            if segs[-1:] == ["zeros"] and len(segs) >= 2 and segs[-2] in ("Vector3", "Vector4", "Matrix3"):
                return {"Vector3": sp.zeros(3, 1), "Vector4": sp.zeros(4, 1), "Matrix3": sp.zeros(3, 3)}[segs[-2]]
            if segs[-1:] == ["from_diagonal"] and len(e["args"]) == 1:
                v = self.ev(e["args"][0])
                if isinstance(v, sp.MatrixBase):
                    return sp.diag(*list(v))
            if segs[-1:] == ["from_diagonal_element"] and len(e["args"]) == 3:
                n = self.env.get("#n")
                v = self.ev(e["args"][2])
                if n:
                    return sp.eye(n) * v
            if segs[-1:] == ["identity"] and self.env.get("#n"):
                return sp.eye(self.env["#n"])
            if segs[-2:] == ["SVD", "new"] and e["args"]:
                self.svd_of = self.ev(e["args"][0])
                return Opaque("svd")
            return super().ev(e)
        if k == "MethodCall":
            t = A.unparse(e).replace(" ", "")
            if t in self.env:
                return self.env[t]
            m = e["method"]
            args = e["args"]
            recv = self.ev(e["recv"])
            if isinstance(recv, Opaque):
                if recv.what == "svd" and m == "solve" and len(args) == 2:
                    self.solve_args = (self.ev(args[0]), args[1])
                    return Opaque("solution", v=_vec("s", 3))
                if recv.what == "solution" and m == "map" and len(args) == 1 and A.strip(args[0]).get("k") == "Closure":
                    clo = A.strip(args[0])
                    ps = clo.get("inputs", clo.get("params"))
                    sub = MInterp(self.env)
                    sub.bind(ps[0], recv.v)
                    return Opaque("solution", v=sub.ev(clo["body"]))
                if recv.what == "solution" and m in ("unwrap_or", "unwrap_or_else", "unwrap", "expect", "unwrap_or_default"):
                    return recv.v
                if recv.what == "solution" and m in ("ok", "map_err", "ok_or", "ok_or_else"):
                    return recv
                if recv.what == "svd" and m in ("unwrap", "expect", "ok_or", "ok_or_else"):
                    return recv
                return Opaque("derived from %s" % recv.what)
            if isinstance(recv, sp.MatrixBase):
                if m == "diagonal" and not args:
                    return sp.Matrix([recv[i, i] for i in range(min(recv.shape))])
                if m in ("svd", "svd_unordered") or (m in ("try_svd",)):
                    self.svd_of = recv
                    return Opaque("svd")
                if m in ("lu", "cholesky", "qr", "full_piv_lu", "col_piv_qr"):
                    self.svd_of = recv
                    return Opaque("svd")
                if m == "xyz" and not args:
                    return recv[:3, 0]
                if m == "normalize" and not args:
                    return recv / sp.sqrt((recv.T * recv)[0])
                if m == "transpose" and not args:
                    return recv.T
                if m == "dot" and len(args) == 1:
                    o = self.ev(args[0])
                    return (recv.T * o)[0]
                if m in ("norm", "magnitude") and not args:
                    return sp.sqrt((recv.T * recv)[0])
                if m in ("norm_squared", "magnitude_squared") and not args:
                    return (recv.T * recv)[0]
                if m in ("clone", "into", "into_owned") and not args:
                    return recv
                raise Stop("matrix method `.%s()`" % m)
            if m == "powi" and len(args) == 1:
                return recv ** self.ev(args[0])
            if m in ("max", "min") and len(args) == 1:
                o = self.ev(args[0])
                return sp.Max(recv, o) if m == "max" else sp.Min(recv, o)
            if m in ("abs",) and not args:
                return sp.Abs(recv)
            return super().ev(e)
        if k == "Binary":
            op = e["op"]
            if op in ("+", "-", "*", "/"):
                a, b = self.ev(e["left"]), self.ev(e["right"])
                if isinstance(a, Opaque) or isinstance(b, Opaque):
                    return Opaque("derived")
                try:
                    return {"+": lambda: a + b, "-": lambda: a - b, "*": lambda: a * b, "/": lambda: a / b}[op]()
                except Exception as ex:  # noqa: BLE001
                    raise Stop("matrix arithmetic `%s`: %s" % (A.unparse(e)[:40], ex))
            if op in ("+=", "-="):
                tgt = A.unparse(A.strip(e["left"])).replace(" ", "")
                if tgt in self.env:
                    b = self.ev(e["right"])
                    self.env[tgt] = self.env[tgt] + b if op == "+=" else self.env[tgt] - b
                    return None
            return super().ev(e)
        if k == "Index":
            v = self.ev(e["e"])
            if isinstance(v, sp.MatrixBase):
                i = self.ev(e["index"])
                if isinstance(i, int):
                    return v[i]
                if isinstance(i, tuple) and len(i) == 2:
                    return v[i[0], i[1]]
            if isinstance(v, Opaque):
                return Opaque("derived from %s" % v.what)
            return super().ev(e)
        if k == "Struct":
            out = {}
            for f in e.get("fields", []):
                out[f["name"]] = self.ev(f["e"]) if f.get("e") is not None else self.env.get(f["name"])
            return ("struct", (A.path_segs(e.get("path")) or ["?"])[-1], out)
        if k == "Closure":
            return Opaque("closure")
        if k == "Try":
            v = self.ev(e["e"])
            return v.v if isinstance(v, Opaque) and v.what == "solution" else v
        if k == "Let":
            return super().ev(e)
        try:
            return super().ev(e)
        except Stop:
            raise

    def block(self, b):
        last = None
        for s in A.stmts_of(b):
            k = s.get("k")
            if k == "Let":
                try:
                    v = self.ev(s["init"]) if s.get("init") is not None else None
                except Stop as st:
                    v = Opaque("not modelled: %s" % st)
                self.bind(s["pat"], v)
                last = None
            elif k == "ExprStmt":
                try:
                    last = self.ev(s["e"])
                except Stop as st:
                    last = Opaque("not modelled: %s" % st)
                if s.get("semi"):
                    last = None
            elif k in ("Item", "Fn", "Use", "Const"):
                continue
        return last


def _zero(m):
    if isinstance(m, sp.MatrixBase):
        return all(sp.simplify(x) == 0 for x in m)
    return sp.simplify(m) == 0


def _state():
    Am = sp.Matrix(3, 3, lambda i, j: sp.Symbol("A%d%d" % (i, j), real=True))
    return {"self.ata": Am, "self.atb": _vec("B", 3), "self.btb": sp.Symbol("C", real=True), "self.mass_point": _vec("M", 4)}


def r_qef_algebra(rule, root=None):
    # -- accumulation ---------------------------------------------------------------------------------------------
    fn = A.find_fn(QEF, "add_intersection", self_ty="QuadraticErrorSolver", root=root)
    names = [A.binding_name(p.get("pat", p)) for p in fn["sig"]["inputs"][1:] if isinstance(p, dict)]
    if len(names) != 2:
        rule.lost("add_intersection(pos, grad)")
        return
    exits = list(A.find(fn["body"], "Return"))
    if exits:
        rule.bad("qef|add|skip", "QuadraticErrorSolver::add_intersection can return without accumulating (`%s`): every sign-changing edge of a cell contributes its intersection - a solver left empty has no mass point and solves to NaN, and a threshold on the gradient's length is a threshold on the scale of the model" % (" && ".join(A.enclosing_conds(fn["body"], exits[0]) or []) or A.unparse(exits[0]))[:90], A.where(QEF, exits[0]))
    st = _state()
    env = dict(st)
    p, g = _vec("p", 3), _vec("g", 4)
    env[names[0]], env[names[1]] = p, g
    it = MInterp(env)
    try:
        it.block(fn["body"])
    except Stop as ex:
        rule.skip("QuadraticErrorSolver::add_intersection", "outside the interpreted subset: %s" % ex, count=True)
        it = None
    if it is not None:
        n = g[:3, 0] / sp.sqrt((g[:3, 0].T * g[:3, 0])[0])
        npd = (n.T * p)[0]
        want = {"self.ata": st["self.ata"] + n * n.T, "self.atb": st["self.atb"] + n * npd, "self.btb": st["self.btb"] + npd ** 2,
                "self.mass_point": st["self.mass_point"] + sp.Matrix([p[0], p[1], p[2], 1])}
        what = {"self.ata": "A^T A += n n^T", "self.atb": "A^T b += n (n . p)", "self.btb": "b^T b += (n . p)^2", "self.mass_point": "mass point += (p, 1)"}
        for f, w in want.items():
            got = it.env.get(f)
            if isinstance(got, Opaque) or got is None:
                rule.skip("add_intersection %s" % f, "its update is outside the interpreted subset", count=True)
            elif _zero(got - w):
                rule.ok("add_intersection: %s (unit normal n = grad.xyz / |grad.xyz|)" % what[f], file=QEF, line=fn["ln"])
            else:
                rule.bad("qef|add|%s" % f.split(".")[1], "QuadraticErrorSolver::add_intersection leaves %s = `%s`; the error function needs %s" % (f, sp.simplify(got - st[f]) if not isinstance(got, sp.MatrixBase) else "…", what[f]), A.where(QEF, fn))
    # -- accumulate two solvers --------------------------------------------------------------------------------------
    d = A.load(QEF, root)
    adds = [f for f in d["_fns"] if f["name"] == "add_assign" and (f.get("_owner") or {}).get("self_ty") == "QuadraticErrorSolver"]
    if not adds:
        rule.lost("AddAssign for QuadraticErrorSolver")
    else:
        fa = adds[0]
        rn = A.binding_name(fa["sig"]["inputs"][1].get("pat", fa["sig"]["inputs"][1]))
        st = _state()
        env = dict(st)
        other = {}
        for f, v in st.items():
            o = v.applyfunc(lambda x: sp.Symbol("r" + x.name, real=True)) if isinstance(v, sp.MatrixBase) else sp.Symbol("r" + v.name, real=True)
            env[f.replace("self.", rn + ".")] = o
            other[f] = o
        it2 = MInterp(env)
        try:
            it2.block(fa["body"])
            for f in st:
                got = it2.env.get(f)
                if isinstance(got, Opaque) or got is None or not _zero(got - (st[f] + other[f])):
                    rule.bad("qef|sum|%s" % f.split(".")[1], "QuadraticErrorSolver += rhs must add rhs.%s to %s (the error functions of merged cells add)" % (f.split(".")[1], f), A.where(QEF, fa))
                else:
                    rule.ok("AddAssign: %s += rhs.%s" % (f, f.split(".")[1]), file=QEF, line=fa["ln"])
        except Stop as ex:
            rule.skip("AddAssign for QuadraticErrorSolver", "outside the interpreted subset: %s" % ex, count=True)
    # -- solve -------------------------------------------------------------------------------------------------------
    fs = A.find_fn(QEF, "solve", self_ty="QuadraticErrorSolver", root=root)
    st = _state()
    it3 = MInterp(dict(st))
    try:
        res = it3.block(fs["body"])
    except Stop as ex:
        rule.skip("QuadraticErrorSolver::solve", "outside the interpreted subset: %s" % ex, count=True)
        return
    Am, B, C, Mp = st["self.ata"], st["self.atb"], st["self.btb"], st["self.mass_point"]
    center = Mp[:3, 0] / Mp[3]
    if it3.svd_of is None or isinstance(it3.svd_of, Opaque) or not _zero(it3.svd_of - Am):
        rule.bad("qef|solve|svd", "QuadraticErrorSolver::solve must decompose A^T A (`self.ata`)", A.where(QEF, fs))
    else:
        rule.ok("solve decomposes self.ata", file=QEF, line=fs["ln"])
    if it3.solve_args is None or isinstance(it3.solve_args[0], Opaque):
        rule.skip("QuadraticErrorSolver::solve right-hand side", "no `svd.solve(rhs, eps)` call was reached", count=True)
    elif _zero(it3.solve_args[0] - (B - Am * center)):
        rule.ok("solve: right-hand side A^T b - A^T A c about the mass point c = m.xyz / m.w", file=QEF, line=fs["ln"])
    else:
        rule.bad("qef|solve|rhs", "QuadraticErrorSolver::solve solves for the right-hand side `%s`; minimising about the mass point c = m.xyz / m.w needs A^T b - A^T A c" % (sp.simplify(it3.solve_args[0]).T,), A.where(QEF, fs))
    if not (isinstance(res, tuple) and len(res) == 2):
        rule.skip("QuadraticErrorSolver::solve result", "its value is not a (vertex, error) pair", count=True)
        return
    vert, err = res
    pos = vert[2].get("pos") if isinstance(vert, tuple) and vert and vert[0] == "struct" else None
    s = _vec("s", 3)
    if pos is None or isinstance(pos, Opaque):
        rule.skip("QuadraticErrorSolver::solve position", "the returned position is outside the interpreted subset", count=True)
        return
    if _zero(pos - (s + center)):
        rule.ok("solve: position = solution + mass point", file=QEF, line=fs["ln"])
    else:
        rule.bad("qef|solve|pos", "QuadraticErrorSolver::solve returns `%s`; the solution is relative to the mass point, so the vertex is solution + m.xyz / m.w" % (sp.simplify(pos).T,), A.where(QEF, fs))
    x = s + center
    E = (x.T * Am * x)[0] - 2 * (x.T * B)[0] + C
    if isinstance(err, Opaque):
        rule.skip("QuadraticErrorSolver::solve error", "the returned error is outside the interpreted subset", count=True)
        return
    core = err
    clamp = None
    if isinstance(err, sp.Max) and len(err.args) == 2:
        nums = [a for a in err.args if a.is_number]
        rest = [a for a in err.args if not a.is_number]
        if len(nums) == 1 and len(rest) == 1:
            clamp, core = nums[0], rest[0]
    if sp.simplify(sp.expand(core - E)) == 0 and (clamp is None or clamp > 0):
        rule.ok("solve: error = x^T A^T A x - 2 x^T A^T b + b^T b at the returned position%s" % ("" if clamp is None else ", clamped from below"), file=QEF, line=fs["ln"])
    else:
        rule.bad("qef|solve|err", "QuadraticErrorSolver::solve reports an error that is not E(x) = x^T A^T A x - 2 x^T A^T b + b^T b at the position it returns (difference `%s`)" % (sp.simplify(sp.expand(core - E)),), A.where(QEF, fs))


# ---------------------------------------------------------------------------------------------------------------
# Transformable for Interval / Grad: the homogeneous transform, whatever its control flow


class TInterp(MInterp):
    """adds what the `transform` bodies use: `mat.row(i)`, `mat[(i, j)]`, `[0, 1, 2, 3].map(|i| ..)`, `T::from(e)`"""

    def ev(self, e):
        k = e.get("k")
        if k == "MethodCall":
            m = e["method"]
            if m in ("row", "column") and len(e["args"]) == 1:
                recv = self.ev(e["recv"])
                i = self.ev(e["args"][0])
                if isinstance(recv, sp.MatrixBase) and isinstance(i, int):
                    return list(recv[i, :]) if m == "row" else list(recv[:, i])
            if m == "map" and len(e["args"]) == 1:
                seq = self.ev(e["recv"])
                a0 = A.strip(e["args"][0])
                clo = a0 if a0.get("k") == "Closure" else None
                if clo is None and a0.get("k") == "Path" and len(a0["segs"]) == 1:
                    f_ = self.env.get(a0["segs"][0])
                    if isinstance(f_, tuple) and f_ and f_[0] == "closure":
                        clo = f_[1]
                if clo is not None:
                    ps = clo.get("inputs", clo.get("params"))
                    if isinstance(seq, list) and len(ps) == 1:
                        out = []
                        for item in seq:
                            sub = TInterp(self.env)
                            sub.bind(ps[0], item)
                            out.append(sub.ev(clo["body"]))
                        return out
            if m in ("into", "clone") and not e["args"]:
                return self.ev(e["recv"])
        if k == "Closure":
            return ("closure", e)
        if k == "If" and e.get("else") is not None:
            c = A.strip(e["cond"])
            if c.get("k") == "Binary" and c.get("op") in ("==", "!="):
                try:
                    a_, b_ = self.ev(c["left"]), self.ev(c["right"])
                    tv_, fv_ = TInterp(self.env).ev(e["then"]), TInterp(self.env).ev(e["else"])
                    cond = sp.Eq(a_, b_) if c["op"] == "==" else sp.Ne(a_, b_)
                    return sp.Piecewise((tv_, cond), (fv_, True))
                except Stop:
                    pass
        if k == "Call":
            segs = A.path_segs(e["func"]) or []
            if segs[-1:] == ["from"] and len(e["args"]) == 1:
                return self.ev(e["args"][0])
            if segs[-2:] == ["array", "from_fn"] and len(e["args"]) == 1 and A.strip(e["args"][0]).get("k") == "Closure" and self.env.get("#from_fn_len"):
                clo = A.strip(e["args"][0])
                ps = clo.get("inputs", clo.get("params"))
                out = []
                for item in range(self.env["#from_fn_len"]):
                    sub = TInterp(self.env)
                    sub.bind(ps[0], item)
                    out.append(sub.ev(clo["body"]))
                return out
            f = self.env.get(segs[0]) if len(segs) == 1 else None
            if isinstance(f, tuple) and f and f[0] == "fn":
                fn_ = f[1]
                ps = [i_ for i_ in fn_["sig"]["inputs"] if isinstance(i_, dict) and "pat" in i_]
                if len(ps) == len(e["args"]):
                    sub = TInterp({k_: v_ for k_, v_ in self.env.items() if isinstance(v_, tuple) and v_ and v_[0] in ("fn", "closure")})
                    for p_, a_ in zip(ps, e["args"]):
                        sub.bind(p_["pat"], self.ev(a_))
                    try:
                        return sub.block(fn_["body"])
                    except Done as dn:
                        return dn.v
            if isinstance(f, tuple) and f and f[0] == "closure":
                clo = f[1]
                ps = clo.get("inputs", clo.get("params"))
                if len(ps) == len(e["args"]):
                    sub = TInterp(self.env)
                    for p_, a_ in zip(ps, e["args"]):
                        sub.bind(p_, self.ev(a_))
                    return sub.ev(clo["body"])
        if k == "Index":
            ix = A.strip(e["index"])
            if ix.get("k") == "Tuple" and len(ix["elems"]) == 2:
                v = self.ev(e["e"])
                i, j = self.ev(ix["elems"][0]), self.ev(ix["elems"][1])
                if isinstance(v, sp.MatrixBase) and isinstance(i, int) and isinstance(j, int):
                    return v[i, j]
        if k == "Unary" and e.get("op") == "*":
            return self.ev(e["e"])
        return super().ev(e)


def transform_cases(fn):
    """-> list of (conditions as {matrix symbol: value}, (x', y', z') expressions) or (None, why)"""
    import re as _re

    params = [A.binding_name(i["pat"]) for i in fn["sig"]["inputs"] if "pat" in i]
    if len(params) != 4:
        return None, "parameters"
    x, y, z = sp.symbols("x y z", real=True)
    Mt = sp.Matrix(4, 4, lambda i, j: sp.Symbol("m%d%d" % (i, j), real=True))
    env = {params[0]: x, params[1]: y, params[2]: z, params[3]: Mt}
    it = TInterp(env)
    for st in A.walk(fn["body"]):
        if isinstance(st, dict) and st.get("k") == "Fn" and st.get("body") is not None and st is not fn:
            it.env[st["name"]] = ("fn", st)
    import re as _re2

    for s in A.find(fn["body"], "Let"):
        if s.get("init") is None:
            continue
        mlen = _re2.search(r";\s*(\d+)\s*\]", A.unparse(s["pat"])) if s["pat"].get("k") == "PType" else None
        it.env["#from_fn_len"] = int(mlen.group(1)) if mlen else None
        try:
            v = it.ev(s["init"])
        except Exception as ex:  # noqa: BLE001
            v = Opaque("not modelled: %s" % ex)
        try:
            it.bind(s["pat"], v)
        except Exception:  # noqa: BLE001
            pass
    out = []
    for val, conds in A.result_cases(fn["body"]):
        sub = {}
        named = {A.binding_name(l_["pat"]): A.unparse(l_["init"]).replace(" ", "") for l_ in A.find(fn["body"], "Let") if l_.get("init") is not None and A.binding_name(l_["pat"])}
        for c in conds:
            t = c.replace(" ", "")
            bare = t.lstrip("!").strip("()")
            if bare in named:  # a guard that was given a name
                t = ("!" if t.startswith("!") else "") + named[bare]
            neg = t.startswith("!")
            atoms = t.lstrip("!").strip("()").split("&&")
            if neg:
                continue  # the general case: nothing is known
            for a in atoms:
                m = _re.fullmatch(r"\(*\*?(\w+)\[\((\d),(\d)\)\]==(-?[\d.]+)(?:f32)?\)*", a)
                if not m or m.group(1) != params[3]:
                    return None, "a condition `%s` is not an equation on a matrix entry" % c
                sub[Mt[int(m.group(2)), int(m.group(3))]] = sp.nsimplify(float(m.group(4)))
        try:
            v = it.ev(val)
        except Exception as ex:  # noqa: BLE001
            return None, "result `%s`: %s" % (A.unparse(val)[:40], ex)
        if not (isinstance(v, tuple) and len(v) == 3) or any(isinstance(q, Opaque) or q is None for q in v):
            return None, "result `%s` is not a triple of modelled values" % A.unparse(val)[:40]
        out.append((sub, v, val))
    rows = [Mt[i, 0] * x + Mt[i, 1] * y + Mt[i, 2] * z + Mt[i, 3] for i in range(4)]
    want = tuple(rows[i] / rows[3] for i in range(3))
    return (out, want), None
