"""Dataflow checks over the x86_64 assemblers (see DESIGN.md E3)."""
from . import ast as A
from . import asm as M
from . import jit as J
from . import opcodes as O
from . import terms as T

TRACING = ("point", "interval")
BULK = ("float_slice", "grad_slice")
ALL = TRACING + BULK

SCRATCH_GPR = {"rax", "r8", "r9", "r10", "r11"}
SCRATCH_VEC = {"0", "1", "2", "3"}
CHOICE_BUILDERS = ("build_min", "build_max", "build_and", "build_or")
NON_OP = ("init", "finalize", "call_fn_unary", "call_fn_binary", "ensure_callee_regs_saved", "bytes_per_clause")


def path_of(kind):
    return "fidget-jit/src/x86_64/%s.rs" % kind


def short(kind):
    return kind


def stream(b, builders):
    """the builder's instruction stream in source order, with `self.load_imm(..)`
    calls inlined (they emit code at that point).  Returns (ins, notes)."""
    events = []
    for m, head, ins in b.blocks:
        events.append((m["ln"], "block", ins))
    for name, args, node in b.helper_calls:
        if name == "load_imm" and "load_imm" in builders and b.name != "load_imm":
            events.append((node["ln"], "block", M.flat_ins(builders["load_imm"])))
    events.sort(key=lambda x: x[0])
    out = []
    for _ln, _k, ins in events:
        out.extend(ins)
    return out


def conditional_blocks(b):
    """dynasm blocks nested under if / match / for inside the builder"""
    n = 0
    unrolled = getattr(b, "unrolled", set())
    for ctl in A.find(b.fn["body"], None, lambda x: x.get("k") in ("If", "Match", "For", "While", "Loop")):
        if ctl.get("k") == "For" and all(id(m) in unrolled for m in A.find(ctl, "Macro") if m.get("name") == "dynasm"):
            continue  # a constant-trip loop, read as its instructions written out (asm._unroll)
        for m in A.find(ctl, "Macro"):
            if m.get("name") == "dynasm":
                n += 1
    return n


def out_param(b):
    if not b.params:
        return None
    n, ty = b.params[0]
    if ty == "u8" and (n.startswith("out") or n.startswith("dst")):
        return n
    return None


def op_builders(builders):
    return {k: v for k, v in builders.items() if (k.startswith("build_") or k == "load_imm") and k not in NON_OP}


# ---------------------------------------------------------------------------
# 1. write discipline


def check_write_discipline(rule, kind, root=None):
    p = path_of(kind)
    builders = M.load_builders(p, root)
    for name, b in sorted(op_builders(builders).items()):
        ins = stream(b, builders)
        if not ins:
            continue
        outp = out_param(b)
        probs = []
        for x in ins:
            e = M.effect(x)
            if e.unknown:
                probs.append((x.ln, "unknown instruction `%r` (no read/write model; fails closed)" % x))
                continue
            for o in e.writes:
                if o.kind == "vec":
                    if o.name.startswith("T:"):
                        if o.name != "T:%s" % outp:
                            probs.append((x.ln, "`%r` writes the input register %s" % (x, o.name[2:])))
                    elif o.name.startswith("?"):
                        probs.append((x.ln, "`%r` writes an unresolved register `%s`" % (x, o.name)))
                    elif o.name not in SCRATCH_VEC:
                        probs.append((x.ln, "`%r` writes xmm%s, which holds a live tape register (only xmm0-3 are scratch)" % (x, o.name)))
                else:
                    if o.name in SCRATCH_GPR:
                        continue
                    if o.name == "rsi" and kind in TRACING and name in CHOICE_BUILDERS and x.mnem == "add":
                        continue
                    probs.append((x.ln, "`%r` writes %s, which is not a scratch register here" % (x, o.name)))
            for o in e.mem_writes:
                t = o.text
                ok = False
                if kind in TRACING and name in CHOICE_BUILDERS and t in ("rsi", "rdx"):
                    ok = True
                elif name == "build_store" and o.regs == ["rsp"] and o.sym == ["+sp_offset"] and o.off == 0:
                    ok = True
                elif name == "build_output" and kind in TRACING and o.regs == ["rcx"] and o.sym == ["+pos"]:
                    ok = True
                elif name == "build_output" and kind in BULK and sorted(o.regs) == ["r8", "rcx"] and not o.sym and o.off == 0:
                    ok = True
                if not ok:
                    probs.append((x.ln, "`%r` stores to [%s], which this builder must not touch" % (x, t)))
        if probs:
            for ln, msg in probs:
                rule.bad("%s|%s|%s" % (kind, name, msg[:50]), "%s %s: %s" % (kind, name, msg), "%s:%d" % (p, ln))
        else:
            rule.ok("%s %s writes only its output, xmm0-3 and scratch GPRs" % (kind, name), file=p, line=b.fn["ln"])


# ---------------------------------------------------------------------------
# may-be-immediate operands


def imm_positions(root=None):
    """builder name -> set of parameter positions that the dispatch (and the trait's
    default helpers) may fill with the immediate register"""
    fn = A.find_fn(J.LIB, "build_asm_fn_with_storage", root=root)
    ms = O.match_on(fn, "RegOp", min_arms=20)
    helpers, _sigs, _t = J.trait_helpers(root)
    payloads = dict(O.reg_variants(root))
    out = {}
    for variant, subs, arm in O.arms_by_variant(ms[0], "RegOp"):
        if variant is None:
            continue
        names = [A.binding_name(s) for s in (subs or [])]
        immvars = set()
        for s in A.stmts_of(arm["body"]):
            if s.get("k") == "Let" and "load_imm" in A.unparse(s.get("init")):
                immvars.add(A.binding_name(s["pat"]))
        for c in A.find(arm["body"], "MethodCall"):
            if not c["method"].startswith("build_"):
                continue
            for i, a in enumerate(c["args"]):
                if A.ident(A.strip(a)) in immvars:
                    out.setdefault(c["method"], set()).add(i)
            h = helpers.get(c["method"])
            if h and "target" in h:
                for i, r in enumerate(h["roles"]):
                    if r == "I":
                        out.setdefault(h["target"], set()).add(i)
    return out


# ---------------------------------------------------------------------------
# 2/3. hazards (path sensitive)


def check_hazards(rule, kind, root=None):
    p = path_of(kind)
    builders = M.load_builders(p, root)
    immpos = imm_positions(root)
    # propagate may-imm into the call helpers
    helper_imm = {}
    for name, b in builders.items():
        for hn, args, _n in b.helper_calls:
            if hn.startswith("call_fn"):
                for i, a in enumerate(args):
                    for pos in immpos.get(name, ()):
                        if pos < len(b.params) and b.params[pos][0] == a:
                            helper_imm.setdefault(hn, set()).add(i)
    for name, b in sorted(builders.items()):
        if name in ("init", "finalize", "ensure_callee_regs_saved", "load_imm", "bytes_per_clause"):
            continue
        ins = stream(b, builders)
        if not ins:
            continue
        if conditional_blocks(b):
            rule.skip("%s %s" % (kind, name), "dynasm blocks under Rust control flow")
            continue
        outp = out_param(b)
        inputs = [n for (n, ty) in b.params if ty == "u8" and n != outp]
        may_imm = set()
        for pos in (immpos.get(name, set()) | helper_imm.get(name, set())):
            if pos < len(b.params):
                may_imm.add(b.params[pos][0])
        succ, cprobs = M.build_cfg(ins)
        for ln, msg in cprobs:
            rule.bad("%s|%s|cfg|%s" % (kind, name, msg[:30]), "%s %s: %s" % (kind, name, msg), "%s:%d" % (p, ln))
        paths, cyclic = M.enumerate_paths(ins, succ)
        if cyclic:
            rule.bad("%s|%s|cyclic" % (kind, name), "%s %s contains a backward jump; builders must be loop-free" % (kind, name), A.where(p, b.fn))
            continue
        found = set()
        for path in paths:
            out_written = False
            x0_written = False
            for i in path:
                if isinstance(i, str):
                    continue
                x = ins[i]
                e = M.effect(x)
                if e.kind in ("label", None):
                    continue
                rv = [o for o in e.reads if o.kind == "vec"]
                # the zeroing / all-ones idioms name a register twice without reading its value
                self_idiom = len({o.name for o in x.ops if o.kind == "vec"}) == 1 and _re.fullmatch(r"v?p?(xor|sub|cmpeq)(ps|pd|d|q|w|b)?", x.mnem or "")
                for o in rv:
                    if o.name.startswith("T:"):
                        pn = o.name[2:]
                        # scalar / insert forms pass the destination's other lanes through: that is a merge, not a use
                        vec_ops = [q for q in x.ops if q.kind == "vec"]
                        merge = (
                            bool(_re.search(r"(ss|sd)$", x.mnem or "")) and vec_ops and vec_ops[0].name == o.name
                            and (len(vec_ops) == 2 or (len(vec_ops) >= 2 and vec_ops[1].name == o.name and all(q.name != o.name for q in vec_ops[2:])))
                        ) or (
                            bool(_re.fullmatch(r"v?pinsr[bwdq]|v?insertps|v?movlhps|v?movhlps|v?movlps|v?movhps", x.mnem or "")) and vec_ops and vec_ops[0].name == o.name
                        )
                        if pn == outp and not out_written and not self_idiom and not merge and name in op_builders(builders):
                            found.add((x.ln, "stale-out", "`%r` reads the output register `%s` before anything was written to it: it holds an unrelated value unless the allocator happened to give the operand the same register" % (x, pn)))
                        if out_written and pn in inputs:
                            found.add((x.ln, "alias", "`%r` reads input `%s` after the output register was written; the allocator may assign them the same register" % (x, pn)))
                        if x0_written and pn in may_imm:
                            found.add((x.ln, "imm", "`%r` reads `%s` after xmm0 was overwritten; the dispatch may pass the immediate register (xmm0) for it" % (x, pn)))
                if e.kind == "call":
                    x0_written = True
                for o in e.writes:
                    if o.kind == "vec":
                        if o.name == "T:%s" % outp:
                            out_written = True
                        if o.name == "0":
                            x0_written = True
        # every path of an op builder defines its output register (a path that leaves it
        # untouched returns whatever the register held: right only if the allocator
        # happened to alias it with the wanted operand)
        if outp and name in op_builders(builders) and not b.helper_calls:
            for path in paths:
                wrote = False
                last = None
                for i in path:
                    if isinstance(i, str):
                        continue
                    last = ins[i]
                    if any(o.kind == "vec" and o.name == "T:%s" % outp for o in M.effect(ins[i]).writes):
                        wrote = True
                if not wrote and last is not None:
                    labels = [repr(ins[i]) for i in path if not isinstance(i, str) and M.effect(ins[i]).kind in ("jmp", "jcc")]
                    found.add((b.fn["ln"], "undef", "the path through %s never writes the output register `%s`" % (" , ".join(labels[:4]) or "the straight line", outp)))
        if found:
            for ln, k, msg in sorted(found):
                rule.bad("%s|%s|%s|%s" % (kind, name, k, msg[:40]), "%s %s: %s" % (kind, name, msg), "%s:%d" % (p, ln))
        else:
            rule.ok("%s %s: %d path(s), inputs %s, may-be-imm %s" % (kind, name, len(paths), inputs, sorted(may_imm)), file=p, line=b.fn["ln"])


# ---------------------------------------------------------------------------
# 4. choice protocol


def _imm_text(o):
    return o.text.replace(" ", "") if o.kind == "imm" else None


def check_choice_protocol(rule, kind, root=None):
    p = path_of(kind)
    builders = M.load_builders(p, root)
    for name, b in sorted(op_builders(builders).items()):
        ins = stream(b, builders)
        if not ins:
            continue
        touches = []
        for x in ins:
            e = M.effect(x)
            for o in e.mem_writes + e.mem_reads:
                if o.regs in (["rsi"], ["rdx"]) and not o.sym and o.off == 0:
                    touches.append((x, o))
            for o in e.writes:
                if o.kind == "gpr" and o.name in ("rsi", "rdx"):
                    touches.append((x, o))
        if kind in BULK or name not in CHOICE_BUILDERS:
            if kind in TRACING and touches:
                rule.bad("%s|%s|touch" % (kind, name), "%s %s is not a choice op but touches the choice / simplify pointers (`%r`)" % (kind, name, touches[0][0]), "%s:%d" % (p, touches[0][0].ln))
            elif kind in TRACING:
                rule.ok("%s %s leaves rsi/rdx alone" % (kind, name))
            continue
        if conditional_blocks(b):
            rule.bad("%s|%s|conditional" % (kind, name), "choice builder has dynasm blocks under Rust control flow", A.where(p, b.fn))
            continue
        succ, cprobs = M.build_cfg(ins)
        paths, cyclic = M.enumerate_paths(ins, succ)
        outp = out_param(b)
        lhs_n, rhs_n = [n for (n, ty) in b.params if ty == "u8" and n != outp][:2]
        found = set()
        for path in paths:
            writes = []
            bumps = []
            flag = []
            order = []
            last_out_src = None
            for i in path:
                if isinstance(i, str):
                    continue
                x = ins[i]
                e = M.effect(x)
                if e.kind in ("label", None):
                    continue
                for o in e.mem_writes:
                    if o.regs == ["rsi"] and not o.sym and o.off == 0:
                        if x.mnem != "or":
                            found.add((x.ln, "the choice slot must be OR-ed into (`or [rsi], ..`), found `%r`" % x))
                        writes.append(x)
                        order.append("w")
                    elif o.regs == ["rdx"] and not o.sym and o.off == 0:
                        if x.mnem != "or":
                            found.add((x.ln, "the simplify flag must be OR-ed into, found `%r`" % x))
                        flag.append(x)
                for o in e.writes:
                    if o.kind == "gpr" and o.name == "rsi":
                        t = _imm_text(x.ops[1]) if len(x.ops) == 2 else None
                        if x.mnem == "add" and t in ("1", "1i8", "1i32"):
                            bumps.append(x)
                            order.append("b")
                        elif x.mnem == "inc":
                            bumps.append(x)
                            order.append("b")
                        else:
                            found.add((x.ln, "`%r` changes the choice pointer by something other than one slot" % x))
                    if o.kind == "gpr" and o.name == "rdx":
                        found.add((x.ln, "`%r` overwrites the simplify pointer" % x))
                    if o.kind == "vec" and o.name == "T:%s" % outp:
                        srcs = [r.name for r in e.reads if r.kind == "vec" and r.name != "T:%s" % outp]
                        last_out_src = (x, srcs)
            pdesc = "path via lines %s" % ",".join(str(ins[i].ln) for i in path if not isinstance(i, str) and M.effect(ins[i]).kind in ("jcc", "jmp"))
            if len(writes) != 1:
                found.add((b.fn["ln"], "%s: the choice slot is written %d times (must be exactly once)" % (pdesc, len(writes))))
            if len(bumps) != 1:
                found.add((b.fn["ln"], "%s: the choice pointer is advanced %d times (must be exactly once per choice op)" % (pdesc, len(bumps))))
            if order and order != ["w", "b"] and len(writes) == 1 and len(bumps) == 1:
                found.add((b.fn["ln"], "%s: the choice pointer is advanced before the slot is written" % pdesc))
            if len(writes) == 1:
                w = writes[0]
                src = w.ops[1]
                t = _imm_text(src)
                const = None
                if t is not None:
                    for c in ("CHOICE_LEFT", "CHOICE_RIGHT", "CHOICE_BOTH"):
                        if t.startswith(c):
                            const = c
                if const in ("CHOICE_LEFT", "CHOICE_RIGHT"):
                    if len(flag) != 1:
                        found.add((w.ln, "%s: records %s (a decided choice) but sets the simplify flag %d times" % (pdesc, const, len(flag))))
                    # the value kept must be the chosen operand
                    want = "T:%s" % (lhs_n if const == "CHOICE_LEFT" else rhs_n)
                    if last_out_src is None:
                        found.add((w.ln, "%s: records %s but never writes the output" % (pdesc, const)))
                    elif want not in last_out_src[1] or ("T:%s" % (rhs_n if const == "CHOICE_LEFT" else lhs_n)) in last_out_src[1]:
                        found.add((last_out_src[0].ln, "%s: records %s but the output is taken from %s (expected `%s` only)" % (pdesc, const, last_out_src[1], want[2:])))
                elif const == "CHOICE_BOTH":
                    if flag:
                        found.add((w.ln, "%s: records CHOICE_BOTH (undecided) but also sets the simplify flag" % pdesc))
                elif src.kind == "gpr":
                    # computed choice (and/or): the flag must be set on this path
                    if len(flag) != 1:
                        found.add((w.ln, "%s: records a computed choice but sets the simplify flag %d times" % (pdesc, len(flag))))
                else:
                    found.add((w.ln, "%s: unrecognised choice value `%s`" % (pdesc, src.text)))
        if found:
            for ln, msg in sorted(found):
                rule.bad("%s|%s|%s" % (kind, name, msg.split(": ", 1)[-1][:50]), "%s %s: %s" % (kind, name, msg), "%s:%d" % (p, ln))
        else:
            rule.ok("%s %s: %d paths, each ORs one choice, advances rsi once, flag iff decided" % (kind, name, len(paths)), file=p, line=b.fn["ln"])


# ---------------------------------------------------------------------------
# 7. label hygiene


def check_labels(rule, kind, root=None):
    p = path_of(kind)
    builders = M.load_builders(p, root)
    for name, b in sorted(builders.items()):
        ins = M.flat_ins(b)
        local_defs = [x for x in ins if x.label is not None and not x.glob]
        local_refs = [o for x in ins for o in x.ops if o.kind == "label" and not o.glob]
        if not local_defs and not local_refs:
            continue
        succ, cprobs = M.build_cfg(ins)
        probs = [m for _l, m in cprobs]
        names = [x.label for x in local_defs]
        if len(set(names)) != len(names):
            probs.append("local label defined twice in one builder (%s)" % names)
        unused = set(names) - {o.name for o in local_refs}
        if b.commit_local < 1:
            probs.append("uses local labels but never calls commit_local(): a later builder's `>%s` would bind to this one's label" % names[0])
        if probs:
            for m in probs:
                rule.bad("%s|%s|%s" % (kind, name, m[:40]), "%s %s: %s" % (kind, name, m), A.where(p, b.fn))
        else:
            rule.ok("%s %s: %d local labels, committed" % (kind, name, len(names)), file=p, line=b.fn["ln"])


# ---------------------------------------------------------------------------
# lints


INT_CMP = ("vpcmpeqd", "vpcmpeqw", "vpcmpeqb", "vpcmpeqq", "pcmpeqd", "pcmpeqw", "pcmpeqb", "vpcmpgtd", "pcmpgtd")


def check_int_compare(rule, kind, root=None):
    """integer compares are used only as the all-ones idiom (same register on
    every operand); an integer compare of float data tells -0.0 from +0.0 and
    NaN payloads apart, unlike the interpreter's `==`"""
    p = path_of(kind)
    builders = M.load_builders(p, root)
    n = 0
    for name, b in sorted(builders.items()):
        for x in M.flat_ins(b):
            if x.mnem in INT_CMP:
                n += 1
                names = {(o.kind, getattr(o, "name", None)) for o in x.ops}
                if len(names) != 1 or x.mnem.endswith("gtd"):
                    rule.bad("%s|%s|%s" % (kind, name, x.mnem), "%s %s: `%r` compares float data as integers (the interpreter compares as f32: -0.0 == 0.0, NaN != NaN)" % (kind, name, x), "%s:%d" % (p, x.ln))
                else:
                    rule.ok("%s %s: `%r` is the all-ones idiom" % (kind, name, x))
        # the same mistake through a general register: the bits of a tape value moved to a GPR and tested for zero
        # (`vmovd eax, x; test eax, eax`) - true for +0.0 only.  (rand / mix compare two bit patterns with each
        # other, which is what they mean.)
        if name in ("build_rand", "build_mix"):
            continue
        holds = {}
        for x in stream(b, builders):
            if x.label is not None:
                continue
            if x.mnem in ("vmovd", "movd", "vmovq", "movq") and len(x.ops) == 2 and x.ops[0].kind == "gpr" and x.ops[1].kind == "vec" and x.ops[1].name.startswith("T:"):
                holds[x.ops[0].name] = x.ops[1].name
                continue
            if x.mnem in ("test", "cmp") and len(x.ops) == 2 and x.ops[0].kind == "gpr" and x.ops[0].name in holds:
                zero_test = (x.ops[1].kind == "gpr" and x.ops[1].name == x.ops[0].name and x.mnem == "test") or (x.ops[1].kind == "imm" and x.ops[1].text.replace(" ", "") in ("0", "0i8", "0i32", "0x0"))
                if zero_test:
                    n += 1
                    rule.bad("%s|%s|gpr-zero-test" % (kind, name), "%s %s: `%r` tests the bit pattern of `%s` for zero; the interpreter tests `== 0.0`, which -0.0 also satisfies" % (kind, name, x, holds[x.ops[0].name][2:]), "%s:%d" % (p, x.ln))
            e_ = M.effect(x)
            for o in e_.writes:
                if o.kind == "gpr" and o.name in holds and x.mnem not in ("test", "cmp"):
                    holds.pop(o.name, None)
    return n


import re as _re

_MAGIC = _re.compile(r"(0x[0-9a-fA-F_]{5,}|to_bits|(?<![\w.])-?\d{6,})")


def magic_constants(b):
    out = set()
    for x in M.flat_ins(b):
        for o in x.ops:
            if o.kind == "imm":
                t = o.text.replace(" ", "")
                if _MAGIC.search(t) and "addr" not in t and "imm" not in t:
                    out.add(_canon_const(_re.sub(r"(u32|i32|u8|i8)?as(i32|u32|i8|u8)$", "", t).strip("()")))
    return out


def _canon_const(t):
    """a constant by its value: `0x3f800000`, `1f32.to_bits()`, `(-0.0f32).to_bits()`, `-1403630843` and
    `2891336453` (the same 32 bits) all become one hexadecimal spelling; anything else stays text"""
    import struct as _struct

    u = t.replace("_", "")
    m = _re.fullmatch(r"\(?(-?[\d.]+(?:e-?\d+)?)(?:f32)?\)?\.to_bits(?:\(\))?", u)
    if m:
        try:
            return "%#010x" % _struct.unpack("<I", _struct.pack("<f", float(m.group(1))))[0]
        except Exception:  # noqa: BLE001
            return t
    m = _re.fullmatch(r"(-?(?:0x[0-9a-fA-F]+|\d+))(?:u32|i32|u64|i64)?", u)
    if m:
        try:
            return "%#010x" % (int(m.group(1), 0) & 0xFFFFFFFF)
        except Exception:  # noqa: BLE001
            return t
    return t


def check_magic_constants(rule, root=None, focus=None):
    """sibling assemblers that implement the same scalar algorithm use the same magic
    constants: for each builder the non-empty constant sets form a chain by inclusion.
    With `focus`, only disagreements in which the focus assembler is the odd one out
    (or no majority exists) are reported."""
    sets = {}
    for kind in ALL:
        for name, b in M.load_builders(path_of(kind), root).items():
            if name in NON_OP or name == "load_imm":
                continue
            s = magic_constants(b)
            if s:
                sets.setdefault(name, {})[kind] = (s, b)
    for name, per in sorted(sets.items()):
        kinds = sorted(per)
        if focus is not None and focus not in per:
            continue
        conflicts = []
        for i, a in enumerate(kinds):
            for bk in kinds[i + 1:]:
                sa, sb = per[a][0], per[bk][0]
                if not (sa <= sb or sb <= sa):
                    conflicts.append((a, bk))
        if focus is not None:
            mine = [c for c in conflicts if focus in c]
            others = [k for k in kinds if k != focus]
            # the focus is at fault only if it disagrees with siblings that agree among themselves
            others_agree = not any(c for c in conflicts if focus not in c)
            conflicts = mine if (mine and (others_agree and len(mine) == len(others) or len(others) == 1)) else []
        if conflicts:
            for a, bk in conflicts:
                sa, sb = per[a][0], per[bk][0]
                rule.bad("%s|%s~%s" % (name, a, bk), "%s: %s uses constants %s but %s uses %s; sibling implementations of one opcode must agree" % (name, a, sorted(sa - sb), bk, sorted(sb - sa)), "%s:%d" % (path_of(a), per[a][1].fn["ln"]))
        else:
            rule.ok("%s: constants agree across %s" % (name, kinds), consts=sorted(per[kinds[0]][0])[:4])


STRICT = {"ja", "jb"}
NONSTRICT = {"jae", "jbe", "jna", "jnb", "jnae", "jnbe", "jc", "jnc"}


def check_strictness(rule, root=None):
    """min/max choices are decided by strict comparisons in the interpreter
    (`<`, `>`); the native sequences must branch on strict conditions too"""
    refs = [
        ("fidget-core/src/types/interval.rs", "Interval", None, ("min_choice", "max_choice")),
        ("fidget-core/src/types/float.rs", "f32", "FloatExt", ("min_choice", "max_choice")),
    ]
    rust_strict = True
    for path, ty, tr, names in refs:
        for n in names:
            fn = A.find_fn(path, n, self_ty=ty, trait=tr, root=root)
            ops = [b["op"] for b in A.find(fn["body"], "Binary") if b["op"] in ("<", ">", "<=", ">=")]
            if not ops:
                rule.lost("comparisons in %s::%s" % (ty, n))
                continue
            if any(o in ("<=", ">=") for o in ops):
                rust_strict = False
            rule.ok("%s::%s decides with %s" % (ty, n, sorted(set(ops))), file=path, line=fn["ln"])
    for kind in TRACING + BULK:
        builders = M.load_builders(path_of(kind), root)
        for name in ("build_min", "build_max"):
            b = builders.get(name)
            if b is None:
                continue
            js = [x for x in M.flat_ins(b) if x.mnem in STRICT | NONSTRICT]
            if kind in TRACING and not js:
                rule.lost("conditional jumps in %s %s" % (kind, name))
                continue
            # after (v)comiss an unordered pair sets CF: jb / jbe / jc are taken for a NaN operand unless a `jp`
            # earlier in the sequence already sent NaNs elsewhere (ja is false for unordered operands)
            if kind in TRACING:
                screened = False
                for x in M.flat_ins(b):
                    if x.label is not None:
                        continue
                    if x.mnem in ("comiss", "vcomiss", "ucomiss", "vucomiss"):
                        screened = False
                    elif x.mnem in ("jp", "jnp"):
                        screened = True
                    elif x.mnem in ("jb", "jbe", "jc", "jnae", "jna") and not screened:
                        rule.bad("%s|%s|%s|nan" % (kind, name, x.mnem), "%s %s branches on `%s` before any `jp`: the carry flag is also set when an operand is NaN, so a NaN operand records a decided choice where the interpreter records Both" % (kind, name, x.mnem), "%s:%d" % (path_of(kind), x.ln))
            for x in js:
                if (x.mnem in NONSTRICT) == rust_strict:
                    rule.bad("%s|%s|%s" % (kind, name, x.mnem), "%s %s branches on `%s` but the interpreter decides this choice with a %s comparison: the two disagree when the operands touch" % (kind, name, x.mnem, "strict" if rust_strict else "non-strict"), "%s:%d" % (path_of(kind), x.ln))
                else:
                    rule.ok("%s %s `%r`" % (kind, name, x))


# ---------------------------------------------------------------------------
# single-instruction builders: mnemonic family and operand order


SIMPLE = {"build_add": "add", "build_sub": "sub", "build_mul": "mul", "build_div": "div", "build_sqrt": "sqrt", "build_square": "mul"}
ROUND_MODE = {"build_floor": "1", "build_ceil": "2"}
MOVE_WIDTH = {"point": ({"vmovss", "movss"}, 16), "interval": ({"vmovq", "movq", "vmovsd"}, 16), "float_slice": ({"vmovups", "vmovaps"}, 32), "grad_slice": ({"vmovups", "vmovaps"}, 16)}


_FP_ARITH = _re.compile(r"v?(add|sub|mul|div|sqrt|rcp|rsqrt|fmadd\w*|fmsub\w*|fnmadd\w*)(ss|ps|sd|pd)")


def check_simple_builders(rule, kind, root=None, only=None):
    p = path_of(kind)
    builders = M.load_builders(p, root)
    for name, b in sorted(builders.items()):
        if only is not None and name not in only:
            continue
        ins = [x for x in stream(b, builders) if x.label is None]
        if b.helper_calls:
            continue
        params = [n for n, ty in b.params]
        key = "%s|%s" % (kind, name)
        if name in SIMPLE and len(ins) == 1:
            x = ins[0]
            regs = [o.name for o in x.ops if o.kind == "vec"]
            if name == "build_sqrt":
                want = ["T:%s" % params[0], "T:%s" % params[1]]
            elif name == "build_square":
                want = ["T:%s" % params[0], "T:%s" % params[1], "T:%s" % params[1]]
            else:
                want = ["T:%s" % params[0], "T:%s" % params[1], "T:%s" % params[2]]
            if SIMPLE[name] not in x.mnem:
                rule.bad(key + "|mnemonic", "%s %s is the single instruction `%r`; the opcode needs a `%s` instruction" % (kind, name, x, SIMPLE[name]), "%s:%d" % (p, x.ln))
            elif regs != want:
                rule.bad(key + "|operands", "%s %s: `%r` uses registers %s, expected (%s)" % (kind, name, x, regs, ", ".join(want)), "%s:%d" % (p, x.ln))
            else:
                rule.ok("%s %s = `%r`" % (kind, name, x), file=p, line=x.ln)
        elif name in ROUND_MODE and len(ins) == 1:
            x = ins[0]
            imm = [o.text.replace(" ", "") for o in x.ops if o.kind == "imm"]
            regs = [o.name for o in x.ops if o.kind == "vec"]
            if "round" not in x.mnem or imm != [ROUND_MODE[name]] or regs[0] != "T:%s" % params[0] or set(regs[1:]) != {"T:%s" % params[1]}:
                rule.bad(key + "|round", "%s %s: `%r` must round %s towards %s (mode %s)" % (kind, name, x, params[1], "-inf" if name == "build_floor" else "+inf", ROUND_MODE[name]), "%s:%d" % (p, x.ln))
            else:
                rule.ok("%s %s = `%r` (rounding mode %s)" % (kind, name, x, ROUND_MODE[name]), file=p, line=x.ln)
        elif name in ("build_load", "build_store", "build_input", "build_output", "build_copy"):
            mv = [x for x in ins if x.mnem in MOVE_WIDTH[kind][0] or x.mnem.startswith("vmov") or x.mnem.startswith("mov")]
            vm = [x for x in mv if any(o.kind == "vec" for o in x.ops)]
            if len(vm) != 1:
                continue
            x = vm[0]
            mn, width = MOVE_WIDTH[kind]
            vecs = [o for o in x.ops if o.kind == "vec"]
            regp = {"build_load": params[0], "build_store": params[1], "build_input": params[0], "build_output": params[0], "build_copy": None}[name]
            if x.mnem not in mn or any(o.width != width for o in vecs):
                rule.bad(key + "|width", "%s %s moves data with `%r`; a %s value needs %s on %d-byte registers" % (kind, name, x, kind, sorted(mn), width), "%s:%d" % (p, x.ln))
            elif regp is not None and [o.name for o in vecs] != ["T:%s" % regp]:
                rule.bad(key + "|reg", "%s %s moves %s, expected its register parameter `%s`" % (kind, name, [o.name for o in vecs], regp), "%s:%d" % (p, x.ln))
            elif name == "build_copy" and [o.name for o in vecs][0] != "T:%s" % params[0] or (name == "build_copy" and [o.name for o in vecs][-1] != "T:%s" % params[1]):
                rule.bad(key + "|copy", "%s build_copy must copy %s into %s; found `%r`" % (kind, params[1], params[0], x), "%s:%d" % (p, x.ln))
            else:
                rule.ok("%s %s = `%r`" % (kind, name, x), file=p, line=x.ln)
        elif name in ("build_neg", "build_abs"):
            # the interpreter's `-x` / `abs` flip or clear the sign bit and nothing else; arithmetic is not
            # the same function (0 - x is +0.0 at x = +0.0, where -x is -0.0)
            arith = [x for x in ins if x.mnem and _FP_ARITH.fullmatch(x.mnem)]
            bitop = [x for x in ins if x.mnem and _re.fullmatch(r"v?p?(xor|and|andn)(ps|pd|d|q)?", x.mnem) and any(o.kind == "vec" for o in x.ops)]
            if arith:
                rule.bad(key + "|arith", "%s %s computes a sign operation with `%r`; the interpreter flips / clears the sign bit, which is a different function at signed zeros" % (kind, name, arith[0]), "%s:%d" % (p, arith[0].ln))
            elif not bitop:
                rule.bad(key + "|bitop", "%s %s contains no bitwise xor / and on a vector register" % (kind, name), "%s:%d" % (p, b.fn["ln"]))
            else:
                rule.ok("%s %s is a sign-bit operation (`%r`)" % (kind, name, bitop[-1]), file=p, line=bitop[-1].ln)


def check_load_imm(rule, kind, root=None):
    """`load_imm(c)` returns a register that holds c.  Either it emits the load on every path, or - when the
    load is skipped on a cache hit - every other routine that writes the immediate register (or calls out,
    which clobbers it) must invalidate that cache."""
    p = path_of(kind)
    builders = M.load_builders(p, root)
    b = builders.get("load_imm")
    if b is None:
        rule.lost("%s load_imm" % kind)
        return
    fn = b.fn
    w = [n for x in M.flat_ins(b) for n in M.writes_names(M.effect(x)) if n[0] == "v"]
    if not w:
        rule.lost("%s load_imm: no vector register written" % kind)
        return
    immreg = w[-1]
    macs = [m for (m, _h, _i) in b.blocks]
    guarded = [m for m in macs if (A.enclosing_conds(fn["body"], m) or [])]
    early = list(A.find(fn["body"], "Return"))
    if not guarded and not early:
        rule.ok("%s load_imm emits the load of its argument into x%s on every path" % (kind, immreg[1]), file=p, line=fn["ln"])
        return
    fields = sorted({str(A.ftxt(a["left"])) for a in A.find(fn["body"], "Assign") if str(A.ftxt(a["left"])).startswith("self.")})
    if len(fields) != 1:
        rule.bad("%s|load_imm|conditional" % kind, "%s load_imm does not always load its argument, and no single cache field explains when it may skip the load" % kind, A.where(fn))
        return
    field = fields[0]
    n_ok = 0
    for name2, b2 in sorted(builders.items()):
        if name2 == "load_imm":
            continue
        clob = [x for x in M.flat_ins(b2) if x.label is None and (immreg in M.writes_names(M.effect(x)) or (x.mnem or "").startswith("call"))]
        if not clob:
            continue
        resets = [a for a in A.find(b2.fn["body"], "Assign") if str(A.ftxt(a["left"])) == field and A.ident(A.strip(a["right"])) == "None"]
        if resets:
            n_ok += 1
        else:
            rule.bad("%s|load_imm|stale|%s" % (kind, name2), "%s %s overwrites x%s (`%r`) but does not reset `%s`: a later load_imm of the cached constant skips the load and the clause reads a stale register" % (kind, name2, immreg[1], clob[0], field), "%s:%d" % (p, clob[0].ln))
    rule.ok("%s load_imm skips the load on a cache hit; %d routines that clobber x%s reset `%s`" % (kind, n_ok, immreg[1], field), file=p, line=fn["ln"])


# ---------------------------------------------------------------------------
# corner reductions (interval multiplication / division)

_CORNER_NAMES = {(0, 0): "lhs.lower x rhs.lower", (0, 1): "lhs.lower x rhs.upper", (1, 0): "lhs.upper x rhs.lower", (1, 1): "lhs.upper x rhs.upper"}


def _inline_call_helpers(b, builders):
    """the builder's instruction stream with `self.call_fn_*(..)` helper calls expanded at their position
    (helper parameters renamed to the arguments)"""
    import copy

    events = [(m["ln"], ins) for m, _head, ins in b.blocks]
    for name, args, node in b.helper_calls:
        h = builders.get(name)
        if h is None or not name.startswith("call_fn"):
            continue
        ren = {}
        for (pn, _ty), a in zip(h.params, args):
            if isinstance(a, str):
                ren["T:%s" % pn] = "T:%s" % a
        ins = copy.deepcopy(M.flat_ins(h))
        for x in ins:
            for o in x.ops:
                if o.kind == "vec" and o.name in ren:
                    o.name = ren[o.name]
        events.append((node["ln"], ins))
    events.sort(key=lambda e: e[0])
    out = []
    for _ln, ins in events:
        out.extend(ins)
    return out


def check_corner_reduction(rule, kind, root=None):
    """Interval products and quotients take their bounds over four corner values, any of which can be NaN
    (0 x inf, inf / inf) without the operands being NaN.  The interpreter skips such corners (f32::min / max
    ignore a NaN operand); x86 `minps` / `maxps` do not - they return their *second* operand whenever either
    is NaN.  The reduction is evaluated abstractly for every subset of NaN corners: each lane is "NaN" or "the
    min / max over a set of corners"; at the end the lower bound must be the min and the upper bound the max
    over all non-NaN corners, unless the path handed the operation to the Rust implementation."""
    p = path_of(kind)
    builders = M.load_builders(p, root)
    for name in ("build_mul", "build_div"):
        b = builders.get(name)
        if b is None:
            rule.lost("%s %s" % (kind, name))
            continue
        outp = out_param(b)
        ins = _inline_call_helpers(b, builders)
        succ, _probs = M.build_cfg(ins)
        paths, cyclic = M.enumerate_paths(ins, succ)
        if cyclic or not paths:
            rule.lost("%s %s: loop-free instruction paths" % (kind, name))
            continue
        corners = [(i, j) for i in (0, 1) for j in (0, 1)]
        masks = [frozenset(c for c, bit in zip(corners, bits) if bit) for bits in __import__("itertools").product((0, 1), repeat=4)]
        n_checked = 0
        findings = {}
        saw_products = False
        for path in paths:
            idxs = [i for i in path if not isinstance(i, str)]
            for mask in masks:
                regs = {"T:lhs_reg": [("in", "L", 0), ("in", "L", 1), None, None], "T:rhs_reg": [("in", "R", 0), ("in", "R", 1), None, None]}
                # builder parameter names may differ: take the two non-output u8 parameters in order
                ins_params = [n_ for n_, ty in b.params if ty == "u8" and n_ != outp]
                if len(ins_params) == 2:
                    regs = {"T:%s" % ins_params[0]: [("in", "L", 0), ("in", "L", 1), None, None], "T:%s" % ins_params[1]: [("in", "R", 0), ("in", "R", 1), None, None]}
                gpr = {}
                flags = None
                feasible = True
                delegated = False
                products = False

                def get(o):
                    return list(regs.get(o.name, [None] * 4))

                def red(kind_, a_, b_):
                    # x86 min / max: the second operand whenever either is NaN
                    if a_ is None or b_ is None:
                        return None
                    if a_[0] == "nan" or b_[0] == "nan":
                        return b_
                    if a_[0] == "val" and b_[0] == "val" and a_[2] in (None, kind_) and b_[2] in (None, kind_):
                        return ("val", a_[1] | b_[1], kind_)
                    return None

                for pos, i in enumerate(idxs):
                    x = ins[i]
                    if x.label is not None:
                        continue
                    m = x.mnem or ""
                    ops = x.ops
                    vec = [o for o in ops if o.kind == "vec"]
                    if m in ("vpshufd", "pshufd") and len(vec) == 2 and ops[-1].kind == "imm":
                        try:
                            imm = int(_re.sub(r"(_?i8|_?u8)$", "", ops[-1].text.replace(" ", "").replace("asi8", "")), 0) & 0xFF
                        except ValueError:
                            regs[vec[0].name] = [None] * 4
                            continue
                        src = get(vec[1])
                        regs[vec[0].name] = [src[(imm >> (2 * l_)) & 3] for l_ in range(4)]
                    elif m in ("vmulps", "vdivps") and len(vec) == 3:
                        a_, b_ = get(vec[1]), get(vec[2])
                        lanes = []
                        for l_ in range(4):
                            va, vb = a_[l_], b_[l_]
                            if va and vb and va[0] == "in" and vb[0] == "in" and {va[1], vb[1]} == {"L", "R"}:
                                c = (va[2], vb[2]) if va[1] == "L" else (vb[2], va[2])
                                lanes.append(("nan", c) if c in mask else ("val", frozenset([c]), None))
                                products = True
                            else:
                                lanes.append(None)
                        regs[vec[0].name] = lanes
                    elif m in ("vminps", "vmaxps") and len(vec) == 3:
                        a_, b_ = get(vec[1]), get(vec[2])
                        regs[vec[0].name] = [red(m[1:4], a_[l_], b_[l_]) for l_ in range(4)]
                    elif m in ("vminss", "vmaxss") and len(vec) == 3:
                        a_, b_ = get(vec[1]), get(vec[2])
                        regs[vec[0].name] = [red(m[1:4], a_[0], b_[0])] + a_[1:]
                    elif m in ("vunpcklps",) and len(vec) == 3:
                        a_, b_ = get(vec[1]), get(vec[2])
                        regs[vec[0].name] = [a_[0], b_[0], a_[1], b_[1]]
                    elif m in ("vcmpunordps", "cmpunordps") and len(vec) == 3 and vec[1].name == vec[2].name:
                        src = get(vec[1])
                        regs[vec[0].name] = [("isnan", bool(v and v[0] == "nan")) if v is not None and v[0] in ("nan", "val") else None for v in src]
                    elif m in ("vmovmskps", "movmskps") and len(vec) == 1:
                        src = get(vec[0])
                        g = [o for o in ops if o.kind == "gpr"]
                        if g and all(v is not None and v[0] == "isnan" for v in src):
                            gpr[g[0].name] = ("mask", any(v[1] for v in src))
                        elif g:
                            gpr[g[0].name] = None
                    elif m == "test" and len(ops) == 2 and all(o.kind == "gpr" for o in ops) and ops[0].name == ops[1].name:
                        flags = gpr.get(ops[0].name)
                    elif m in ("vptest", "ptest") and len(vec) == 2 and vec[0].name == vec[1].name:
                        # ZF = (x AND x == 0): clear exactly when some lane of the comparison mask is set
                        src = get(vec[0])
                        flags = ("mask", any(v[1] for v in src)) if all(v is not None and v[0] == "isnan" for v in src) else None
                    elif m in ("jnz", "jne", "jz", "je"):
                        nxt = idxs[pos + 1] if pos + 1 < len(idxs) else None
                        taken = nxt != i + 1
                        if flags and flags[0] == "mask":
                            nonzero = flags[1]
                            want_taken = nonzero if m in ("jnz", "jne") else (not nonzero)
                            if taken != want_taken:
                                feasible = False
                                break
                    elif m.startswith("call"):
                        for r_ in list(regs):
                            if not r_.startswith("T:"):
                                regs[r_] = [None] * 4
                        regs["0"] = [("rust",), ("rust",), None, None]
                        delegated = True
                    elif m in ("vmovq", "movq") and len(vec) == 2:
                        src = get(vec[1])
                        regs[vec[0].name] = [src[0], src[1], None, None]
                    elif m in ("vmovaps", "vmovups", "movaps") and len(vec) == 2:
                        regs[vec[0].name] = get(vec[1])
                    else:
                        e = M.effect(x)
                        for o in e.writes:
                            if o.kind == "vec":
                                regs[o.name] = [None] * 4
                            elif o.kind == "gpr":
                                gpr[o.name] = None
                        if e.flags_w:
                            flags = None
                if not feasible or not products:
                    continue
                saw_products = True
                n_checked += 1
                out = regs.get("T:%s" % outp, [None] * 4)
                if out[0] == ("rust",) and out[1] == ("rust",):
                    continue
                live = frozenset(corners) - mask
                if not live:
                    continue  # every corner NaN: any answer made of NaN corners is the NaN interval
                good = out[0] is not None and out[1] is not None and out[0][0] == "val" and out[1][0] == "val" and out[0][1] == live and out[1][1] == live and out[0][2] in ("min", None) and out[1][2] in ("max", None)
                if not good:
                    key = tuple(sorted(mask))
                    if key not in findings:
                        def show(v):
                            if v is None:
                                return "?"
                            if v[0] == "nan":
                                return "NaN"
                            if v[0] == "val":
                                return "%s{%s}" % (v[2] or "", ", ".join(_CORNER_NAMES[c] for c in sorted(v[1])))
                            return str(v)
                        findings[key] = (show(out[0]), show(out[1]), x.ln)
        if not saw_products:
            rule.lost("%s %s: the four corner %s" % (kind, name, "products" if name == "build_mul" else "quotients"))
            continue
        if findings:
            key = sorted(findings, key=lambda k: (len(k), k))[0]
            lo, hi, _ln = findings[key]
            rule.bad("%s|%s|nan-corner" % (kind, name), "%s %s: when the corner%s %s %s NaN (0 x inf or inf / inf - the operands themselves are not NaN) the result is [%s, %s] instead of the min / max over the remaining corners: minps / maxps return their second operand when either is NaN, so a corner is dropped (%d of the 15 NaN patterns give a wrong bound); the interpreter skips NaN corners" % (kind, name, "s" if len(key) > 1 else "", ", ".join(_CORNER_NAMES[c] for c in key), "are" if len(key) > 1 else "is", lo, hi, len(findings)), "%s:%d" % (p, b.fn["ln"]))
        else:
            rule.ok("%s %s: bounds are the min / max over the non-NaN corners on every path (%d path x NaN-pattern cases)" % (kind, name, n_checked), file=p, line=b.fn["ln"])


def check_callee_save_dominates(rule, kind, root=None):
    """The backup of r12-r15 is emitted once, by whichever clause first needs it, and a flag stops later
    clauses from emitting it again.  A clause that calls out only on a *conditional* path (a fallback behind a
    forward jump) must therefore emit the backup before its first instruction: emitted inside the skipped
    region it may never run, while every later call site believes the registers were saved."""
    p = path_of(kind)
    builders = M.load_builders(p, root)
    n = 0
    for name, b in sorted(builders.items()):
        calls = [(nm, node) for nm, _a, node in b.helper_calls if nm.startswith("call_fn")]
        if not calls or not b.blocks:
            continue
        first_block_ln = min(m["ln"] for m, _h, _i in b.blocks)
        for nm, node in calls:
            # a forward jump in an earlier block whose label is defined in a later block passes over the call
            before = [x for m, _h, ins in b.blocks if m["ln"] < node["ln"] for x in ins]
            after_labels = {x.label for m, _h, ins in b.blocks if m["ln"] > node["ln"] for x in ins if x.label is not None}
            skipping = [x for x in before if x.label is None and M.effect(x).kind in ("jcc", "jmp") and x.ops and x.ops[0].kind == "label" and x.ops[0].name in after_labels]
            if not skipping:
                continue
            n += 1
            saves = [node2 for nm2, _a2, node2 in b.helper_calls if nm2 == "ensure_callee_regs_saved" and node2["ln"] < first_block_ln]
            if saves:
                rule.ok("%s %s: the callee-saved backup is emitted before the branch that can skip its call to %s" % (kind, name, nm), file=p, line=node["ln"])
            else:
                rule.bad("%s|%s|callee-save" % (kind, name), "%s %s calls %s only on a conditional path (`%r` can jump over it) but does not call ensure_callee_regs_saved() before its first instruction: the one-time backup of r12-r15 would be emitted inside the skipped region, and later call sites - which see the flag set - would restore registers that were never saved" % (kind, name, nm, skipping[0]), "%s:%d" % (p, node["ln"]))
    if n == 0:
        rule.ok("%s: no clause calls out on a conditional path" % kind, file=p)


def check_nan_screens(rule, kind, root=None):
    """where a clause must treat a NaN operand specially (the interval `rand` / `mix`: a NaN seed is not a seed), the
    operand is tested with an unordered float compare of the register with itself followed by `jp` - every NaN, with
    either sign bit and any payload, is then caught.  Comparing the bit pattern with one NaN encoding (an integer
    `cmp` against `f32::NAN.to_bits()`) misses all the others: hardware invalid operations produce 0xffc00000,
    and a negated NaN interval has the sign bit set."""
    import struct as _struct

    p = path_of(kind)
    builders = M.load_builders(p, root)
    for name in ("build_rand", "build_mix"):
        b = builders.get(name)
        if b is None:
            rule.lost("x86_64 %s %s" % (kind, name))
            continue
        ins = stream(b, builders)
        outp = out_param(b)
        inputs = [n_ for (n_, ty) in b.params if ty == "u8" and n_ != outp]
        # no comparison of bit patterns with a NaN encoding anywhere
        bad = None
        for x in ins:
            if x.label is None and x.mnem in ("cmp", "test") and len(x.ops) == 2 and x.ops[1].kind == "imm":
                t = x.ops[1].text.replace(" ", "")
                k = None
                if "NAN" in t:
                    k = 0x7FC00000
                else:
                    c = _canon_const(_re.sub(r"(u32|i32|u8|i8)?as(i32|u32|i8|u8)$", "", t).strip("()"))
                    try:
                        k = int(c, 16)
                    except ValueError:
                        k = None
                if k is not None and (k & 0x7F800000) == 0x7F800000 and (k & 0x007FFFFF):
                    bad = x
        if bad is not None:
            rule.bad("%s|%s|nan-bits" % (kind, name), "x86_64 %s %s recognises NaN by comparing bits with one encoding (`%r`): NaNs with the sign bit set (0xffc00000 from an invalid operation, or a negated NaN interval) or another payload pass as ordinary values" % (kind, name, bad), "%s:%d" % (p, bad.ln))
            continue
        if kind != "interval":
            rule.ok("x86_64 %s %s: no bit-pattern NaN test" % (kind, name), file=p, line=b.fn["ln"])
            continue
        # every operand is screened by `comiss x, x ; jp` before the hash is computed
        first_mul = next((i for i, x in enumerate(ins) if x.label is None and x.mnem in ("imul", "vpmulld")), len(ins))
        missing = []
        for n_ in inputs:
            ok_ = False
            for i, x in enumerate(ins[:first_mul]):
                if x.label is None and x.mnem in ("vcomiss", "comiss", "vucomiss", "ucomiss") and len(x.ops) == 2 and all(o.kind == "vec" and o.name == "T:%s" % n_ for o in x.ops):
                    nxt = [y for y in ins[i + 1:i + 3] if y.label is None]
                    if nxt and nxt[0].mnem == "jp":
                        ok_ = True
            if not ok_:
                missing.append(n_)
        if missing:
            rule.bad("%s|%s|nan-screen|%s" % (kind, name, missing[0]), "x86_64 interval %s hashes `%s` without first testing it for NaN with an unordered self-compare (`vcomiss x, x; jp`): a NaN interval then seeds the hash like a value" % (name, missing[0]), "%s:%d" % (p, b.fn["ln"]))
        else:
            rule.ok("x86_64 interval %s screens every operand for NaN with an unordered self-compare" % name, file=p, line=b.fn["ln"])


def check_disp_sign(rule, kind, root=None):
    """slots above their base: a run-time displacement (`pos`, `sp_offset`, `8 * i`) is *added* to rsp / rdi / rsi /
    rdx / rcx - a subtracted one addresses memory below the spill area or in front of the caller's arrays"""
    p = path_of(kind)
    builders = M.load_builders(p, root)
    n = 0
    for name, b in sorted(builders.items()):
        for x in stream(b, builders):
            if x.label is not None:
                continue
            for o in x.ops:
                if getattr(o, "kind", None) != "mem" or not getattr(o, "sym", None):
                    continue
                base = [r_ for r_ in (o.regs or []) if r_ in ("rsp", "rdi", "rsi", "rdx", "rcx", "r8", "r9")]
                if not base:
                    continue
                n += 1
                neg = [s_ for s_ in o.sym if s_.startswith("-")]
                if neg:
                    rule.bad("x86|%s|%s|disp-sign|%s" % (kind, name, base[0]), "x86_64 %s %s: `[%s]` subtracts the run-time displacement `%s` from %s; slots and array elements lie at increasing addresses from their base" % (kind, name, o.text, neg[0][1:], base[0]), "%s:%d" % (p, b.fn["ln"]))
                else:
                    rule.ok("x86_64 %s %s: `[%s]` adds its displacement" % (kind, name, o.text), file=p, line=b.fn["ln"])
    if n == 0:
        rule.lost("memory operands with a run-time displacement in the x86_64 %s assembler" % kind)
