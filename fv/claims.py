"""What MANIFEST.json claims per property (tools/gen_manifest.py renders it)."""

STATIC_NOTE = (
    "Decides structural necessary conditions visible in the source on every path (table agreement, "
    "operand order, pairing, guards); it does not evaluate fidget and does not establish the numeric "
    "behaviour. Trusted: the syn parse equals what rustc compiles; the frozen expectation tables in /verif/fv."
)

def _c(text, technique):
    return {"text": text + " A violated rule refutes the property; passing establishes only these necessary conditions.", "note": STATIC_NOTE, "technique": technique}


CLAIMS = {
    "C01": _c(
        "Static table-agreement analysis: every arm of the graph->SSA lowering, the register-allocator lowering and "
        "router, the allocator's per-case load/store/bind protocol and helper effects, the four interpreter loops and the "
        "reference evaluator is shown to map its opcode to the namesake operation with operands in the order its form dictates.",
        "static analysis: syntax-tree table-agreement and protocol lint (syn AST, per-arm term normalisation)",
    ),
    "C02": _c(
        "Static analysis of the RegOp->assembler dispatch (namesake builder, operand order per form, immediates through "
        "load_imm, trait default helpers expanded), of every extern callback (computes its builder's namesake with "
        "arguments in order and is the one passed), and of builder-set completeness across the eight assemblers.",
        "static analysis: table-agreement lint over the dispatch match, trait defaults and extern callbacks",
    ),
    "C04": _c(
        "Static analysis of VmData::simplify: exactly one choice consumed per choice op on every structured path "
        "(including the inactive-skip path), Left/Right/Both continue with the first/second/both operands, every surviving "
        "op renames its output and all register operands, order parity of tape and choice walks, op accounting counts "
        "every output, result shares the parent's variable map.",
        "static analysis: path/pairing and role-consistency lint over simplify's match arms",
    ),
    "C20": _c(
        "Static analysis of the two interpreter tracing loops: every choice arm records the choice half of the very call "
        "whose value it stores, advances the choice iterator once, and derives the simplify flag from that choice; "
        "non-choice arms never touch either; the trace is returned iff the flag is set.",
        "static analysis: per-arm pairing lint (choice iterator protocol) and return-shape guard",
    ),
}

PENDING = "check not built yet in this round (static rules planned in DESIGN.md section 3)"
NOT_APPLICABLE = {("C%02d" % i): PENDING for i in range(1, 21)}

ENGINES = [
    {"name": "astdump", "path": "tools/astdump", "serves_properties": ["C%02d" % i for i in range(1, 21)],
     "kind_free_text": "syn-based parser that dumps every /repo source file as a JSON syntax tree (no evaluation)"},
    {"name": "fvlint", "path": "fv", "serves_properties": ["C%02d" % i for i in range(1, 21)],
     "kind_free_text": "repository-specific static rules (Python) over the syntax trees: table agreement, role/axis "
     "consistency, sibling agreement, pairing/protocol, field coverage, guard shape"},
]

NOTES = (
    "Family: static analysis. Every check reads /repo's current working tree (override with FV_REPO for scratch "
    "copies), never builds or runs fidget, and reports file:line + rule + instance. known_findings.txt lists "
    "recorded findings and repaired defects."
)
