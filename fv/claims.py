"""What MANIFEST.json claims per property (tools/gen_manifest.py renders it)."""

STATIC_NOTE = (
    "Decides structural necessary conditions visible in the source on every path (table agreement, "
    "operand order, pairing, guards); it does not evaluate fidget and does not establish the numeric "
    "behaviour. Trusted: the syn parse equals what rustc compiles; the frozen expectation tables in /verif/fv."
)

def _c(text, technique):
    return {"text": text + " A violated rule refutes the property; passing establishes only these necessary conditions.", "note": STATIC_NOTE, "technique": technique}


CLAIMS = {
    "C01": _c(
        "Static table-agreement analysis: every arm of the graph->SSA lowering, the register-allocator lowering and "
        "router, the allocator's per-case load/store/bind protocol and helper effects, the four interpreter loops and the "
        "reference evaluator is shown to map its opcode to the namesake operation with operands in the order its form dictates.",
        "static analysis: syntax-tree table-agreement and protocol lint (syn AST, per-arm term normalisation)",
    ),
    "C02": _c(
        "Static analysis of the RegOp->assembler dispatch (namesake builder, operand order per form, immediates through "
        "load_imm, trait default helpers expanded), of every extern callback (computes its builder's namesake with "
        "arguments in order and is the one passed), of builder-set completeness across the eight assemblers, and dataflow over "
        "the hand-written x86_64 AND aarch64 clauses parsed from their dynasm source: write discipline, alias / immediate / "
        "unwritten-lane hazards on every path, label and relative-branch targets, call helpers and prologue / epilogue by "
        "copy propagation (x86_64) and symbolic-lane interpretation under the AAPCS64 for every operand placement (aarch64), "
        "strides and frame constants, load_imm, NaN-corner reduction of interval products, and - for the branch-free "
        "arithmetic and mask clauses of both back ends - symbolic lane semantics compared with the opcode's closed form, also "
        "with the output aliased to an operand; the branching x86_64 single-point clauses (min / max / and / or / compare) by path summaries decided over every order type of their operands (infinities and -0.0 included). The aarch64 code is never compiled on the x86_64 host: static analysis is all that sees it.",
        "static analysis: table-agreement lint + dataflow / symbolic-lane abstract interpretation of hand-written assembly (x86_64 and aarch64)",
    ),
    "C04": _c(
        "Static analysis of VmData::simplify: exactly one choice consumed per choice op on every structured path "
        "(including the inactive-skip path), Left/Right/Both continue with the first/second/both operands, every surviving "
        "op renames its output and all register operands (a kept operand is copied from its remapped register or aliased to "
        "the new index), order parity of tape and choice walks, op accounting counts every output, result shares the parent's "
        "variable map; interval min/max choices are Left/Right only for strictly separated operands; the native choice protocol "
        "of the x86_64 and aarch64 tracing assemblers on every path (one choice recorded, flag iff decided, pointer advanced once, "
        "value = chosen operand, NaN never decided; x86_64 choices agree with the interpreter's on every order type of the operands); copy ops of simplified tapes in every evaluator.",
        "static analysis: path/pairing and role-consistency lint over simplify's match arms",
    ),
    "C20": _c(
        "Static analysis of the two interpreter tracing loops: every choice arm records the choice half of the very call "
        "whose value it stores, advances the choice iterator once, and derives the simplify flag from that choice; "
        "non-choice arms never touch either; the trace is returned iff the flag is set; the interval choice functions answer "
        "(NaN, Both) before deciding anything; the x86_64 and aarch64 native protocols record the same choices on every path "
        "(strict, NaN-false branch conditions; for x86_64 also by path summaries over every order type of the operands); advertised sizes / maps / counts are copied from their namesakes.",
        "static analysis: per-arm pairing lint (choice iterator protocol) and return-shape guard",
    ),
}

CLAIMS.update({
    "C03": _c(
        "Static analysis of the interval arithmetic: every monotone op takes each result bound from the bound its "
        "monotonicity dictates (variance-directed bound selection, through local definitions), the interval interpreter "
        "loop and the x86_64 interval assembler (dataflow: write discipline, alias/immediate hazards, call-helper copy "
        "propagation, choice protocol, callbacks, sibling constants), the aarch64 interval assembler (same dataflow; bounds of the "
        "branch-free clauses, all four corner products reduced NaN-safely, domain guards of recip / div / sqrt, abs / square "
        "per sign class by symbolic lanes), the branching x86_64 interval clauses by path summaries decided over every order type of the bounds (enclosure of the operation's range, or NaN), the sin / cos quadrant tables cell by cell from the positions of the extrema, atan2's corner selection per sign class, the four-corner folds of product and quotient (loops unrolled symbolically), the WGSL interval operations on lane summaries, and the homogeneous transform of boxes (interpreted symbolically, any fast path under its guard).",
        "static analysis: variance/role lint over the syntax tree + dataflow over the hand-written assembly",
    ),
    "C05": _c(
        "Static analysis with an algebraic normaliser: for every smooth Grad method the value is the op on values and "
        "dx, dy, dz equal the chain rule with symbolic seeds (sympy identity between source expressions); piecewise ops "
        "return one operand whole under a value-only condition; every Context::deriv arm equals the chain rule, zero, or "
        "(finite ordering / sign-class enumeration over the builder DSL, incl. the div_euclid emulation of Mod) the selected "
        "operand's derivative; deriv's cache is keyed by the node being differentiated; gradient interpreter loop; "
        "Transformable for Grad; x86_64 and aarch64 gradient assembler dataflow, and their add / sub / neg / mul / div / sqrt / "
        "square / recip / floor / ceil clauses against the chain rule on symbolic lanes, abs / min / max / compare by path summaries over the order types of the value lanes.",
        "static analysis: expression-identity obligations between source expressions (sympy) + table lint + asm dataflow",
    ),
    "C06": _c(
        "Static analysis of the 2D renderer: inside/outside fills only under strict upper()<0 / lower()>0 guards and never "
        "in pixel-perfect mode, children and pixels use the handle simplified by this tile's own trace, root grid / child "
        "loops / tile-size invariants / assembly bounds cover the image, pixel (i,j) is sampled at (corner+i, corner+j, z), and the NaN-boxed pixel type reports a distance inside exactly under `v < 0.0` (a NaN of either sign is outside) with writer and reader agreeing on the bit fields.",
        "static analysis: guard-shape, coverage-arithmetic and role-consistency lint over the renderer's syntax tree",
    ),
    "C07": _c(
        "Static analysis of the 3D renderer: full/empty decisions only under strict guards, every z iteration descending "
        "with the matching first-hit search and index flip, depth = voxel index + 1, unchecked writes behind length "
        "assertions, unit gradient seeds in axis order, axis roles of the offsets split from a linear tile index, the keep-going protocol (only a filled tile stops the descent through a column of root tiles), and a merge clamp that compares with and assigns the grid depth.",
        "static analysis: guard-shape, ordering and clamp-consistency lint over the renderer's syntax tree",
    ),
    "C10": _c(
        "Static analysis that no named piece of state survives a reuse boundary: every evaluator unconditionally sizes "
        "(and for choices refills) its buffers from the tape before evaluating, reset() of allocator / workspace / tapes "
        "re-initialises every field of its struct, simplify resets recycled storage, recycled executable memory is "
        "overwritten from offset 0 and grown before a write past capacity, pointer lists are cleared before each refill.",
        "static analysis: field-coverage and ordering (must-precede, unconditional) lint over linearised call facts",
    ),
    "C11": _c(
        "Static analysis: all eight evaluators check their arguments first and propagate the error; a float-class "
        "abstract interpretation (nine classes per bound, every well-formed assignment, three-valued guards) shows that no "
        "analysed Interval::new site can receive one NaN and one non-NaN bound; unreachable!() defaults are justified by the "
        "range of their scrutinee; panic-capable sites in the per-op data path equal a justified inventory; buffers are sized first; "
        "consumers decide only under strict comparisons; native call helpers (x86_64, aarch64) restore every pointer and register, "
        "aarch64 branches stay inside their clause and callee-saved registers are back at `ret`; no argument check answers Ok before the count was compared; simplification recounts surviving choices; native loads / stores move exactly one element.",
        "static analysis: float-class abstract interpretation of interval constructors + dominance/inventory lints",
    ),
    "C12": _c(
        "Static analysis with an algebraic normaliser: every constructor rewrite arm is an identity over the reals under "
        "its premise (sympy), comparison/logic constructors meet their truth tables on every ordering, zero-ness and "
        "constness of operands (finite enumeration over the builder DSL), constructors build their namesake opcode in "
        "operand order and fold through the opcode's eval, import/export push and pop operands in matching order, TreeOp "
        "eq/hash cover the same payload and walk the same children unconditionally, drop/eq/hash/import/export/deriv are loops; the Tree builder API builds its namesake opcodes on (self, other) and its operator impls keep source order (also number-on-the-left); the importer's frame rules of C13 are read here too.",
        "static analysis: expression-identity obligations (sympy) + finite case enumeration + pairing/field-coverage lint",
    ),
    "C13": _c(
        "Static analysis: RemapAffine/RemapAxes nodes are constructed only by the flattening builder API (who-may-construct "
        "over the whole repository), flattening multiplies existing*new onto the inner target, every importer frame push is "
        "paired with its pop so that the target runs inside the frame, the import cache is keyed by (frame, pointer), and "
        "axes read their own component of the innermost frame; affine rows combine columns with axes in order.",
        "static analysis: who-may-construct, pairing and role-consistency lint (with sympy for the affine row)",
    ),
    "C14": _c(
        "Static analysis: X/Y/Z and free variables are bound by identity at the variable's own index in both shape "
        "evaluators, the transform is applied in axis order, VarMap assigns an index once (get_or_insert) and only in "
        "insert, missing variables and short/ragged argument lists are errors, and Transformable for f32/Interval/Grad are "
        "the same homogeneous transform; native code (x86_64, aarch64) addresses slot i at i x bytes-per-slot; fresh variables "
        "draw their index from a process-wide source; the inner evaluator is handed only the scratch rows the binding loop filled and nothing can succeed before it; call helpers hand the variable pointer back; binding a variable set checks every named variable, and a per-sample variable array of any other length than the sample count is an error.",
        "static analysis: axis/role-consistency and sibling-agreement lint",
    ),
    "C15": _c(
        "Static analysis of the serializer: each RegOp maps to its namesake opcode, the byte layout of every operand form "
        "matches the documented format (registers only through store_reg, 0xFF marks, immediates, memory rebasing with "
        "max-accumulated counts), framing markers, opcode numbering equals the advertised table, and register visiting "
        "covers exactly the register fields (repacking).",
        "static analysis: table-agreement lint between the serializer, the opcode enum and the documented layout",
    ),
    "C16": _c(
        "Static analysis with an algebraic normaliser: named axes/planes denote what their names say, each primitive and "
        "CSG combinator equals its documented closed form (sympy identity), transforms apply the inverse of their action "
        "on the axis their name says, RevolveY's Move/remap/Move composition is a revolve about x = offset, Blend is the smooth "
        "minimum under exactly radius > 0, ReflectXY swaps x and y, every shape has a rule, a transform returns its input remapped and nothing else (no arithmetic on the remapped value), the vector types shapes are written with act component by component with scalar / vector forms in operand order, and nested transforms compose (importer frames).",
        "static analysis: expression-identity obligations between source expressions and documented closed forms (sympy)",
    ),
})

CLAIMS.update({
    "C08": _c(
        "Static analysis of the mesher's structure: every recursive face/edge call of the dual walk is placed on the "
        "sub-cell lattice and must be geometrically consistent (hi = lo + 1 along t'; the four edge cells at "
        "(p,q),(p+1,q),(p+1,q+1),(p,q+1) in the frame's (u',v') plane), frames are right-handed cyclic rotations, dc_cell "
        "covers all 8 children / 12 faces / 6 edges, the multithreaded merge shifts leaf and branch indices by their own "
        "prefix-sum offsets, cells are full/empty only under strict interval guards and leaf corner masks are by identity; "
        "collapse guards (a multi-vertex child is never collapsed, a NaN gradient lane never enters the QEF and marks the leaf "
        "with the sentinel merge refuses); finished vertices return through the projective map and the sign of its determinant "
        "reaches the triangle order; the QEF algebra (accumulation of n n^T, n (n . p), (n . p)^2 and the mass point, re-centred solve, reported error) and the edge search (interpolation, bracket, midpoint, end points) by symbolic interpretation. The mesher's index vocabulary (axis bits, Axis::next, frames, corner / axis / mask operators, the edge packing and its inverse) is constant-folded over its complete finite domains; the table generator build.rs is compared with its readers (every inside -> outside cell edge once, filed under the slot to_undirected() names, vertex / crossing offsets in the order OctreeBuilder::leaf, the collapse and the dual walk lay out and read a leaf's vertices); cell geometry (child bounds, corner positions, corner signs); the collapse safety test consults the sign at the midpoint of all 12 coarse edges, 6 faces and the cube. Manifoldness, the rank decision of the QEF and the clustering inside the table generator are out of static reach.",
        "static analysis: lattice-geometry consistency of the recursive dual walk + index/guard lints",
    ),
    "C09": _c(
        "Static analysis: an abort (Err/None/false) originates only under is_cancelled() or propagates from a child and "
        "turns the whole result into None; the shared-state inventory (unsafe Send/Sync impls, interior mutability, statics, "
        "thread_local) equals the vetted list and the JIT handles have no mutating method; per-thread state comes from "
        "map_init and results are keyed by tile/cell; merge offsets are per-task prefix sums. Interleavings themselves "
        "are not explored.",
        "static analysis: guard-origin, who-may-share inventory and keyed-result lints",
    ),
    "C17": _c(
        "Static analysis of the scripting bindings: every operator/function string is registered to its namesake in both "
        "operand orders with operands in source order (macro bodies and invocations), all six comparisons are registered to "
        "the rejecting functions, the map form and the chained form of a constructor derive every field identically "
        "(default as hint / default when absent / error), and coercion tables map array indices, names and constants to "
        "their namesakes; script names take precedence over engine fallbacks; registration and classification order; the "
        "engine's limits are the documented ones; script-side vector arithmetic keeps operands in source order in all five operand forms; the two rejecting comparison overloads cover (tree, other) and (other, tree); a positional argument no field takes is an error; axes() hands out each coordinate tree under its own name; names (strings, characters) are tried in their place in each conversion's order. The reflection-driven overload dispatch on argument types is out of static reach.",
        "static analysis: registration-table agreement and sibling-builder agreement lint (including macro token streams)",
    ),
    "C18": _c(
        "Static analysis of the view types: world_to_model is translate x rotate x scale of the view's own components, "
        "each manipulation writes only its own fields (write-set inventory), changed flags compare old with new before "
        "assigning, View2/View3 siblings agree modulo dimension, zoom re-centres through the full matrix, yaw wraps and "
        "pitch clamps the whole sum, canvases adopt the image size before converting cursor positions, the changed flag collects "
        "only drag / zoom results, a zoom during a pan refreshes the stored handle, and a cursor pixel reaches world space only through the canvas's own region applied to the cursor's own coordinates.",
        "static analysis: write-set, sibling-agreement and ordering lint",
    ),
    "C19": _c(
        "Static analysis of the solver: only Free parameters get a gradient slot and a result, Fixed ones are constants at "
        "their value in both evaluators, the three-per-sample packing agrees between writer lanes, reader lanes and batch "
        "width, an all-zero residual ends the iteration before any change, and a parameter set with no free entry never "
        "reads the empty gradient batch; the Levenberg-Marquardt step solves (J^T J + damping D) delta = J^T r on symbolic matrices with a damping that grows on a worse trial and shrinks on an accepted one; every equation is visited in every iteration; the damping schedule is scale-free (constant start and factors) and the convergence threshold on the error is an absolute constant. Convergence and residual size are out of static reach.",
        "static analysis: packing-table agreement and exit-ordering lint",
    ),
})

PENDING = "check not built yet in this round (static rules planned in DESIGN.md section 3)"
NOT_APPLICABLE = {}

ENGINES = [
    {"name": "fvfacts", "path": "tools/fvfacts", "serves_properties": ["C09", "C11", "C12", "C13", "C14"],
     "kind_free_text": "rustc_private driver (nightly, RUSTC_WORKSPACE_WRAPPER under cargo check) dumping type-resolved MIR facts: "
     "resolved call edges, ADT aggregate constructions, field writes, assert terminators, unsafe impls; used by the thorough tier"},
    {"name": "astdump", "path": "tools/astdump", "serves_properties": ["C%02d" % i for i in range(1, 21)],
     "kind_free_text": "syn-based parser that dumps every /repo source file as a JSON syntax tree (no evaluation)"},
    {"name": "fvlint", "path": "fv", "serves_properties": ["C%02d" % i for i in range(1, 21)],
     "kind_free_text": "repository-specific static rules (Python) over the syntax trees: table agreement, role/axis "
     "consistency, sibling agreement, pairing/protocol, field coverage, guard shape; dataflow and symbolic-lane "
     "interpretation of the x86_64 and aarch64 dynasm clauses (fv/asm*.py, fv/a64*.py, fv/x86sem.py); float-class abstract "
     "interpretation (fv/nanflow.py); sympy identities (fv/sym.py); WGSL front end (fv/wgsl*.py); path summaries of the branching "
     "x86_64 clauses decided over order types (fv/x86pw.py); a symbolic mini-interpreter for small numeric bodies (fv/corners.py, fv/qef.py); "
     "quadrant / corner tables (fv/quadrant.py); term comparison of the rand / mix hash across all native implementations (fv/hashsem.py)"},
]

NOTES = (
    "Family: static analysis. Every check reads /repo's current working tree (override with FV_REPO for scratch "
    "copies), never builds or runs fidget, and reports file:line + rule + instance. known_findings.txt lists "
    "recorded findings and repaired defects."
)
