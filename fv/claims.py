"""What MANIFEST.json claims per property (tools/gen_manifest.py renders it)."""

STATIC_NOTE = (
    "Decides structural necessary conditions visible in the source on every path (table agreement, "
    "operand order, pairing, guards); it does not evaluate fidget and does not establish the numeric "
    "behaviour. Trusted: the syn parse equals what rustc compiles; the frozen expectation tables in /verif/fv."
)

CLAIMS = {
    "C01": {
        "text": "Static table-agreement analysis: every arm of the graph->SSA lowering, the register-allocator "
        "lowering, the four interpreter loops and the reference evaluator is shown to map its opcode to the "
        "namesake operation with operands in the order its form dictates. A violated rule refutes the property; "
        "passing establishes only these necessary conditions.",
        "note": STATIC_NOTE,
        "technique": "static analysis: syntax-tree table-agreement lint (syn AST, per-arm term normalisation)",
    },
}

PENDING = "check not built yet in this round (static rules planned in DESIGN.md section 3)"
NOT_APPLICABLE = {("C%02d" % i): PENDING for i in range(1, 21)}

ENGINES = [
    {"name": "astdump", "path": "tools/astdump", "serves_properties": ["C%02d" % i for i in range(1, 21)],
     "kind_free_text": "syn-based parser that dumps every /repo source file as a JSON syntax tree (no evaluation)"},
    {"name": "fvlint", "path": "fv", "serves_properties": ["C%02d" % i for i in range(1, 21)],
     "kind_free_text": "repository-specific static rules (Python) over the syntax trees: table agreement, role/axis "
     "consistency, sibling agreement, pairing/protocol, field coverage, guard shape"},
]

NOTES = (
    "Family: static analysis. Every check reads /repo's current working tree (override with FV_REPO for scratch "
    "copies), never builds or runs fidget, and reports file:line + rule + instance. known_findings.txt lists "
    "recorded findings and repaired defects."
)
