"""Loading and querying the syntax trees produced by tools/astdump.

Nothing here runs or evaluates fidget code: the trees are read, searched and
normalised.  All rule code goes through this module so that "which file, which
function, which arm" is resolved the same way everywhere.
"""
import hashlib
import json
import os
import subprocess
import sys

VERIF = os.path.dirname(os.path.dirname(os.path.abspath(__file__)))
REPO = os.environ.get("FV_REPO", "/repo")
CACHE = os.path.join(VERIF, ".cache")
ASTDUMP = os.path.join(VERIF, "tools", "astdump", "target", "release", "astdump")


class AnchorLost(Exception):
    """A construct a rule is anchored on is no longer where it was."""

    def __init__(self, what):
        super().__init__(what)
        self.what = what


# ---------------------------------------------------------------------------
# source-tree hashing and cache


def _source_files(root):
    out = []
    for d, dirs, files in os.walk(root):
        dirs[:] = sorted(x for x in dirs if x not in ("target", ".git", "node_modules"))
        for f in sorted(files):
            if f.endswith((".rs", ".wgsl", ".toml", ".lock")):
                out.append(os.path.join(d, f))
    return out


_TREE_HASH = {}


def tree_hash(root=None):
    root = root or REPO
    if root in _TREE_HASH:
        return _TREE_HASH[root]
    h = hashlib.sha256()
    for p in _source_files(root):
        h.update(os.path.relpath(p, root).encode())
        h.update(b"\0")
        with open(p, "rb") as f:
            h.update(hashlib.sha256(f.read()).digest())
    _TREE_HASH[root] = h.hexdigest()[:20]
    return _TREE_HASH[root]


def ensure_astdump():
    if not os.path.exists(ASTDUMP):
        d = os.path.join(VERIF, "tools", "astdump")
        subprocess.run(
            ["cargo", "build", "--release", "--offline"],
            cwd=d,
            check=True,
            stdout=subprocess.DEVNULL,
            stderr=subprocess.DEVNULL,
            env=dict(os.environ, CARGO_NET_OFFLINE="true"),
        )
    return ASTDUMP


_AST_DIR = {}


def ast_dir(root=None):
    root = root or REPO
    if root in _AST_DIR:
        return _AST_DIR[root]
    d = os.path.join(CACHE, "ast-" + tree_hash(root))
    if not os.path.exists(os.path.join(d, "index.json")):
        import fcntl

        os.makedirs(CACHE, exist_ok=True)
        with open(os.path.join(CACHE, ".lock"), "w") as lk:
            fcntl.flock(lk, fcntl.LOCK_EX)  # checks may run concurrently: one of them builds the cache
            try:
                if not os.path.exists(os.path.join(d, "index.json")):
                    tmp = d + ".tmp%d" % os.getpid()
                    subprocess.run(["rm", "-rf", tmp])
                    subprocess.run([ensure_astdump(), root, tmp], check=True)
                    os.rename(tmp, d)
                    _prune_cache(keep=d)
            finally:
                fcntl.flock(lk, fcntl.LOCK_UN)
    _AST_DIR[root] = d
    return d


def _prune_cache(keep=None, n=8):
    """drop old cache entries (never the current one, never anything touched in the last ten minutes)"""
    import time

    try:
        ents = [os.path.join(CACHE, e) for e in os.listdir(CACHE) if e.startswith("ast-")]
        ents.sort(key=os.path.getmtime, reverse=True)
        now = time.time()
        for e in ents[n:]:
            if e == keep or now - os.path.getmtime(e) < 600:
                continue
            subprocess.run(["rm", "-rf", e])
    except OSError:
        pass


_FILES = {}


def index(root=None):
    with open(os.path.join(ast_dir(root), "index.json")) as f:
        return json.load(f)


def load(path, root=None):
    """Return the parsed tree of one source file (path relative to the repo)."""
    root = root or REPO
    key = (root, path)
    if key in _FILES:
        return _FILES[key]
    p = os.path.join(ast_dir(root), path.replace("/", "__") + ".json")
    if not os.path.exists(p):
        raise AnchorLost("file %s is missing or does not parse" % path)
    with open(p) as f:
        d = json.load(f)
    _annotate(d)
    _FILES[key] = d
    return d


def source_lines(path, root=None):
    with open(os.path.join(root or REPO, path)) as f:
        return f.read().split("\n")


def read_text(path, root=None):
    p = os.path.join(root or REPO, path)
    if not os.path.exists(p):
        raise AnchorLost("file %s is missing" % path)
    with open(p) as f:
        return f.read()


# ---------------------------------------------------------------------------
# tree walking


def children(node):
    if isinstance(node, dict):
        for k, v in node.items():
            if k in ("tokens",):
                continue
            if isinstance(v, (dict, list)):
                yield v
    elif isinstance(node, list):
        for v in node:
            if isinstance(v, (dict, list)):
                yield v


def walk(node):
    """Pre-order walk over every dict node (macro token lists are skipped, but
    macro arguments that parsed as expressions are visited)."""
    stack = [node]
    while stack:
        n = stack.pop()
        if isinstance(n, dict):
            if "k" in n:
                yield n
            kids = list(children(n))
        else:
            kids = [v for v in n if isinstance(v, (dict, list))]
        stack.extend(reversed(kids))


def find(node, kind=None, pred=None):
    for n in walk(node):
        if kind is not None and n.get("k") != kind:
            continue
        if pred is not None and not pred(n):
            continue
        yield n


def is_test_attrs(node):
    for a in node.get("attrs", []) or []:
        s = a.replace(" ", "")
        if s.startswith("cfg(test)") or s == "test" or s.startswith("cfg(all(test"):
            return True
    return False


def _annotate(filed):
    """Attach to every Fn its owner (impl type / trait) and module path, and
    whether it sits in test code."""
    fns = []

    def rec(items, mods, owner, test):
        for it in items or []:
            k = it.get("k")
            t = test or is_test_attrs(it)
            if k == "Mod":
                rec(it.get("items"), mods + [it["name"]], None, t)
            elif k == "Impl":
                ow = {
                    "self_ty": it["self_ty"].replace(" ", ""),
                    "trait": (it.get("trait") or "").replace(" ", "") or None,
                    "impl_ln": it["ln"],
                    "unsafe": it.get("unsafe", False),
                }
                rec(it.get("items"), mods, ow, t)
            elif k == "Trait":
                ow = {"self_ty": None, "trait": it["name"], "trait_def": True, "impl_ln": it["ln"]}
                rec(it.get("items"), mods, ow, t)
            elif k == "Fn":
                it["_owner"] = owner
                it["_mods"] = mods
                it["_test"] = t
                it["_file"] = filed["file"]
                fns.append(it)
                # nested fns (e.g. extern "sysv64" callbacks declared inside)
                if it.get("body"):
                    nested = [s for s in it["body"]["stmts"] if s.get("k") in ("Fn", "Impl", "Mod")]
                    if nested:
                        rec(nested, mods + ["{" + it["name"] + "}"], owner, t)

    rec(filed["items"], [], None, False)
    filed["_fns"] = fns


def fns(path, root=None, include_tests=False):
    d = load(path, root)
    return [f for f in d["_fns"] if include_tests or not f["_test"]]


def strip_generics(s):
    """`VmData<N>` -> `VmData`; `std::ops::Add<Interval>` -> `std::ops::Add`"""
    out = []
    depth = 0
    for ch in s:
        if ch == "<":
            depth += 1
        elif ch == ">":
            depth -= 1
        elif depth == 0:
            out.append(ch)
    return "".join(out)


def find_fn(path, name, self_ty=None, trait=None, root=None, nth=None, include_tests=False, inherent=False):
    """Find one function by name and (optionally) the type / trait of the impl it
    lives in.  `self_ty` and `trait` are compared after dropping generics and
    whitespace; `trait` may be given by its last path segment."""
    cands = []
    for f in fns(path, root, include_tests=include_tests):
        if f["name"] != name:
            continue
        ow = f["_owner"] or {}
        if self_ty is not None:
            st = strip_generics(ow.get("self_ty") or "")
            if st != self_ty and st.split("::")[-1] != self_ty:
                continue
        if inherent and ow.get("trait"):
            continue
        if trait is not None:
            tr = ow.get("trait") or ""
            full = tr.replace(" ", "")
            base = strip_generics(full)
            if trait not in (full, base, base.split("::")[-1]):
                continue
        cands.append(f)
    if not cands:
        raise AnchorLost(
            "fn %s%s%s not found in %s"
            % (name, " of " + self_ty if self_ty else "", " (trait %s)" % trait if trait else "", path)
        )
    if nth is not None:
        if nth >= len(cands):
            raise AnchorLost("fn %s #%d not found in %s" % (name, nth, path))
        return cands[nth]
    if len(cands) > 1:
        raise AnchorLost(
            "fn %s is ambiguous in %s (%d candidates: %s)"
            % (name, path, len(cands), [c["ln"] for c in cands])
        )
    return cands[0]


def find_items(path, kind, name=None, root=None, include_tests=False):
    d = load(path, root)
    out = []

    def rec(items, test):
        for it in items or []:
            t = test or is_test_attrs(it)
            if it.get("k") == "Mod":
                rec(it.get("items"), t)
                continue
            if t and not include_tests:
                continue
            if it.get("k") == kind and (name is None or it.get("name") == name):
                out.append(it)
            if it.get("k") == "Impl":
                for sub in it.get("items") or []:
                    if sub.get("k") == kind and (name is None or sub.get("name") == name):
                        sub.setdefault("_impl", it)
                        out.append(sub)

    rec(d["items"], False)
    return out


def find_item(path, kind, name, root=None):
    c = find_items(path, kind, name, root)
    if len(c) != 1:
        raise AnchorLost("%s %s: %d found in %s" % (kind, name, len(c), path))
    return c[0]


def find_impls(path, self_ty=None, trait=None, root=None):
    d = load(path, root)
    out = []

    def rec(items, test):
        for it in items or []:
            t = test or is_test_attrs(it)
            if it.get("k") == "Mod":
                rec(it.get("items"), t)
            elif it.get("k") == "Impl" and not t:
                st = strip_generics(it["self_ty"].replace(" ", ""))
                tr = (it.get("trait") or "").replace(" ", "")
                if self_ty is not None and st != self_ty:
                    continue
                if trait is not None:
                    base = strip_generics(tr)
                    if trait not in (tr, base, base.split("::")[-1]):
                        continue
                out.append(it)

    rec(d["items"], False)
    return out


def macro_defs(path, name, root=None):
    d = load(path, root)
    return [m for m in find(d["items"], "Macro") if m.get("def") == name]


def macro_calls(node, name):
    return [m for m in find(node, "Macro") if m.get("name") == name and not m.get("def")]


# ---------------------------------------------------------------------------
# expression helpers


def path_segs(e):
    if e is None:
        return None
    if e.get("k") == "Path":
        return e["segs"]
    if e.get("k") == "PPath":
        return e["path"]["segs"]
    return None


def is_path(e, *segs):
    s = path_segs(e)
    return s is not None and list(s) == list(segs)


def ident(e):
    """name of a single-segment path expression, else None"""
    s = path_segs(e)
    if s is not None and len(s) == 1:
        return s[0]
    return None


def strip(e):
    """drop parentheses, references, derefs and casts that do not change which
    value is denoted"""
    while e is not None:
        k = e.get("k")
        if k == "Paren":
            e = e["e"]
        elif k == "Ref":
            e = e["e"]
        elif k == "Unary" and e["op"] == "*":
            e = e["e"]
        else:
            break
    return e


def flatten_or(p):
    if p.get("k") == "POr":
        out = []
        for c in p["cases"]:
            out.extend(flatten_or(c))
        return out
    return [p]


def pat_variant(p):
    """For a pattern `Enum::Variant(a, b, ..)` / `Enum::Variant { .. }` /
    `Enum::Variant` return (path segments, [sub-patterns] or None)."""
    k = p.get("k")
    if k == "PTupleStruct":
        return p["path"]["segs"], p["elems"]
    if k == "PStruct":
        return p["path"]["segs"], [f["pat"] for f in p["fields"]]
    if k == "PPath":
        return p["path"]["segs"], None
    if k == "PIdent" and "sub" not in p:
        return [p["name"]], None
    if k == "PRef":
        return pat_variant(p["pat"])
    return None, None


def pat_names(p):
    """all binding names introduced by a pattern, in source order"""
    out = []
    for n in walk(p):
        if n.get("k") == "PIdent":
            out.append(n["name"])
    return out


def binding_name(p):
    """`x`, `mut x`, `ref x`, `&x`, `x: T` -> 'x'; `_`/`..` -> None"""
    while p is not None:
        k = p.get("k")
        if k == "PIdent":
            return p["name"]
        if k in ("PRef", "PType"):
            p = p["pat"]
            continue
        return None
    return None


def stmts_of(body):
    """statements of a block-ish expression (an arm body that is a bare
    expression is returned as a single pseudo statement)"""
    if body is None:
        return []
    if body.get("k") == "Block":
        return body["stmts"]
    return [{"k": "ExprStmt", "e": body, "semi": False, "ln": body.get("ln")}]


def stmt_expr(s):
    if s.get("k") == "ExprStmt":
        return s["e"]
    return None


def calls_in(node, method=None, func=None):
    """method calls `.method(..)` and/or path calls `a::b::func(..)`"""
    for n in walk(node):
        if n.get("k") == "MethodCall" and method is not None and n["method"] == method:
            yield n
        elif n.get("k") == "Call" and func is not None:
            s = path_segs(n["func"])
            if s and s[-1] == func:
                yield n


BIN_PREC = {
    "||": 1, "&&": 2, "==": 3, "!=": 3, "<": 3, "<=": 3, ">": 3, ">=": 3,
    "|": 4, "^": 5, "&": 6, "<<": 7, ">>": 7, "+": 8, "-": 8, "*": 9, "/": 9, "%": 9,
}


def unparse(e):
    """A compact, canonical rendering of an expression / pattern / statement.
    Used for messages and for sibling diffing; not guaranteed to be valid Rust."""
    if e is None:
        return ""
    if isinstance(e, list):
        return ", ".join(unparse(x) for x in e)
    k = e.get("k")
    u = unparse
    if k == "Path":
        s = e.get("s") or "::".join(e["segs"])
        return s.replace(" ", "")
    if k == "Lit":
        return e["s"]
    if k == "Binary":
        return "(%s %s %s)" % (u(e["left"]), e["op"], u(e["right"]))
    if k == "Unary":
        return "%s%s" % (e["op"], u(e["e"]))
    if k == "Paren":
        if e["e"].get("k") in ("Range", "Closure", "If", "Match", "Unary", "Assign"):
            return "(%s)" % u(e["e"])
        return u(e["e"])
    if k == "Ref":
        return "&%s%s" % ("mut " if e["mut"] else "", u(e["e"]))
    if k == "Field":
        return "%s.%s" % (u(e["e"]), e["member"])
    if k == "Index":
        return "%s[%s]" % (u(e["e"]), u(e["index"]))
    if k == "Call":
        return "%s(%s)" % (u(e["func"]), u(e["args"]))
    if k == "MethodCall":
        return "%s.%s%s(%s)" % (u(e["recv"]), e["method"], e.get("turbofish", "").replace(" ", ""), u(e["args"]))
    if k == "Cast":
        return "(%s as %s)" % (u(e["e"]), e["ty"].replace(" ", ""))
    if k == "Tuple":
        return "(%s)" % u(e["elems"])
    if k == "Array":
        return "[%s]" % u(e["elems"])
    if k == "Repeat":
        return "[%s; %s]" % (u(e["e"]), u(e["len"]))
    if k == "Assign":
        return "%s = %s" % (u(e["left"]), u(e["right"]))
    if k == "Struct":
        fs = ", ".join("%s: %s" % (f["name"], u(f["e"])) for f in e["fields"])
        if e.get("rest"):
            fs += ", ..%s" % u(e["rest"])
        return "%s { %s }" % (u(e["path"]), fs)
    if k == "Try":
        return u(e["e"]) + "?"
    if k == "Range":
        return "%s..%s%s" % (u(e["start"]), "=" if e["closed"] else "", u(e["end"]))
    if k == "Closure":
        return "|%s| %s" % (u(e["inputs"]), u(e["body"]))
    if k == "Block":
        return "{ %s }" % " ".join(u(s) for s in e["stmts"])
    if k == "Unsafe":
        return "unsafe " + u(e["body"])
    if k == "If":
        s = "if %s %s" % (u(e["cond"]), u(e["then"]))
        if e.get("else"):
            s += " else " + u(e["else"])
        return s
    if k == "LetCond":
        return "let %s = %s" % (u(e["pat"]), u(e["e"]))
    if k == "Match":
        arms = " ".join(
            "%s%s => %s," % (u(a["pat"]), " if " + u(a["guard"]) if a.get("guard") else "", u(a["body"]))
            for a in e["arms"]
        )
        return "match %s { %s }" % (u(e["e"]), arms)
    if k == "For":
        return "for %s in %s %s" % (u(e["pat"]), u(e["iter"]), u(e["body"]))
    if k == "While":
        return "while %s %s" % (u(e["cond"]), u(e["body"]))
    if k == "Loop":
        return "loop " + u(e["body"])
    if k == "Return":
        return "return %s" % u(e["e"])
    if k == "Break":
        return "break %s" % u(e["e"])
    if k == "Continue":
        return "continue"
    if k == "Macro":
        if "args" in e:
            return "%s!(%s)" % (e["name"], u(e["args"]))
        if "expr" in e:
            return "%s!(%s, %s)" % (e["name"], u(e["expr"]), u(e["pat"]))
        return "%s!(%s)" % (e["name"], tokens_str(e["tokens"]))
    if k == "Let":
        s = "let %s" % u(e["pat"])
        if e.get("init"):
            s += " = " + u(e["init"])
        if e.get("else"):
            s += " else " + u(e["else"])
        return s + ";"
    if k == "ExprStmt":
        return u(e["e"]) + (";" if e.get("semi") else "")
    if k == "PIdent":
        s = ("ref " if e["ref"] else "") + ("mut " if e["mut"] else "") + e["name"]
        if "sub" in e:
            s += " @ " + u(e["sub"])
        return s
    if k == "PTupleStruct":
        return "%s(%s)" % (u(e["path"]), u(e["elems"]))
    if k == "PTuple":
        return "(%s)" % u(e["elems"])
    if k == "PStruct":
        return "%s { %s%s }" % (
            u(e["path"]),
            ", ".join("%s: %s" % (f["name"], u(f["pat"])) for f in e["fields"]),
            ", .." if e["rest"] else "",
        )
    if k == "PPath":
        return u(e["path"])
    if k == "POr":
        return " | ".join(u(c) for c in e["cases"])
    if k == "PWild":
        return "_"
    if k == "PRest":
        return ".."
    if k == "PRef":
        return "&" + u(e["pat"])
    if k == "PLit":
        return u(e["lit"])
    if k == "PType":
        return "%s: %s" % (u(e["pat"]), e["ty"].replace(" ", ""))
    if k == "PSlice":
        return "[%s]" % u(e["elems"])
    if k == "PRange":
        return "%s..%s%s" % (u(e["start"]), "=" if e["closed"] else "", u(e["end"]))
    if k == "Fn":
        return "fn %s" % e["name"]
    if k in ("Verbatim", "PVerbatim"):
        return e.get("s", "")
    return "<%s>" % k


def tokens_str(ts):
    out = []
    for t in ts:
        if t["t"] == "g":
            close = {"(": ")", "[": "]", "{": "}", "": ""}[t["d"]]
            out.append(t["d"] + tokens_str(t["ts"]) + close)
        else:
            out.append(t["s"])
    return " ".join(out)


def lit_value(e):
    """numeric value of a literal expression (possibly negated), else None"""
    e = strip(e)
    if e is None:
        return None
    if e.get("k") == "Unary" and e["op"] == "-":
        v = lit_value(e["e"])
        return -v if v is not None else None
    if e.get("k") == "Lit":
        if e["ty"] == "int":
            return int(e["v"])
        if e["ty"] == "float":
            return float(e["v"])
    if e.get("k") == "Cast":
        return lit_value(e["e"])
    return None


def where(fn_or_file, node=None):
    """`file:line` for messages"""
    f = fn_or_file if isinstance(fn_or_file, str) else fn_or_file.get("_file", "?")
    n = node if node is not None else (fn_or_file if not isinstance(fn_or_file, str) else {})
    return "%s:%s" % (f, n.get("ln", "?"))


def fn_label(fn):
    ow = fn.get("_owner") or {}
    parts = []
    if ow.get("trait") and ow.get("self_ty"):
        parts.append("<%s as %s>" % (ow["self_ty"], ow["trait"]))
    elif ow.get("self_ty"):
        parts.append(ow["self_ty"])
    elif ow.get("trait"):
        parts.append(ow["trait"])
    parts.append(fn["name"])
    return "::".join(parts)


# ---------------------------------------------------------------------------
# linearised method-call facts (for ordering / guard rules)


def linear_calls(fn_or_block):
    """every method call / path call of a body in source order with its nesting:
    dict(i, kind, recv, method, args, node, conds=[cond texts], loops=n, unsafe=bool)"""
    out = []
    body = fn_or_block.get("body", fn_or_block) if fn_or_block.get("k") == "Fn" else fn_or_block

    def rec(n, conds, loops, unsafe):
        if isinstance(n, list):
            for x in n:
                rec(x, conds, loops, unsafe)
            return
        if not isinstance(n, dict):
            return
        k = n.get("k")
        if k == "If":
            c = unparse(n["cond"]).replace(" ", "")
            rec(n["cond"], conds, loops, unsafe)
            rec(n["then"], conds + [c], loops, unsafe)
            if n.get("else"):
                rec(n["else"], conds + ["!(" + c + ")"], loops, unsafe)
            return
        if k == "Match":
            rec(n["e"], conds, loops, unsafe)
            for a in n["arms"]:
                rec(a["body"], conds + ["match:" + unparse(a["pat"]).replace(" ", "")], loops, unsafe)
            return
        if k in ("For", "While", "Loop"):
            if k == "For":
                rec(n["iter"], conds, loops, unsafe)
            if k == "While":
                rec(n["cond"], conds, loops, unsafe)
            rec(n["body"], conds, loops + 1, unsafe)
            return
        if k == "Unsafe":
            rec(n["body"], conds, loops, True)
            return
        if k == "Closure":
            rec(n["body"], conds, loops + 1, unsafe)
            return
        if k == "MethodCall":
            rec(n["recv"], conds, loops, unsafe)
            for a in n["args"]:
                rec(a, conds, loops, unsafe)
            out.append(
                dict(
                    kind="m",
                    recv=unparse(n["recv"]).replace(" ", ""),
                    method=n["method"],
                    args=[unparse(a).replace(" ", "") for a in n["args"]],
                    node=n,
                    conds=list(conds),
                    loops=loops,
                    unsafe=unsafe,
                )
            )
            return
        if k == "Call":
            for a in n["args"]:
                rec(a, conds, loops, unsafe)
            rec(n["func"], conds, loops, unsafe)
            out.append(
                dict(
                    kind="c",
                    recv="",
                    method=unparse(n["func"]).replace(" ", ""),
                    args=[unparse(a).replace(" ", "") for a in n["args"]],
                    node=n,
                    conds=list(conds),
                    loops=loops,
                    unsafe=unsafe,
                )
            )
            return
        for v in children(n):
            rec(v, conds, loops, unsafe)

    rec(body, [], 0, False)
    for i, c in enumerate(out):
        c["i"] = i
    return out


# ---------------------------------------------------------------------------
# rename-tolerant fragment matching
#
# Many rules test that a normalised statement shape occurs in a function body
# (`frag in txt(fn["body"])`).  A local variable renamed everywhere in that
# function leaves the behaviour unchanged, so it must not raise an alarm.
# FragText is a str whose `in` / `==` fall back, when the literal test fails, to
# matching modulo a consistent renaming of identifiers that have *vanished* from
# the function (names the fragment uses but the function no longer contains) to
# identifiers that are *new* (present in the function, unknown to the fragment).
# Names that still occur are never renamed, so an exchange of two existing names
# (i <-> j, lhs <-> rhs) is still a mismatch.

import re as _re

_KW = {"let", "for", "in", "if", "else", "return", "mut", "as", "match", "while", "loop", "break", "continue", "ref",
       "move", "unsafe", "fn", "impl", "self", "Self", "true", "false", "Some", "None", "Ok", "Err"}
_WORD = _re.compile(r"[A-Za-z_][A-Za-z_0-9]*")


def _spaced(node):
    s = unparse(node)
    s = _re.sub(r"(?<=[A-Za-z_0-9]) +(?=[A-Za-z_0-9])", "\x01", s)
    return s.replace(" ", "").replace("\x01", " ")


class FragText(str):
    def __new__(cls, node):
        spaced = _spaced(node)
        o = super().__new__(cls, spaced.replace(" ", ""))
        o._spaced = spaced
        o._vocab = set(_WORD.findall(spaced))
        # only locally bound names may stand in for a fragment's name: a field or method that changed is never forgiven
        o._bound = {n["name"] for n in walk(node) if isinstance(n, dict) and n.get("k") == "PIdent"}
        o._map = {}
        return o

    def _segment(self, token):
        """split a fused fragment token (`letnext_center`) into words; returns (words, unknown words)"""
        vocab = self._vocab | _KW
        n = len(token)
        best = {0: ([], 0)}
        for i in range(n):
            if i not in best:
                continue
            words, unk = best[i]
            for j in range(i + 1, n + 1):
                w = token[i:j]
                if not _re.fullmatch(r"[A-Za-z_][A-Za-z_0-9]*|[0-9][A-Za-z_0-9.]*", w) and not w[0].isdigit():
                    continue
                cost = 0 if (w in vocab or w[0].isdigit()) else len(w) + 1
                cand = (words + [w], unk + cost)
                if j not in best or cand[1] < best[j][1] or (cand[1] == best[j][1] and len(cand[0]) < len(best[j][0])):
                    best[j] = cand
        return best.get(n, ([token], 1))

    def _vanished(self, frag):
        out = []
        for tok in _WORD.findall(frag):
            if tok in self._vocab or tok in _KW:
                continue
            words, unk = self._segment(tok)
            for w in words:
                if w not in self._vocab and w not in _KW and not w[0].isdigit() and w not in out:
                    out.append(w)
        return out

    def _tolerant(self, frag, whole=False):
        van = [v for v in self._vanished(frag) if len(v) > 0]
        if not van or len(van) > 3:
            return False
        frag_words = set()
        for mo in _WORD.finditer(frag):
            words = self._segment(mo.group(0))[0]
            frag_words.update(words)
            # a name used as a field, method, path segment, macro or call is not a local: never forgiven
            pre = frag[mo.start() - 1] if mo.start() else ""
            post = frag[mo.end():mo.end() + 2]
            if words[0] in van and pre in (".", ":"):
                return False
            if words[-1] in van and (post[:1] in ("(", "!") or post == "::" or (post[:1] == ":" and pre in ("{", ","))):
                return False
        # the fragment needs an anchor the function still has, else anything matches anything
        if not any(w in self._vocab and w not in _KW and not w[0].isdigit() for w in frag_words):
            return False
        new = sorted(w for w in self._bound if w not in _KW and w not in frag_words and not w[0].isupper())
        # apply mappings already decided on this text first
        def apply(f, m):
            if not m:
                return f

            def sub(mo):
                return "".join(m.get(w, w) for w in self._segment(mo.group(0))[0])

            return _WORD.sub(sub, f)

        def test(f):
            return (f == str(self)) if whole else str.__contains__(self, f)

        base = apply(frag, {k: v for k, v in self._map.items() if k in van})
        rest = [v for v in van if v not in self._map]
        if not rest:
            return test(base)
        import itertools

        for combo in itertools.permutations(new, len(rest)) if len(rest) <= 2 else []:
            m = dict(zip(rest, combo))
            if test(apply(base, m)):
                self._map.update(m)
                return True
        return False

    def __contains__(self, frag):
        if str.__contains__(self, frag):
            return True
        try:
            return self._tolerant(frag)
        except Exception:
            return False

    def __eq__(self, other):
        if str.__eq__(self, other):
            return True
        if isinstance(other, str) and not isinstance(other, FragText):
            try:
                return self._tolerant(other, whole=True)
            except Exception:
                return False
        return False

    def __ne__(self, other):
        return not self.__eq__(other)

    __hash__ = str.__hash__


def ftxt(node):
    return FragText(node)


# ---------------------------------------------------------------------------
# Inlining of simple lets: `let t = f(a, b); g(t)` reads as `g(f(a, b))`.
# Naming a sub-expression is the commonest behaviour-preserving edit; rules that
# compare statement shapes call this first so that they see through it.

_SIMPLE_KINDS = {"Path", "Lit", "Call", "Cast", "Paren", "Tuple", "Struct", "Binary", "Unary", "Ref", "Field", "MethodCall"}
_SIMPLE_METHODS = {"into", "clone", "abs", "neg", "sqrt", "min", "max", "recip", "square", "to_owned", "as_ref", "get", "len", "lower", "upper"}


def _is_simple_init(e):
    """an initialiser that reads only locals: no `self`, no indexing, no macro,
    no `?`, no closure, no block; method calls only from a fixed pure list"""
    if e is None:
        return False
    for n in walk(e):
        k = n.get("k")
        if k is None:
            continue
        if k[0] == "P" and k[1:2].isupper():
            return False
        if k not in _SIMPLE_KINDS and not k.startswith("Type") and k not in ("QPath", "Seg", "FieldValue", "GenericArg"):
            return False
        if k == "Path" and path_segs(n) == ["self"]:
            return False
        if k == "MethodCall" and n["method"] not in _SIMPLE_METHODS:
            return False
        if k == "Unary" and n.get("op") == "*":
            return False
    return True


def _subst(node, name, repl):
    if isinstance(node, list):
        return [_subst(x, name, repl) for x in node]
    if not isinstance(node, dict):
        return node
    if node.get("k") == "Path" and ident(node) == name:
        return {"k": "Paren", "e": repl, "ln": node.get("ln"), "c": node.get("c")} if repl.get("k") in ("Binary", "Unary", "Cast") else repl
    out = {k: (_subst(v, name, repl) if isinstance(v, (dict, list)) and k != "tokens" else v) for k, v in node.items()}
    if out.get("short") and out.get("e") is not node.get("e") and ident(node.get("e")) == name:
        out["short"] = False
    return out


def _uses(node, name):
    n_uses = 0
    for n in walk(node):
        if n.get("k") == "Path" and ident(n) == name:
            n_uses += 1
        elif n.get("k") == "Macro" and name in _WORD.findall(tokens_str(n) if n.get("tokens") else ""):
            if not n.get("args"):
                return 99
        elif n.get("k") == "PIdent" and n["name"] == name:
            return 99  # shadowed later: stay away
    return n_uses


def inline_simple_lets(stmts):
    """statement list with every single-use simple `let name = init;` folded into its use
    (same block, the use not under a loop or closure)"""
    stmts = list(stmts)
    changed = True
    while changed:
        changed = False
        for i, s in enumerate(stmts):
            if s.get("k") != "Let" or s.get("else") or s["pat"].get("k") not in ("PIdent", "PType"):
                continue
            p = s["pat"] if s["pat"].get("k") == "PIdent" else s["pat"].get("pat", {})
            if p.get("k") != "PIdent" or p.get("mut") or p.get("ref") or p.get("sub"):
                continue
            name = p["name"]
            init = s.get("init")
            if not _is_simple_init(init):
                continue
            rest = stmts[i + 1:]
            if sum(_uses(r, name) for r in rest) != 1:
                continue
            # the single use must not sit under a loop or a closure
            under = False
            for r in rest:
                for n in walk(r):
                    if n.get("k") in ("For", "While", "Loop", "Closure") and _uses(n, name):
                        under = True
            if under:
                continue
            stmts = stmts[:i] + [_subst(r, name, init) for r in rest]
            changed = True
            break
    return stmts
