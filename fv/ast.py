"""Loading and querying the syntax trees produced by tools/astdump.

Nothing here runs or evaluates fidget code: the trees are read, searched and
normalised.  All rule code goes through this module so that "which file, which
function, which arm" is resolved the same way everywhere.
"""
import hashlib
import json
import os
import subprocess
import sys

VERIF = os.path.dirname(os.path.dirname(os.path.abspath(__file__)))
REPO = os.environ.get("FV_REPO", "/repo")
CACHE = os.path.join(VERIF, ".cache")
ASTDUMP = os.path.join(VERIF, "tools", "astdump", "target", "release", "astdump")


class AnchorLost(Exception):
    """A construct a rule is anchored on is no longer where it was."""

    def __init__(self, what):
        super().__init__(what)
        self.what = what


# ---------------------------------------------------------------------------
# source-tree hashing and cache


def _source_files(root):
    out = []
    for d, dirs, files in os.walk(root):
        dirs[:] = sorted(x for x in dirs if x not in ("target", ".git", "node_modules"))
        for f in sorted(files):
            if f.endswith((".rs", ".wgsl", ".toml", ".lock")):
                out.append(os.path.join(d, f))
    return out


_TREE_HASH = {}


def tree_hash(root=None):
    root = root or REPO
    if root in _TREE_HASH:
        return _TREE_HASH[root]
    h = hashlib.sha256()
    for p in _source_files(root):
        h.update(os.path.relpath(p, root).encode())
        h.update(b"\0")
        with open(p, "rb") as f:
            h.update(hashlib.sha256(f.read()).digest())
    _TREE_HASH[root] = h.hexdigest()[:20]
    return _TREE_HASH[root]


def ensure_astdump():
    if not os.path.exists(ASTDUMP):
        d = os.path.join(VERIF, "tools", "astdump")
        subprocess.run(
            ["cargo", "build", "--release", "--offline"],
            cwd=d,
            check=True,
            stdout=subprocess.DEVNULL,
            stderr=subprocess.DEVNULL,
            env=dict(os.environ, CARGO_NET_OFFLINE="true"),
        )
    return ASTDUMP


_AST_DIR = {}


def ast_dir(root=None):
    root = root or REPO
    if root in _AST_DIR:
        return _AST_DIR[root]
    d = os.path.join(CACHE, "ast-" + tree_hash(root))
    if not os.path.exists(os.path.join(d, "index.json")):
        import fcntl

        os.makedirs(CACHE, exist_ok=True)
        with open(os.path.join(CACHE, ".lock"), "w") as lk:
            fcntl.flock(lk, fcntl.LOCK_EX)  # checks may run concurrently: one of them builds the cache
            try:
                if not os.path.exists(os.path.join(d, "index.json")):
                    tmp = d + ".tmp%d" % os.getpid()
                    subprocess.run(["rm", "-rf", tmp])
                    subprocess.run([ensure_astdump(), root, tmp], check=True)
                    os.rename(tmp, d)
                    _prune_cache(keep=d)
            finally:
                fcntl.flock(lk, fcntl.LOCK_UN)
    try:
        os.utime(d, None)  # in use: keep it away from the pruning of concurrent runs on other trees
    except OSError:
        pass
    _AST_DIR[root] = d
    return d


def _prune_cache(keep=None, n=8):
    """drop old cache entries (never the current one, never anything touched in the last ten minutes)"""
    import time

    try:
        ents = [os.path.join(CACHE, e) for e in os.listdir(CACHE) if e.startswith("ast-")]
        ents.sort(key=os.path.getmtime, reverse=True)
        now = time.time()
        for e in ents[n:]:
            if e == keep or now - os.path.getmtime(e) < 600:
                continue
            subprocess.run(["rm", "-rf", e])
    except OSError:
        pass


def _rebuild_cache(root):
    """the cache entry of this tree is damaged (pruned under us by a concurrent run): build it again"""
    import fcntl

    d = os.path.join(CACHE, "ast-" + tree_hash(root))
    os.makedirs(CACHE, exist_ok=True)
    with open(os.path.join(CACHE, ".lock"), "w") as lk:
        fcntl.flock(lk, fcntl.LOCK_EX)
        try:
            tmp = d + ".tmp%d" % os.getpid()
            subprocess.run(["rm", "-rf", tmp])
            subprocess.run([ensure_astdump(), root, tmp], check=True)
            subprocess.run(["rm", "-rf", d])
            os.rename(tmp, d)
        finally:
            fcntl.flock(lk, fcntl.LOCK_UN)
    _AST_DIR[root] = d
    return d


_FILES = {}


def index(root=None):
    with open(os.path.join(ast_dir(root), "index.json")) as f:
        return json.load(f)


class _TD(dict):
    """FV_TRACE_FNS=<file>: a dict that notes which functions' bodies a run looked up (coverage audit,
    tools/fn_audit.py); never active in a registered check"""

    def _note(self, k):
        if k == "body" and dict.get(self, "k") == "Fn" and "_file" in self:
            _TRACED.add("%s\t%s\t%s\t%s" % (dict.get(self, "_file"), fn_label(self), dict.get(self, "_test"), CURRENT_RULE[0]))

    def __getitem__(self, k):
        self._note(k)
        return dict.__getitem__(self, k)

    def get(self, k, d=None):
        self._note(k)
        return dict.get(self, k, d)


_TRACED = set()
CURRENT_RULE = [""]
_TRACE_HOOK = None
if os.environ.get("FV_TRACE_FNS"):
    import atexit

    _TRACE_HOOK = _TD

    def _dump_trace():
        with open(os.environ["FV_TRACE_FNS"], "a") as f:
            f.write("".join(x + "\n" for x in sorted(_TRACED)))

    atexit.register(_dump_trace)


def load(path, root=None):
    """Return the parsed tree of one source file (path relative to the repo)."""
    root = root or REPO
    key = (root, path)
    if key in _FILES:
        return _FILES[key]
    p = os.path.join(ast_dir(root), path.replace("/", "__") + ".json")
    if not os.path.exists(p) and os.path.exists(os.path.join(root, path)):
        # the source exists but its dump is gone: a concurrent run on another tree pruned this cache entry
        # between our lookup and now - rebuild it once
        p = os.path.join(_rebuild_cache(root), path.replace("/", "__") + ".json")
    if not os.path.exists(p):
        raise AnchorLost("file %s is missing or does not parse" % path)
    try:
        with open(p) as f:
            d = json.load(f, object_hook=_TRACE_HOOK)
    except (OSError, ValueError):
        p = os.path.join(_rebuild_cache(root), path.replace("/", "__") + ".json")
        with open(p) as f:
            d = json.load(f)
    _annotate(d)
    _FILES[key] = d
    return d


def source_lines(path, root=None):
    with open(os.path.join(root or REPO, path)) as f:
        return f.read().split("\n")


def read_text(path, root=None):
    p = os.path.join(root or REPO, path)
    if not os.path.exists(p):
        raise AnchorLost("file %s is missing" % path)
    with open(p) as f:
        return f.read()


# ---------------------------------------------------------------------------
# tree walking


def children(node):
    if isinstance(node, dict):
        for k, v in node.items():
            if k in ("tokens",) or k[:1] == "_":
                continue  # annotations (`_owner`, `_impl`) point back up the tree
            if isinstance(v, (dict, list)):
                yield v
    elif isinstance(node, list):
        for v in node:
            if isinstance(v, (dict, list)):
                yield v


def walk(node):
    """Pre-order walk over every dict node (macro token lists are skipped, but
    macro arguments that parsed as expressions are visited)."""
    stack = [node]
    while stack:
        n = stack.pop()
        if isinstance(n, dict):
            if "k" in n:
                yield n
            kids = list(children(n))
        else:
            kids = [v for v in n if isinstance(v, (dict, list))]
        stack.extend(reversed(kids))


def find(node, kind=None, pred=None):
    for n in walk(node):
        if kind is not None and n.get("k") != kind:
            continue
        if pred is not None and not pred(n):
            continue
        yield n


def is_test_attrs(node):
    for a in node.get("attrs", []) or []:
        s = a.replace(" ", "")
        if s.startswith("cfg(test)") or s == "test" or s.startswith("cfg(all(test"):
            return True
    return False


def _annotate(filed):
    """Attach to every Fn its owner (impl type / trait) and module path, and
    whether it sits in test code."""
    fns = []

    def rec(items, mods, owner, test):
        for it in items or []:
            k = it.get("k")
            t = test or is_test_attrs(it)
            if k == "Mod":
                rec(it.get("items"), mods + [it["name"]], None, t)
            elif k == "Impl":
                ow = {
                    "self_ty": it["self_ty"].replace(" ", ""),
                    "trait": (it.get("trait") or "").replace(" ", "") or None,
                    "impl_ln": it["ln"],
                    "unsafe": it.get("unsafe", False),
                }
                rec(it.get("items"), mods, ow, t)
            elif k == "Trait":
                ow = {"self_ty": None, "trait": it["name"], "trait_def": True, "impl_ln": it["ln"]}
                rec(it.get("items"), mods, ow, t)
            elif k == "Fn":
                it["_owner"] = owner
                it["_mods"] = mods
                it["_test"] = t
                it["_file"] = filed["file"]
                fns.append(it)
                # nested fns (e.g. extern "sysv64" callbacks declared inside)
                if dict.get(it, "body"):
                    nested = [s for s in dict.get(it, "body")["stmts"] if s.get("k") in ("Fn", "Impl", "Mod")]
                    if nested:
                        rec(nested, mods + ["{" + it["name"] + "}"], owner, t)

    rec(filed["items"], [], None, False)
    filed["_fns"] = fns


def fns(path, root=None, include_tests=False):
    d = load(path, root)
    return [f for f in d["_fns"] if include_tests or not f["_test"]]


def strip_generics(s):
    """`VmData<N>` -> `VmData`; `std::ops::Add<Interval>` -> `std::ops::Add`"""
    out = []
    depth = 0
    for ch in s:
        if ch == "<":
            depth += 1
        elif ch == ">":
            depth -= 1
        elif depth == 0:
            out.append(ch)
    return "".join(out)


def find_fn(path, name, self_ty=None, trait=None, root=None, nth=None, include_tests=False, inherent=False):
    """Find one function by name and (optionally) the type / trait of the impl it
    lives in.  `self_ty` and `trait` are compared after dropping generics and
    whitespace; `trait` may be given by its last path segment."""
    cands = []
    for f in fns(path, root, include_tests=include_tests):
        if f["name"] != name:
            continue
        ow = f["_owner"] or {}
        if self_ty is not None:
            st = strip_generics(ow.get("self_ty") or "")
            if st != self_ty and st.split("::")[-1] != self_ty:
                continue
        if inherent and ow.get("trait"):
            continue
        if trait is not None:
            tr = ow.get("trait") or ""
            full = tr.replace(" ", "")
            base = strip_generics(full)
            if trait not in (full, base, base.split("::")[-1]):
                continue
        cands.append(f)
    if not cands:
        raise AnchorLost(
            "fn %s%s%s not found in %s"
            % (name, " of " + self_ty if self_ty else "", " (trait %s)" % trait if trait else "", path)
        )
    if nth is not None:
        if nth >= len(cands):
            raise AnchorLost("fn %s #%d not found in %s" % (name, nth, path))
        return cands[nth]
    if len(cands) > 1:
        raise AnchorLost(
            "fn %s is ambiguous in %s (%d candidates: %s)"
            % (name, path, len(cands), [c["ln"] for c in cands])
        )
    return cands[0]


def find_items(path, kind, name=None, root=None, include_tests=False):
    d = load(path, root)
    out = []

    def rec(items, test):
        for it in items or []:
            t = test or is_test_attrs(it)
            if it.get("k") == "Mod":
                rec(it.get("items"), t)
                continue
            if t and not include_tests:
                continue
            if it.get("k") == kind and (name is None or it.get("name") == name):
                out.append(it)
            if it.get("k") == "Impl":
                for sub in it.get("items") or []:
                    if sub.get("k") == kind and (name is None or sub.get("name") == name):
                        sub.setdefault("_impl", it)
                        out.append(sub)

    rec(d["items"], False)
    return out


def find_item(path, kind, name, root=None):
    c = find_items(path, kind, name, root)
    if len(c) != 1:
        raise AnchorLost("%s %s: %d found in %s" % (kind, name, len(c), path))
    return c[0]


def find_impls(path, self_ty=None, trait=None, root=None):
    d = load(path, root)
    out = []

    def rec(items, test):
        for it in items or []:
            t = test or is_test_attrs(it)
            if it.get("k") == "Mod":
                rec(it.get("items"), t)
            elif it.get("k") == "Impl" and not t:
                st = strip_generics(it["self_ty"].replace(" ", ""))
                tr = (it.get("trait") or "").replace(" ", "")
                if self_ty is not None and st != self_ty:
                    continue
                if trait is not None:
                    base = strip_generics(tr)
                    if trait not in (tr, base, base.split("::")[-1]):
                        continue
                out.append(it)

    rec(d["items"], False)
    return out


def macro_defs(path, name, root=None):
    d = load(path, root)
    return [m for m in find(d["items"], "Macro") if m.get("def") == name]


def macro_calls(node, name):
    return [m for m in find(node, "Macro") if m.get("name") == name and not m.get("def")]


# ---------------------------------------------------------------------------
# expression helpers


def path_segs(e):
    if e is None:
        return None
    if e.get("k") == "Path":
        return e["segs"]
    if e.get("k") == "PPath":
        return e["path"]["segs"]
    return None


def is_path(e, *segs):
    s = path_segs(e)
    return s is not None and list(s) == list(segs)


def ident(e):
    """name of a single-segment path expression, else None"""
    s = path_segs(e)
    if s is not None and len(s) == 1:
        return s[0]
    return None


def strip(e):
    """drop parentheses, references, derefs and casts that do not change which
    value is denoted"""
    while e is not None:
        k = e.get("k")
        if k == "Paren":
            e = e["e"]
        elif k == "Ref":
            e = e["e"]
        elif k == "Unary" and e["op"] == "*":
            e = e["e"]
        else:
            break
    return e


def flatten_or(p):
    if p.get("k") == "POr":
        out = []
        for c in p["cases"]:
            out.extend(flatten_or(c))
        return out
    return [p]


def pat_variant(p):
    """For a pattern `Enum::Variant(a, b, ..)` / `Enum::Variant { .. }` /
    `Enum::Variant` return (path segments, [sub-patterns] or None)."""
    k = p.get("k")
    if k == "PTupleStruct":
        return p["path"]["segs"], p["elems"]
    if k == "PStruct":
        return p["path"]["segs"], [f["pat"] for f in p["fields"]]
    if k == "PPath":
        return p["path"]["segs"], None
    if k == "PIdent" and "sub" not in p:
        return [p["name"]], None
    if k == "PRef":
        return pat_variant(p["pat"])
    return None, None


def pat_names(p):
    """all binding names introduced by a pattern, in source order"""
    out = []
    for n in walk(p):
        if n.get("k") == "PIdent":
            out.append(n["name"])
    return out


def binding_name(p):
    """`x`, `mut x`, `ref x`, `&x`, `x: T` -> 'x'; `_`/`..` -> None"""
    while p is not None:
        k = p.get("k")
        if k == "PIdent":
            return p["name"]
        if k in ("PRef", "PType"):
            p = p["pat"]
            continue
        return None
    return None


def stmts_of(body):
    """statements of a block-ish expression (an arm body that is a bare
    expression is returned as a single pseudo statement)"""
    if body is None:
        return []
    if body.get("k") == "Block":
        return body["stmts"]
    return [{"k": "ExprStmt", "e": body, "semi": False, "ln": body.get("ln")}]


def stmt_expr(s):
    if s.get("k") == "ExprStmt":
        return s["e"]
    return None


def calls_in(node, method=None, func=None):
    """method calls `.method(..)` and/or path calls `a::b::func(..)`"""
    for n in walk(node):
        if n.get("k") == "MethodCall" and method is not None and n["method"] == method:
            yield n
        elif n.get("k") == "Call" and func is not None:
            s = path_segs(n["func"])
            if s and s[-1] == func:
                yield n


BIN_PREC = {
    "||": 1, "&&": 2, "==": 3, "!=": 3, "<": 3, "<=": 3, ">": 3, ">=": 3,
    "|": 4, "^": 5, "&": 6, "<<": 7, ">>": 7, "+": 8, "-": 8, "*": 9, "/": 9, "%": 9,
}


_NUM_TYPES = {"usize", "isize", "u8", "u16", "u32", "u64", "u128", "i8", "i16", "i32", "i64", "i128", "f32", "f64"}


def unparse(e):
    """A compact, canonical rendering of an expression / pattern / statement.
    Used for messages and for sibling diffing; not guaranteed to be valid Rust."""
    if e is None:
        return ""
    if isinstance(e, list):
        return ", ".join(unparse(x) for x in e)
    k = e.get("k")
    u = unparse
    if k == "Path":
        s = e.get("s") or "::".join(e["segs"])
        return s.replace(" ", "")
    if k == "Lit":
        return e["s"]
    if k == "Binary":
        return "(%s %s %s)" % (u(e["left"]), e["op"], u(e["right"]))
    if k == "Unary":
        return "%s%s" % (e["op"], u(e["e"]))
    if k == "Paren":
        if e["e"].get("k") in ("Range", "Closure", "If", "Match", "Unary", "Assign"):
            return "(%s)" % u(e["e"])
        return u(e["e"])
    if k == "Ref":
        return "&%s%s" % ("mut " if e["mut"] else "", u(e["e"]))
    if k == "Field":
        return "%s.%s" % (u(e["e"]), e["member"])
    if k == "Index":
        return "%s[%s]" % (u(e["e"]), u(e["index"]))
    if k == "Call":
        f_ = e["func"]
        if len(e["args"]) == 1 and f_.get("k") == "Path" and len(f_.get("segs", [])) == 2 and f_["segs"][1] == "from" and f_["segs"][0] in _NUM_TYPES:
            # the lossless conversion `u32::from(x)` denotes the same value as `x as u32`
            return "(%s as %s)" % (u(e["args"][0]), f_["segs"][0])
        if len(e["args"]) == 1 and f_.get("k") == "Path" and len(f_.get("segs", [])) == 2 and f_["segs"][1] == "try_from" and f_["segs"][0] in _NUM_TYPES:
            # `u32::try_from(x)` is the call `x.try_into()` resolves to (that spelling never named the type)
            return "%s.try_into()" % u(e["args"][0])
        return "%s(%s)" % (u(e["func"]), u(e["args"]))
    if k == "MethodCall":
        return "%s.%s%s(%s)" % (u(e["recv"]), e["method"], e.get("turbofish", "").replace(" ", ""), u(e["args"]))
    if k == "Cast":
        return "(%s as %s)" % (u(e["e"]), e["ty"].replace(" ", ""))
    if k == "Tuple":
        return "(%s)" % u(e["elems"])
    if k == "Array":
        return "[%s]" % u(e["elems"])
    if k == "Repeat":
        return "[%s; %s]" % (u(e["e"]), u(e["len"]))
    if k == "Assign":
        return "%s = %s" % (u(e["left"]), u(e["right"]))
    if k == "Struct":
        fs = ", ".join("%s: %s" % (f["name"], u(f["e"])) for f in e["fields"])
        if e.get("rest"):
            fs += ", ..%s" % u(e["rest"])
        return "%s { %s }" % (u(e["path"]), fs)
    if k == "Try":
        return u(e["e"]) + "?"
    if k == "Range":
        return "%s..%s%s" % (u(e["start"]), "=" if e["closed"] else "", u(e["end"]))
    if k == "Closure":
        return "|%s| %s" % (u(e["inputs"]), u(e["body"]))
    if k == "Block":
        return "{ %s }" % " ".join(u(s) for s in e["stmts"])
    if k == "Unsafe":
        return "unsafe " + u(e["body"])
    if k == "If":
        s = "if %s %s" % (u(e["cond"]), u(e["then"]))
        if e.get("else"):
            s += " else " + u(e["else"])
        return s
    if k == "LetCond":
        return "let %s = %s" % (u(e["pat"]), u(e["e"]))
    if k == "Match":
        arms = " ".join(
            "%s%s => %s," % (u(a["pat"]), " if " + u(a["guard"]) if a.get("guard") else "", u(a["body"]))
            for a in e["arms"]
        )
        return "match %s { %s }" % (u(e["e"]), arms)
    if k == "For":
        return "for %s in %s %s" % (u(e["pat"]), u(e["iter"]), u(e["body"]))
    if k == "While":
        return "while %s %s" % (u(e["cond"]), u(e["body"]))
    if k == "Loop":
        return "loop " + u(e["body"])
    if k == "Return":
        return "return %s" % u(e["e"])
    if k == "Break":
        return "break %s" % u(e["e"])
    if k == "Continue":
        return "continue"
    if k == "Macro":
        if "args" in e:
            return "%s!(%s)" % (e["name"], u(e["args"]))
        if "expr" in e:
            return "%s!(%s, %s)" % (e["name"], u(e["expr"]), u(e["pat"]))
        return "%s!(%s)" % (e["name"], tokens_str(e["tokens"]))
    if k == "Let":
        s = "let %s" % u(e["pat"])
        if e.get("init"):
            s += " = " + u(e["init"])
        if e.get("else"):
            s += " else " + u(e["else"])
        return s + ";"
    if k == "ExprStmt":
        return u(e["e"]) + (";" if e.get("semi") else "")
    if k == "PIdent":
        s = ("ref " if e["ref"] else "") + ("mut " if e["mut"] else "") + e["name"]
        if "sub" in e:
            s += " @ " + u(e["sub"])
        return s
    if k == "PTupleStruct":
        return "%s(%s)" % (u(e["path"]), u(e["elems"]))
    if k == "PTuple":
        return "(%s)" % u(e["elems"])
    if k == "PStruct":
        return "%s { %s%s }" % (
            u(e["path"]),
            ", ".join("%s: %s" % (f["name"], u(f["pat"])) for f in e["fields"]),
            ", .." if e["rest"] else "",
        )
    if k == "PPath":
        return u(e["path"])
    if k == "POr":
        return " | ".join(u(c) for c in e["cases"])
    if k == "PWild":
        return "_"
    if k == "PRest":
        return ".."
    if k == "PRef":
        return "&" + u(e["pat"])
    if k == "PLit":
        return u(e["lit"])
    if k == "PType":
        return "%s: %s" % (u(e["pat"]), e["ty"].replace(" ", ""))
    if k == "PSlice":
        return "[%s]" % u(e["elems"])
    if k == "PRange":
        return "%s..%s%s" % (u(e["start"]), "=" if e["closed"] else "", u(e["end"]))
    if k == "Fn":
        return "fn %s" % e["name"]
    if k in ("Verbatim", "PVerbatim"):
        return e.get("s", "")
    return "<%s>" % k


def tokens_str(ts):
    out = []
    for t in ts:
        if t["t"] == "g":
            close = {"(": ")", "[": "]", "{": "}", "": ""}[t["d"]]
            out.append(t["d"] + tokens_str(t["ts"]) + close)
        else:
            out.append(t["s"])
    return " ".join(out)


def lit_value(e):
    """numeric value of a literal expression (possibly negated), else None"""
    e = strip(e)
    if e is None:
        return None
    if e.get("k") == "Unary" and e["op"] == "-":
        v = lit_value(e["e"])
        return -v if v is not None else None
    if e.get("k") == "Lit":
        if e["ty"] == "int":
            return int(e["v"])
        if e["ty"] == "float":
            return float(e["v"])
    if e.get("k") == "Cast":
        return lit_value(e["e"])
    return None


def where(fn_or_file, node=None):
    """`file:line` for messages"""
    f = fn_or_file if isinstance(fn_or_file, str) else fn_or_file.get("_file", "?")
    n = node if node is not None else (fn_or_file if not isinstance(fn_or_file, str) else {})
    return "%s:%s" % (f, n.get("ln", "?"))


def fn_label(fn):
    ow = fn.get("_owner") or {}
    parts = []
    if ow.get("trait") and ow.get("self_ty"):
        parts.append("<%s as %s>" % (ow["self_ty"], ow["trait"]))
    elif ow.get("self_ty"):
        parts.append(ow["self_ty"])
    elif ow.get("trait"):
        parts.append(ow["trait"])
    parts.append(fn["name"])
    return "::".join(parts)


# ---------------------------------------------------------------------------
# linearised method-call facts (for ordering / guard rules)


def linear_calls(fn_or_block, resolve=True):
    """every method call / path call of a body in source order with its nesting:
    dict(i, kind, recv, method, args, node, conds=[cond texts], loops=n, unsafe=bool,
         iters=[(loop variable, text of what it iterates over)])
    With `resolve` (default) the body is read with simple lets folded into their uses and with calls
    to small same-file helpers followed (parameters replaced by the arguments), so that naming a
    sub-expression or extracting a helper does not change the facts."""
    out = []
    is_fn = fn_or_block.get("k") == "Fn"
    body = fn_or_block.get("body", fn_or_block) if is_fn else fn_or_block
    owner = fn_or_block if is_fn else owner_fn(body)
    if resolve:
        try:
            body = inline_lets_deep(body)
        except Exception:
            pass

    def t(n):
        return unparse(n).replace(" ", "")

    def rec(n, conds, loops, unsafe, iters, depth, cur):
        if isinstance(n, list):
            for x in n:
                rec(x, conds, loops, unsafe, iters, depth, cur)
            return
        if not isinstance(n, dict):
            return
        k = n.get("k")
        if k == "If":
            c = t(n["cond"])
            rec(n["cond"], conds, loops, unsafe, iters, depth, cur)
            rec(n["then"], conds + [c], loops, unsafe, iters, depth, cur)
            if n.get("else"):
                rec(n["else"], conds + ["!(" + c + ")"], loops, unsafe, iters, depth, cur)
            return
        if k == "Match":
            rec(n["e"], conds, loops, unsafe, iters, depth, cur)
            for a in n["arms"]:
                rec(a["body"], conds + ["match:" + t(a["pat"])], loops, unsafe, iters, depth, cur)
            return
        if k in ("For", "While", "Loop"):
            it2 = iters
            if k == "For":
                rec(n["iter"], conds, loops, unsafe, iters, depth, cur)
                it2 = iters + [(binding_name(n["pat"]) or t(n["pat"]), t(n["iter"]))]
            if k == "While":
                rec(n["cond"], conds, loops, unsafe, iters, depth, cur)
            rec(n["body"], conds, loops + 1, unsafe, it2, depth, cur)
            return
        if k == "Unsafe":
            rec(n["body"], conds, loops, True, iters, depth, cur)
            return
        if k == "Closure":
            rec(n["body"], conds, loops + 1, unsafe, iters, depth, cur)
            return
        if k == "MethodCall":
            rec(n["recv"], conds, loops, unsafe, iters, depth, cur)
            for a in n["args"]:
                if a.get("k") == "Closure" and n["method"] in ("for_each", "map", "try_for_each", "flat_map", "filter_map", "any", "all") and len(a.get("inputs", [])) == 1:
                    # `xs.iter_mut().for_each(|x| ..)` binds x like `for x in xs.iter_mut()`
                    rec(a["body"], conds, loops + 1, unsafe, iters + [(binding_name(a["inputs"][0]) or t(a["inputs"][0]), t(n["recv"]))], depth, cur)
                else:
                    rec(a, conds, loops, unsafe, iters, depth, cur)
            out.append(dict(kind="m", recv=t(n["recv"]), method=n["method"], args=[t(a) for a in n["args"]], node=n,
                            conds=list(conds), loops=loops, unsafe=unsafe, iters=list(iters), via=depth))
            if resolve and ident(strip(n["recv"])) == "self":
                follow(n["method"], n["args"], conds, loops, unsafe, iters, depth, cur)
            return
        if k == "Call":
            for a in n["args"]:
                rec(a, conds, loops, unsafe, iters, depth, cur)
            rec(n["func"], conds, loops, unsafe, iters, depth, cur)
            out.append(dict(kind="c", recv="", method=t(n["func"]), args=[t(a) for a in n["args"]], node=n,
                            conds=list(conds), loops=loops, unsafe=unsafe, iters=list(iters), via=depth))
            segs = path_segs(n["func"])
            if resolve and segs and (len(segs) == 1 or (len(segs) == 2 and segs[0] == "Self")):
                follow(segs[-1], n["args"], conds, loops, unsafe, iters, depth, cur)
            return
        if k == "Block":
            cs = conds
            for st_ in n.get("stmts", []):
                rec(st_, cs, loops, unsafe, iters, depth, cur)
                e_ = strip(stmt_expr(st_) or {}) if st_.get("k") == "ExprStmt" else {}
                if e_.get("k") == "If" and e_.get("else") is None:
                    th = stmts_of(e_["then"])
                    last = strip(stmt_expr(th[-1]) or {}) if th else {}
                    is_err = last.get("k") == "Return" and last.get("e") is not None and t(last["e"]).startswith("Err(")
                    if last.get("k") in ("Return", "Continue", "Break") and not is_err:
                        # what follows only runs when the early exit was not taken (an error return is not
                        # a way of *succeeding* without having done what follows)
                        cs = cs + ["!(" + t(e_["cond"]) + ")"]
            return
        for v in children(n):
            rec(v, conds, loops, unsafe, iters, depth, cur)

    def follow(name, args, conds, loops, unsafe, iters, depth, cur):
        if depth >= 2 or cur is None:
            return
        callee = _same_file_fn(cur, name)
        if callee is None or callee is cur or (callee["body"].get("le", 0) - callee["body"].get("ln", 0)) > 60:
            return
        params = [binding_name(i["pat"]) for i in callee["sig"]["inputs"] if isinstance(i, dict) and "pat" in i]
        b = callee["body"]
        if len(params) != len(args):
            return
        for p, a in zip(params, args):
            a2 = strip(a)  # `&mut self.rows` used through auto-deref is `self.rows`
            if p and a2 is not None and ident(a2) != p and not any(x.get("k") in ("Closure", "Block", "Macro") for x in walk(a2)):
                b = _subst(b, p, a2)
        try:
            b = inline_lets_deep(b)
        except Exception:
            pass
        rec(b, conds, loops, unsafe, iters, depth + 1, callee)

    rec(body, [], 0, False, [], 0, owner)
    for i, c in enumerate(out):
        c["i"] = i
    return out


# ---------------------------------------------------------------------------
# rename-tolerant fragment matching
#
# Many rules test that a normalised statement shape occurs in a function body
# (`frag in txt(fn["body"])`).  A local variable renamed everywhere in that
# function leaves the behaviour unchanged, so it must not raise an alarm.
# FragText is a str whose `in` / `==` fall back, when the literal test fails, to
# matching modulo a consistent renaming of identifiers that have *vanished* from
# the function (names the fragment uses but the function no longer contains) to
# identifiers that are *new* (present in the function, unknown to the fragment).
# Names that still occur are never renamed, so an exchange of two existing names
# (i <-> j, lhs <-> rhs) is still a mismatch.

import re as _re

_KW = {"let", "for", "in", "if", "else", "return", "mut", "as", "match", "while", "loop", "break", "continue", "ref",
       "move", "unsafe", "fn", "impl", "self", "Self", "true", "false", "Some", "None", "Ok", "Err"}
_WORD = _re.compile(r"[A-Za-z_][A-Za-z_0-9]*")
_SEG_KW = {"let", "for", "in", "if", "else", "return", "mut", "as", "match", "while", "loop", "ref", "move", "unsafe", "break", "continue", "dyn", "impl", "where"}


def _spaced(node):
    s = unparse(node)
    s = _re.sub(r"(?<=[A-Za-z_0-9]) +(?=[A-Za-z_0-9])", "\x01", s)
    return s.replace(" ", "").replace("\x01", " ")


_RUN = _re.compile(r"[A-Za-z_0-9]+")
_PRIM_TYPES = {"usize", "isize", "u8", "u16", "u32", "u64", "u128", "i8", "i16", "i32", "i64", "i128", "f32", "f64", "bool", "char", "str"}
_OWNER = {}


def owner_fn(node):
    """the Fn (of an already loaded file) whose subtree contains `node`, else None"""
    if id(node) in _OWNER:
        return _OWNER[id(node)]
    for d in list(_FILES.values()):
        if d.get("_owner_indexed"):
            continue
        d["_owner_indexed"] = True
        for f in d["_fns"]:
            for n in walk(f):
                _OWNER.setdefault(id(n), f)
    return _OWNER.get(id(node))


def _bound_names(node, fn=None):
    b = {n["name"] for n in walk(node) if n.get("k") == "PIdent"}
    if fn is not None:
        for i in fn.get("sig", {}).get("inputs", []):
            if isinstance(i, dict) and "pat" in i:
                b |= {n["name"] for n in walk(i["pat"]) if n.get("k") == "PIdent"}
    return b


def inline_lets_deep(node, _mut=None, _ro_self=None):
    """copy of `node` with every simple `let` folded into its uses, in every nested block"""
    if _ro_self is None:
        f0 = node if isinstance(node, dict) and node.get("k") == "Fn" else (owner_fn(node) if isinstance(node, dict) else None)
        i0 = (f0 or {}).get("sig", {}).get("inputs", [])
        # in a `&self` method the object cannot change: reads of self are as good as reads of a local
        _ro_self = bool(i0) and isinstance(i0[0], dict) and i0[0].get("self", "").replace(" ", "") in ("&self", "self") and False or (bool(i0) and isinstance(i0[0], dict) and i0[0].get("self", "").replace(" ", "") == "&self")
    if _mut is None:
        _mut = {n["name"] for n in walk(node) if n.get("k") == "PIdent" and n.get("mut")} if isinstance(node, (dict, list)) else set()
        fn = node if isinstance(node, dict) and node.get("k") == "Fn" else (owner_fn(node) if isinstance(node, dict) else None)
        for i in (fn or {}).get("sig", {}).get("inputs", []):
            if isinstance(i, dict) and "pat" in i and (i["pat"].get("mut") or i.get("ty", "").replace(" ", "").startswith("&mut") or "&mut" in i.get("ty", "").replace(" ", "")[:12]):
                _mut |= _pat_names(i["pat"])
    if isinstance(node, list):
        return [inline_lets_deep(x, _mut, _ro_self) for x in node]
    if not isinstance(node, dict):
        return node
    out = {k: (inline_lets_deep(v, _mut, _ro_self) if isinstance(v, (dict, list)) and k != "tokens" else v) for k, v in node.items()}
    if out.get("k") == "Block" and isinstance(out.get("stmts"), list):
        out["stmts"] = inline_simple_lets(out["stmts"], multi=True, mut_names=_mut, ro_self=_ro_self)
    return out


def _same_file_fn(fn, name):
    """a function defined in the same file as `fn` (same impl first) called `name`"""
    if fn is None:
        return None
    for d in _FILES.values():
        if d.get("file") == fn.get("_file"):
            cands = [f for f in d["_fns"] if f["name"] == name and f is not fn and not (f["name"] == fn.get("name") and f.get("ln") == fn.get("ln")) and not f.get("_test") and f.get("body")]
            same = [f for f in cands if (f.get("_owner") or {}).get("self_ty") == (fn.get("_owner") or {}).get("self_ty")]
            cands = same or cands
            return cands[0] if len(cands) == 1 else None
    return None


def _expanded_helpers(node, fn, depth=2, detail=False):
    """bodies of same-file helpers called from `node`, parameters replaced by the call's arguments
    (detail: [(body, callee, names used by the arguments)])"""
    out = []
    if fn is None or depth == 0:
        return out
    for c in walk(node):
        callee = None
        args = None
        if c.get("k") == "MethodCall" and ident(strip(c["recv"])) == "self":
            callee, args = _same_file_fn(fn, c["method"]), c["args"]
        elif c.get("k") == "Call":
            segs = path_segs(c["func"])
            if segs and (len(segs) == 1 or segs[0] == "Self"):
                callee, args = _same_file_fn(fn, segs[-1]), c["args"]
        if callee is None or (callee["body"].get("le", 0) - callee["body"].get("ln", 0)) > 80:
            continue
        params = [binding_name(i["pat"]) for i in callee["sig"]["inputs"] if isinstance(i, dict) and "pat" in i]
        body = callee["body"]
        used = set()
        if len(params) == len(args):
            for p, a in zip(params, args):
                a2 = strip(a)
                if p and a2 is not None and ident(a2) != p and not any(x.get("k") in ("Closure", "Block", "Macro") for x in walk(a2)):
                    body = _subst(body, p, a2)
                used |= {ident(x) for x in walk(a) if x.get("k") == "Path" and ident(x)}
        out.append((body, callee, used) if detail else body)
        out.extend(_expanded_helpers(callee["body"], callee, depth - 1, detail))
    return out


def _pat_names(p):
    return {n["name"] for n in walk(p) if n.get("k") == "PIdent"} if isinstance(p, (dict, list)) else set()


def _scoped_blocks(node, outer, target=None, found=None):
    """[(block, names visible in it)]: names bound inside the block plus those bound by the
    constructs enclosing it (lets of enclosing blocks, loop / closure / arm / if-let patterns).
    With `target`, found[0] receives the names visible where that node sits."""
    out = []

    def rec(n, ctx):
        if isinstance(n, list):
            for x in n:
                rec(x, ctx)
            return
        if not isinstance(n, dict):
            return
        if target is not None and n is target:
            found.append(set(ctx))
        k = n.get("k")
        if k == "Block":
            lets = set()
            for s in n.get("stmts", []):
                if s.get("k") == "Let":
                    lets |= _pat_names(s["pat"])
            ctx2 = ctx | lets
            out.append((n, ctx2 | _pat_names(n)))
            if len(n.get("stmts", [])) > 1:
                for st in n["stmts"]:
                    if st.get("k") in ("ExprStmt", "Let"):
                        out.append((st, ctx2 | _pat_names(st)))
            rec(n.get("stmts", []), ctx2)
        elif k == "For":
            rec(n.get("iter"), ctx)
            rec(n.get("body"), ctx | _pat_names(n.get("pat")))
        elif k == "Closure":
            rec(n.get("body"), ctx | _pat_names(n.get("inputs") or n.get("params") or []))
        elif k == "Match":
            rec(n.get("e"), ctx)
            for arm in n.get("arms", []):
                c2 = ctx | _pat_names(arm.get("pat"))
                rec(arm.get("guard"), c2)
                rec(arm.get("body"), c2)
        elif k == "If":
            c = n.get("cond")
            c2 = ctx | {x["name"] for x in walk(c) if x.get("k") == "PIdent"} if c else ctx
            rec(c, ctx)
            rec(n.get("then"), c2)
            rec(n.get("else"), ctx)
        elif k == "While":
            c = n.get("cond")
            c2 = ctx | {x["name"] for x in walk(c) if x.get("k") == "PIdent"} if c else ctx
            rec(c, ctx)
            rec(n.get("body"), c2)
        elif k in ("Fn", "Impl", "Mod"):
            return
        else:
            for v in children(n):
                rec(v, ctx)

    rec(node, set(outer))
    return out


class _Hay:
    __slots__ = ("text", "bound", "starts", "ends", "vocab")

    def __init__(self, nodes, bound):
        spaced = "\x00".join(_spaced(n) for n in nodes)
        self.bound = bound
        self.vocab = set(_WORD.findall(spaced))
        text = []
        self.starts, self.ends = set(), set()
        pos = 0
        k = 0
        for mo in _RUN.finditer(spaced):
            # characters before this run
            gap = spaced[k:mo.start()].replace(" ", "")
            text.append(gap)
            pos += len(gap)
            self.starts.add(pos)
            text.append(mo.group(0))
            pos += len(mo.group(0))
            self.ends.add(pos)
            k = mo.end()
        text.append(spaced[k:].replace(" ", ""))
        self.text = "".join(text)


class FragText(str):
    """the space-free text of a syntax node whose `in` / `==` see through behaviour-preserving
    edits: consistent renaming of locals, naming or inlining of simple sub-expressions (`let`),
    and extraction of a private helper in the same file"""

    def __new__(cls, node):
        o = super().__new__(cls, unparse(node).replace(" ", ""))
        o._node = node
        o._hays = None
        o._map = {}
        return o

    # -- haystacks ---------------------------------------------------------
    def _haystacks(self):
        """[whole node, whole node with lets inlined, (+ helpers, + helpers inlined),
        then every nested block with the names visible in it]"""
        if self._hays is None:
            node = self._node
            fn = owner_fn(node) if isinstance(node, dict) else None
            # a detached copy (inlined / folded tree) has no known scope: only explicit `$META`s vary there
            self._implicit = fn is not None
            hays = []
            b0 = _bound_names(node, fn)
            if fn is not None and fn.get("body") is not None and node is not fn["body"] and node is not fn:
                found = []
                try:
                    _scoped_blocks(fn["body"], _bound_names({"k": "x"}, fn), target=node, found=found)
                except Exception:
                    found = []
                if found:
                    b0 = b0 | found[0]
            hays.append(_Hay([node], b0))
            try:
                inl = inline_lets_deep(node)
                hays.append(_Hay([inl], b0))
            except Exception:
                inl = None
            self._n_whole = len(hays)
            try:
                # only for whole bodies: a fragment looked up in a single expression is a dispatch test
                helpers = _expanded_helpers(node, fn, detail=True) if isinstance(node, dict) and node.get("k") in ("Block", "Fn") else []
            except Exception:
                helpers = []
            if helpers:
                bh = set(b0)
                for h, _c, _u in helpers:
                    bh |= _bound_names(h)
                hays.append(_Hay([node] + [h for h, _c, _u in helpers], bh))
                if inl is not None:
                    hays.append(_Hay([inl] + [inline_lets_deep(h) for h, _c, _u in helpers], bh))
                # each helper body on its own, with the names visible *there*: its parameters and
                # locals, and the caller's names that came in through the arguments
                for h, callee, used in helpers:
                    bnd = _bound_names(h, callee) | (used & b0)
                    hays.append(_Hay([h], bnd))
                    try:
                        hays.append(_Hay([inline_lets_deep(h)], bnd))
                    except Exception:
                        pass
            # nested blocks: a name bound only in a sibling scope is not visible here, so a
            # fragment's use of that name may stand for a renamed local of this scope
            params = _bound_names({"k": "x"}, fn)
            for src in ([node] if inl is None else [node, inl]):
                for blk, vis in _scoped_blocks(src, params):
                    if blk is src or (blk.get("k") == "Block" and not blk.get("stmts")):
                        continue
                    if vis != b0:
                        hays.append(_Hay([blk], vis))
            self._hays = hays
        return self._hays

    # -- fragment -> regex ---------------------------------------------------
    @staticmethod
    def _segment(token, vocab):
        """split a fused fragment token (`letnext_center`, `forjin0`, `xasusize`) into words.  Only a
        keyword can be fused to a neighbour, so two non-keyword words are never adjacent."""
        n = len(token)
        # best[(pos, last_was_kw)] = (words, cost)
        best = {(0, True): ([], 0)}
        for i in range(n):
            for lastkw in (True, False):
                if (i, lastkw) not in best:
                    continue
                words, unk = best[(i, lastkw)]
                for j in range(i + 1, n + 1):
                    w = token[i:j]
                    iskw = w in _SEG_KW
                    if not iskw and not lastkw:
                        continue
                    if w[0].isdigit():
                        if not _re.fullmatch(r"[0-9][0-9_]*([a-z][a-z0-9]*)?", w):
                            continue
                        cost = 0
                    elif not _re.fullmatch(r"[A-Za-z_][A-Za-z_0-9]*", w):
                        continue
                    else:
                        cost = 0 if (iskw or w in vocab) else len(w) + 10
                    key = (j, iskw)
                    cand = (words + [w], unk + cost + (1 if iskw else 0))
                    if key not in best or cand[1] < best[key][1] or (cand[1] == best[key][1] and len(cand[0]) < len(best[key][0])):
                        best[key] = cand
        ends = [best[k] for k in ((n, True), (n, False)) if k in best]
        if not ends:
            return [token]
        return min(ends, key=lambda c: (c[1], len(c[0])))[0]

    def _regex(self, frag, hay):
        """(compiled regex, variable names) or None when the fragment has no variable or no anchor"""
        vocab = hay.vocab | _KW | hay.bound
        pieces = []  # ('lit', text) | ('var', name)
        k = 0
        for mo in _RUN.finditer(frag):
            meta = mo.start() > 0 and frag[mo.start() - 1] == "$"
            if mo.start() - (1 if meta else 0) > k:
                pieces.append(("lit", frag[k:mo.start() - (1 if meta else 0)]))
            run = mo.group(0)
            off = mo.start()
            if meta:
                # `$NAME` (capitals): an explicit metavariable, standing for whatever local the code uses;
                # the rest of the run (`$Gin0` = `$G in 0`) is ordinary text
                mm = _re.match(r"[A-Z]+", run)
                name = mm.group(0) if mm else run
                pieces.append(("var", "$" + name))
                run = run[len(name):]
                off += len(name)
                if not run:
                    k = mo.end()
                    continue
            words = self._segment(run, vocab)
            for wi, w in enumerate(words):
                pre = ("w" if (wi > 0 or off > mo.start()) else (frag[off - 1] if off > 0 else ""))
                end = off + len(w)
                post = frag[end:end + 2] if wi == len(words) - 1 else "w"
                local_pos = (
                    pre not in (".", ":", "'")
                    and post[:1] != "("
                    and not (post[:1] == "!" and post != "!=")
                    and post != "::"
                    and not (post[:1] == ":" and pre in ("{", ","))
                )
                is_var = (
                    getattr(self, "_implicit", True)
                    and local_pos
                    and w not in _PRIM_TYPES
                    and not (wi > 0 and words[wi - 1] == "as")
                    and (w[0].islower() or w[0] == "_")
                    and w not in _KW
                    and w not in hay.bound
                    and w != "_"
                )
                pieces.append(("var", w) if is_var else ("lit", w))
                off = end
            k = mo.end()
        if k < len(frag):
            pieces.append(("lit", frag[k:]))
        variables = []
        for kind, w in pieces:
            if kind == "var" and w not in variables:
                variables.append(w)
        if not variables or len(variables) > 8:
            return None
        lit_words = {w for kind, w in pieces if kind == "lit" and _re.fullmatch(r"[A-Za-z_][A-Za-z_0-9]*", w) and w not in _KW}
        if not lit_words and not any(v.startswith("$") for v in variables):
            return None  # nothing the function still has: anything would match anything
        if any(w not in hay.vocab for w in lit_words):
            return None  # cannot match here
        targets = sorted((b for b in hay.bound if b not in lit_words and b not in _KW), key=lambda x: (-len(x), x))
        alt = "|".join(_re.escape(t) for t in targets)
        alt_meta = "|".join(_re.escape(t) for t in sorted((b for b in hay.bound if b not in _KW), key=lambda x: (-len(x), x)))
        if not targets and not (alt_meta and any(w.startswith("$") for w in variables)):
            return None
        out = []
        seen = {}
        for kind, w in pieces:
            if kind == "lit":
                out.append(_re.escape(w))
            elif w in seen:
                out.append("(?P=%s)" % seen[w])
            else:
                seen[w] = "v%d" % len(seen)
                a = alt_meta if w.startswith("$") else alt
                if not a:
                    return None
                out.append("(?P<%s>%s)" % (seen[w], a))
        return _re.compile("".join(out)), seen

    def _tolerant(self, frag, whole=False):
        if not isinstance(frag, str) or not frag:
            return False
        for hi, hay in enumerate(self._haystacks()):
            if whole and hi >= self._n_whole:
                break
            if hi > 0 and ((frag == hay.text) if whole else (frag in hay.text)):
                return True
            rx = self._regex(frag, hay)
            if rx is None:
                continue
            rx, names = rx
            it = [rx.fullmatch(hay.text)] if whole else rx.finditer(hay.text)
            for mo in it:
                if mo is None:
                    continue
                vals = {}
                ok = True
                for orig, g in names.items():
                    a, b = mo.span(g)
                    if a not in hay.starts or b not in hay.ends:
                        ok = False
                        break
                    vals[orig] = mo.group(g)
                plain = [v for o, v in vals.items() if not o.startswith("$")]
                if ok and len(set(plain)) == len(plain):
                    self._map.update(vals)
                    return True
        return False

    def fmatch(self, frag, bind=None):
        """match a fragment with `$meta` variables; -> {"$meta": name, ..} or None.  `bind` fixes metas
        decided by an earlier match (so that several statement-level facts talk about the same locals)."""
        for k, v in (bind or {}).items():
            frag = _re.sub(_re.escape(k) + r"(?![A-Za-z_0-9])", v, frag)
        if "$" not in frag:
            return dict(bind or {}) if frag in self else None
        self._map = {}
        try:
            ok = self._tolerant(frag)
        except _re.error:
            ok = False
        if not ok:
            return None
        out = dict(bind or {})
        out.update({k: v for k, v in self._map.items() if k.startswith("$")})
        return out

    def __contains__(self, frag):
        if str.__contains__(self, frag):
            return True
        try:
            return self._tolerant(frag)
        except _re.error:
            return False

    def __eq__(self, other):
        if str.__eq__(self, other):
            return True
        if isinstance(other, str) and not isinstance(other, FragText):
            try:
                return self._tolerant(other, whole=True)
            except _re.error:
                return False
        return False

    def __ne__(self, other):
        return not self.__eq__(other)

    __hash__ = str.__hash__


def ftxt(node):
    return FragText(node)


# ---------------------------------------------------------------------------
# Inlining of simple lets: `let t = f(a, b); g(t)` reads as `g(f(a, b))`.
# Naming a sub-expression is the commonest behaviour-preserving edit; rules that
# compare statement shapes call this first so that they see through it.

_SIMPLE_KINDS = {"Path", "Lit", "Call", "Cast", "Paren", "Tuple", "Struct", "Binary", "Unary", "Ref", "Field", "MethodCall"}
_SIMPLE_METHODS = {"into", "clone", "abs", "neg", "sqrt", "min", "max", "recip", "square", "to_owned", "as_ref", "get", "len", "lower", "upper"}


_IMPURE_METHODS = {
    "next", "pop", "push", "take", "insert", "remove", "drain", "recv", "send", "lock", "swap", "replace", "clear",
    "extend", "truncate", "resize", "resize_with", "fill", "entry", "borrow_mut", "as_mut", "as_mut_ptr", "iter_mut",
    "get_mut", "finalize", "alloc", "reset", "write", "read", "flush", "spawn", "install", "build", "eval", "simplify",
    "get_or_insert", "get_or_insert_with", "get_or_insert_active", "set", "store", "fetch_add", "fetch_sub", "cancel",
    "last_mut", "first_mut", "split_at_mut", "chunks_mut", "peek", "advance", "poke", "op", "step", "bump", "push_back",
    "pop_front", "pop_back", "push_front", "append", "retain", "sort", "sort_by", "sort_unstable", "dedup", "reverse",
}


def _is_simple_init(e, allow_self=False, mut_roots=None, pure_calls=()):
    """an initialiser that can be read at its use sites instead: it reads only locals (no `self`), has no
    indexing through a mutable root, no macro, `?`, closure or block; method calls are either from the
    fixed pure list or (when `mut_roots` is known) any non-mutating-looking method on an immutable root"""
    if e is None:
        return False
    for n in walk(e):
        k = n.get("k")
        if k is None:
            continue
        if k[0] == "P" and k[1:2].isupper():
            return False
        if k not in _SIMPLE_KINDS and not k.startswith("Type") and k not in ("QPath", "Seg", "FieldValue", "GenericArg") and not (k == "Index" and mut_roots is not None):
            return False
        if k == "Path" and path_segs(n) == ["self"] and not allow_self:
            return False
        if k == "Call":
            # only constructor-like calls are values: `Some(x)`, `Interval::new(a, b)`, `T::from(x)`
            segs = path_segs(n["func"]) or []
            if not segs or not (segs[-1][:1].isupper() or segs[-1] in pure_calls or segs[-1] in ("new", "from", "default", "identity", "zeros", "splat", "from_le_bytes", "from_bits", "try_from")):
                return False
        if k == "MethodCall" and n["method"] not in _SIMPLE_METHODS:
            if mut_roots is None or n["method"] in _IMPURE_METHODS or n["method"].startswith(("set_", "push_", "insert_", "remove_", "take_", "reset_", "update_", "add_")):
                return False
            r = strip(n["recv"])
            while r is not None and r.get("k") in ("Field", "MethodCall", "Index", "Paren", "Cast", "Try"):
                r = strip(r.get("recv") if r.get("k") == "MethodCall" else r.get("e"))
            root = ident(r) if r is not None else None
            if root is None or root in mut_roots or (root == "self" and not allow_self):
                return False
        if k == "Index" and mut_roots is not None:
            r = strip(n["e"])
            while r is not None and r.get("k") in ("Field", "Index", "Paren"):
                r = strip(r.get("e"))
            root = ident(r) if r is not None else None
            if root is None or root in mut_roots or (root == "self" and not allow_self):
                return False
        if k == "Unary" and n.get("op") == "*":
            return False
    return True


def _subst(node, name, repl):
    if isinstance(node, list):
        return [_subst(x, name, repl) for x in node]
    if not isinstance(node, dict):
        return node
    if node.get("k") == "Path" and ident(node) == name:
        return repl  # unparse parenthesises every Binary / Cast itself
    out = {k: (_subst(v, name, repl) if isinstance(v, (dict, list)) and k != "tokens" else v) for k, v in node.items()}
    if out.get("short") and out.get("e") is not node.get("e") and ident(node.get("e")) == name:
        out["short"] = False
    return out


def _uses(node, name):
    n_uses = 0
    for n in walk(node):
        if n.get("k") == "Path" and ident(n) == name:
            n_uses += 1
        elif n.get("k") == "Macro" and name in _WORD.findall(tokens_str(n["tokens"]) if n.get("tokens") else ""):
            if not n.get("args"):
                return 99
        elif n.get("k") == "PIdent" and n["name"] == name:
            return 99  # shadowed later: stay away
    return n_uses


def _writes_name(node, names):
    for n in walk(node):
        k = n.get("k")
        if k == "Assign" and ident(strip(n["left"])) in names:
            return True
        if k == "Binary" and n.get("op", "").endswith("=") and n["op"] not in ("==", "!=", "<=", ">=") and ident(strip(n["left"])) in names:
            return True
        if k == "Ref" and n.get("mut") and ident(strip(n["e"])) in names:
            return True
        if k == "MethodCall" and ident(strip(n["recv"])) in names and n["method"] in _IMPURE_METHODS:
            return True
    return False


def inline_simple_lets(stmts, multi=False, mut_names=None, ro_self=False, pure_calls=(), force=False):
    """statement list with every single-use simple `let name = init;` folded into its use
    (same block, the use not under a loop or closure)"""
    stmts = list(stmts)
    changed = True
    while changed:
        changed = False
        for i, s in enumerate(stmts):
            if s.get("k") != "Let" or s.get("else") or s["pat"].get("k") not in ("PIdent", "PType"):
                continue
            p = s["pat"] if s["pat"].get("k") == "PIdent" else s["pat"].get("pat", {})
            if p.get("k") != "PIdent" or p.get("mut") or p.get("ref") or p.get("sub"):
                continue
            name = p["name"]
            init = s.get("init")
            if force:
                # "naming" lets only: places, references, getters and arithmetic - never the result of real work
                if init is None or any(x.get("k") in ("Closure", "Macro", "If", "Match", "Block", "Unsafe", "Try") for x in walk(init)):
                    continue
                if any(x.get("k") == "MethodCall" and x["args"] and x["method"] not in _SIMPLE_METHODS and x["method"] not in ("div_ceil", "pow", "saturating_sub", "wrapping_add", "rem_euclid", "unwrap_or") for x in walk(init)):
                    continue
                if any(x.get("k") == "MethodCall" and x["method"] in _IMPURE_METHODS for x in walk(init)):
                    continue
                if any(x.get("k") == "Call" and not ((path_segs(x["func"]) or ["?"])[-1][:1].isupper() or (path_segs(x["func"]) or ["?"])[-1] in ("new", "from", "default", "try_from")) for x in walk(init)):
                    continue
            elif not _is_simple_init(init, mut_roots=mut_names, allow_self=ro_self, pure_calls=pure_calls):
                continue
            if any(x.get("k") == "Path" and ident(x) == name for x in walk(init)):
                continue  # `let tape = tape.data();` shadows what it reads: leave it
            rest = stmts[i + 1:]
            n_uses = sum(_uses(r, name) for r in rest)
            if n_uses == 0 or n_uses >= 99 or (n_uses != 1 and not multi):
                continue
            # the single use must not sit under a loop or a closure
            under = False
            for r in rest:
                for n in walk(r):
                    if n.get("k") in ("For", "While", "Loop", "Closure") and _uses(n, name):
                        under = True
            reads = {ident(x) for x in walk(init) if x.get("k") == "Path" and ident(x)}
            if force:
                pass
            elif under:
                # fine when nothing the initialiser reads can change: only immutable locals
                if mut_names is None or (reads & mut_names):
                    continue
            elif mut_names is not None and (reads & mut_names):
                # reads a mutable local: only if that local is not written between here and the last use
                last = max(k for k, r in enumerate(rest) if _uses(r, name))
                if any(_writes_name(r, reads & mut_names) for r in rest[: last + 1]):
                    continue
            repl_ = strip(init) if (force and strip(init) is not None and init.get("k") in ("Ref", "Paren")) else init
            stmts = stmts[:i] + [_subst(r, name, repl_) for r in rest]
            changed = True
            break
    return stmts


# ---------------------------------------------------------------------------
# Shape-independent queries used by rules that must not care whether a choice is
# written as if/else, if-let/else, match or let-else.


def branch_leaves(e):
    """the expressions an if / if-let / match / block expression can evaluate to
    -> [(leaf expr, [binding contexts])] where a binding context is (pattern, scrutinee)
    for every if-let / match arm passed on the way"""
    out = []

    def rec(n, ctx):
        n = strip(n) if isinstance(n, dict) else n
        if n is None:
            return
        k = n.get("k")
        if k == "Block":
            st = n["stmts"]
            if st and st[-1].get("k") == "ExprStmt" and not st[-1].get("semi", True):
                rec(st[-1]["e"], ctx)
            else:
                out.append((n, ctx))
        elif k == "If":
            c = strip(n["cond"])
            c2 = ctx + [(c["pat"], c["e"])] if c.get("k") == "LetCond" else ctx
            rec(n["then"], c2)
            if n.get("else") is not None:
                rec(n["else"], ctx)
            else:
                out.append(({"k": "Tuple", "elems": []}, ctx))
        elif k == "Match":
            for arm in n["arms"]:
                rec(arm["body"], ctx + [(arm["pat"], n["e"])])
        else:
            out.append((n, ctx))

    rec(e, [])
    return out


def some_binding(pat):
    """`Some(x)` / `Some(ref x)` -> 'x', else None"""
    if pat.get("k") == "PTupleStruct":
        segs, subs = pat_variant(pat)
        if segs and segs[-1] == "Some" and subs and len(subs) == 1:
            return binding_name(subs[0])
    return None


def _diverge_kind(e):
    """'Continue' / 'Return' / 'Break' / 'panic' when the expression (or block) does nothing but diverge, else None"""
    e = unblock(e) if isinstance(e, dict) else e
    e = strip(e) if isinstance(e, dict) else e
    if not isinstance(e, dict):
        return None
    if e.get("k") == "Block":
        st = e.get("stmts", [])
        if len(st) != 1:
            return None
        e = strip(stmt_expr(st[0]) or {})
    if e.get("k") in ("Continue", "Return", "Break"):
        return e["k"]
    if e.get("k") == "Macro" and e.get("name") in ("panic", "unreachable", "unimplemented", "todo"):
        return "panic"
    return None


def variant_lets(root, variant):
    """statements that bind the payload of enum variant `variant` from a scrutinee and diverge otherwise, in
    any of their spellings:
        let V(a) = e else { continue };
        let a = match e { V(x) => x, _ => continue };
        let a = if let V(x) = e { x } else { continue };
    -> [(bound names, scrutinee node, diverge kind, statement)]"""
    out = []
    for s in find(root, "Let"):
        init = s.get("init")
        if init is None:
            continue
        p = s["pat"]["pat"] if s["pat"].get("k") == "PType" else s["pat"]
        if s.get("else") is not None and p.get("k") == "PTupleStruct":
            segs, subs = pat_variant(p)
            dk = _diverge_kind(s["else"])
            if segs and segs[-1] == variant and dk:
                out.append(([binding_name(x) for x in subs or []], init, dk, s))
            continue
        name = binding_name(p)
        if not name:
            continue
        e = strip(init)
        cases = []  # (pattern, body)
        scrut = None
        if e.get("k") == "Match":
            scrut = e["e"]
            cases = [(a["pat"], a["body"]) for a in e["arms"] if not a.get("guard")]
            if len(cases) != len(e["arms"]):
                continue
        elif e.get("k") == "If" and strip(e["cond"]).get("k") == "LetCond" and e.get("else") is not None:
            c = strip(e["cond"])
            scrut = c["e"]
            cases = [(c["pat"], e["then"]), ({"k": "PWild"}, e["else"])]
        else:
            continue
        hit, dks = None, set()
        for pat, body in cases:
            segs, subs = pat_variant(pat) if pat.get("k") == "PTupleStruct" else (None, None)
            b = unblock(body)
            if segs and segs[-1] == variant and subs and len(subs) == 1 and ident(strip(b)) == binding_name(subs[0]) and hit is None:
                hit = True
            else:
                dks.add(_diverge_kind(body))
        if hit and len(dks) == 1 and None not in dks:
            out.append(([name], scrut, dks.pop(), s))
    return out


def some_sources(pat, scrut):
    """[(name bound by a `Some(name)` sub-pattern, the Option it takes apart)] for a pattern / scrutinee pair,
    element by element when both are tuples"""
    out = []
    p = pat["pat"] if pat.get("k") == "PType" else pat
    sc = strip(scrut) if isinstance(scrut, dict) else scrut
    if p.get("k") == "PTuple" and isinstance(sc, dict) and sc.get("k") == "Tuple" and len(p["elems"]) == len(sc["elems"]):
        for pe, se in zip(p["elems"], sc["elems"]):
            out += some_sources(pe, se)
        return out
    if p.get("k") == "POr":
        for c_ in p.get("cases", []):
            out += some_sources(c_, scrut)
        return out
    b = some_binding(p)
    if b and isinstance(sc, dict):
        out.append((b, option_source(sc)))
    return out


def option_source(e):
    """`v.as_ref()` / `&v` / `v` / `v.as_mut()` / `v.as_deref()` -> 'v' (the Option being taken apart)"""
    e = strip(e)
    while e is not None and e.get("k") == "MethodCall" and e["method"] in ("as_ref", "as_mut", "as_deref", "take", "clone") and not e["args"]:
        e = strip(e["recv"])
    return ident(e) if e is not None else None


_ITER_ADAPTERS = ("for_each", "map", "try_for_each", "flat_map", "filter_map", "any", "all", "filter", "find", "position", "find_map", "map_init", "for_each_init")


def enclosing_binders(root, target):
    """the iteration variables in scope at `target`, outermost first: [(name, text of the iterated
    expression, node)] for `for x in IT {..}` and for closures handed to an iterator adapter
    (`IT.map(|x| ..)`, `IT.flat_map(..)`, `IT.for_each(..)`), so that a loop and its iterator-chain
    spelling read the same"""
    found = []

    def t(n):
        return unparse(n).replace(" ", "")

    def rec(n, binders):
        if found:
            return
        if isinstance(n, list):
            for x in n:
                rec(x, binders)
            return
        if not isinstance(n, dict):
            return
        if n is target:
            found.append(list(binders))
            return
        k = n.get("k")
        if k == "For":
            rec(n["iter"], binders)
            rec(n["body"], binders + [(binding_name(n["pat"]) or t(n["pat"]), t(strip(n["iter"])), n)])
            return
        if k == "MethodCall" and n["method"] in _ITER_ADAPTERS:
            rec(n["recv"], binders)
            for a in n["args"]:
                if a.get("k") == "Closure" and a.get("inputs"):
                    # the last closure parameter is the item (map_init passes the state first)
                    p = a["inputs"][-1]
                    rec(a["body"], binders + [(binding_name(p) or t(p), t(strip(n["recv"])), n)])
                else:
                    rec(a, binders)
            return
        for v in children(n):
            rec(v, binders)

    rec(root, [])
    return found[0] if found else None


def lane_bindings(loop):
    """what the variables of a lock-step loop stand for:
        for i in 0..n                                   -> ('i', {})
        for (i, ((&a, &b), &c)) in x.iter().zip(y).zip(z).enumerate()  -> ('i', {'a': 'x', 'b': 'y', 'c': 'z'})
    i.e. (index variable or None, {element variable: the sequence whose i-th element it is}); None when the
    loop is not of that kind"""
    it = strip(loop["iter"])
    pat = loop["pat"]
    if it.get("k") == "Range":
        n = binding_name(pat)
        return (n, {}) if n else None
    idx = None
    if it.get("k") == "MethodCall" and it["method"] == "enumerate" and not it["args"]:
        it = strip(it["recv"])
        p = pat["pat"] if pat.get("k") == "PType" else pat
        if p.get("k") != "PTuple" or len(p["elems"]) != 2:
            return None
        idx = binding_name(p["elems"][0])
        pat = p["elems"][1]
        if idx is None:
            return None
    srcs = []
    while it.get("k") == "MethodCall" and it["method"] == "zip" and len(it["args"]) == 1:
        srcs.append(iter_source(unparse(strip(it["args"][0])).replace(" ", "")))
        it = strip(it["recv"])
    srcs.append(iter_source(unparse(it).replace(" ", "")))
    srcs.reverse()
    pats = []
    p = pat
    for _ in range(len(srcs) - 1):
        p = p["pat"] if p.get("k") in ("PType", "PRef") and p["pat"].get("k") == "PTuple" else p
        if p.get("k") != "PTuple" or len(p["elems"]) != 2:
            return None
        pats.append(p["elems"][1])
        p = p["elems"][0]
    pats.append(p)
    pats.reverse()
    names = [binding_name(x) for x in pats]
    if None in names or len(set(names)) != len(names):
        return None
    return (idx, dict(zip(names, srcs)))


def iter_source(text):
    """`(0..n).into_iter()` / `xs.iter()` / `&mut xs` -> the thing iterated, without adapters that keep every item"""
    s = text
    changed = True
    while changed:
        changed = False
        for suf in (".into_iter()", ".iter()", ".iter_mut()", ".into_par_iter()", ".par_iter()", ".par_iter_mut()", ".copied()", ".cloned()"):
            if s.endswith(suf):
                s = s[: -len(suf)]
                changed = True
        if s.startswith("(") and s.endswith(")") and _balanced(s[1:-1]):
            s = s[1:-1]
            changed = True
        if s.startswith("&mut"):
            s = s[4:]
            changed = True
        elif s.startswith("&"):
            s = s[1:]
            changed = True
    return s


def _balanced(s):
    d = 0
    for ch in s:
        if ch == "(":
            d += 1
        elif ch == ")":
            d -= 1
            if d < 0:
                return False
    return d == 0


def all_stmts(root):
    """every statement of every nested block"""
    for n in walk(root):
        if n.get("k") == "Block":
            for s in n.get("stmts", []):
                yield s


def stmts_in_loops(body, loops, frag):
    """statements whose text contains `frag` and that sit directly under the given nest of iterations.
    loops = [(placeholder, range text), ..] outermost first; `frag` may use `{placeholder}` for the
    iteration variables (whatever they are called in the code).  Loops and iterator-chain closures are
    treated alike; other statements around or between are irrelevant.  -> [(stmt, binders)]"""
    out = []
    for s in all_stmts(body):
        b = enclosing_binders(body, s)
        if b is None or len(b) < len(loops):
            continue
        inner = b[len(b) - len(loops):] if loops else []
        names = {}
        ok = True
        for (ph, rng), (name, it, _n) in zip(loops, inner):
            if iter_source(it) != rng:
                ok = False
                break
            names[ph] = name
        if not ok:
            continue
        try:
            f = frag.format(**names)
        except (KeyError, IndexError):
            continue
        if f in ftxt(s):
            out.append((s, inner))
    return out


def no_double_neg(c):
    """`!!x` / `!(!x)` -> `x` (a branch swapped by negating its condition reads the same)"""
    while True:
        if c.startswith("!!"):
            c = c[2:]
        elif c.startswith("!(!") and c.endswith(")") and _balanced(c[2:-1]):
            c = c[3:-1]
        else:
            return c


def bool_match_conds(m, arm):
    """`match (c1, c2, ..) { (true, _) => .., (false, true) => .., .. }` (or `match c { true => .., false => .. }`):
    the conditions an arm stands for, as texts (`c1`, `!c2`); None when the match is not over boolean tests"""
    sc = strip(m["e"])
    exprs = sc["elems"] if sc.get("k") == "Tuple" else [sc]
    if not all(strip(e).get("k") in ("Binary", "MethodCall", "Unary", "Paren", "Path", "Call") for e in exprs):
        return None
    out_alts = []
    for p in flatten_or(arm["pat"]):
        pats = p["elems"] if p.get("k") == "PTuple" else [p]
        if len(pats) != len(exprs):
            return None
        cs = []
        for e, q in zip(exprs, pats):
            if q.get("k") == "PWild":
                continue
            if q.get("k") == "PLit" and str((q.get("lit") or {}).get("v")) in ("true", "false"):
                tx = unparse(strip(e)).replace(" ", "")
                if not (tx.startswith("(") and tx.endswith(")")):
                    tx = "(" + tx + ")"
                cs.append(tx if str(q["lit"]["v"]) == "true" else no_double_neg("!" + tx))
            else:
                return None
        out_alts.append(cs)
    if len(out_alts) != 1:
        return None  # an or-pattern of boolean rows: a disjunction, not expressible as a conjunction
    # rows above this arm that would have matched first are not subtracted: callers that need exclusivity look at
    # the conditions themselves (a later row's conditions hold in addition to "no earlier row matched")
    return out_alts[0]


def enclosing_conds(root, target):
    """texts of the conditions under which `target` executes (if / else-of / match arm / while), outermost first"""
    found = []

    def t(n):
        return unparse(n).replace(" ", "")

    def rec(n, conds):
        if found:
            return
        if isinstance(n, list):
            for x in n:
                rec(x, conds)
            return
        if not isinstance(n, dict):
            return
        if n is target:
            found.append(list(conds))
            return
        k = n.get("k")
        if k == "If":
            c = t(strip(n["cond"]))
            rec(n["cond"], conds)
            rec(n["then"], conds + [no_double_neg(c)])
            rec(n.get("else"), conds + [no_double_neg("!" + c)])
            return
        if k == "Match":
            rec(n["e"], conds)
            for a in n["arms"]:
                rec(a.get("guard"), conds)
                g = [t(strip(a["guard"]))] if a.get("guard") else []
                bm = bool_match_conds(n, a)
                rec(a["body"], conds + (bm if bm is not None else ["match %s:%s" % (t(n["e"]), t(a["pat"]))]) + g)
            return
        if k == "While":
            rec(n["cond"], conds)
            rec(n["body"], conds + [t(strip(n["cond"]))])
            return
        for v in children(n):
            rec(v, conds)

    rec(root, [])
    return found[0] if found else None


def conjuncts(text_or_node):
    """`a && b && c` -> {texts of a, b, c} (order-free)"""
    out = set()

    def rec(e):
        e = strip(e)
        if e.get("k") == "Binary" and e["op"] == "&&":
            rec(e["left"])
            rec(e["right"])
        else:
            out.add(unparse(e).replace(" ", ""))

    rec(text_or_node)
    return out


def enclosing_patterns(root, target):
    """patterns whose bindings are in force at `target`, outermost first: [(pattern, scrutinee)] for match
    arms, `if let` (then-branch), `while let`, let-else and plain destructuring lets of enclosing blocks"""
    found = []

    def rec(n, pats):
        if found:
            return
        if isinstance(n, list):
            for x in n:
                rec(x, pats)
            return
        if not isinstance(n, dict):
            return
        if n is target:
            found.append(list(pats))
            return
        k = n.get("k")
        if k == "Match":
            rec(n["e"], pats)
            for a in n["arms"]:
                p2 = pats + [(a["pat"], n["e"])]
                rec(a.get("guard"), p2)
                rec(a["body"], p2)
            return
        if k in ("If", "While"):
            c = strip(n["cond"])
            p2 = pats + [(c["pat"], c["e"])] if c.get("k") == "LetCond" else pats
            rec(n["cond"], pats)
            rec(n.get("then") or n.get("body"), p2)
            rec(n.get("else"), pats)
            return
        if k == "Block":
            p2 = list(pats)
            for s in n.get("stmts", []):
                rec(s, p2)
                if found:
                    return
                if s.get("k") == "Let" and s.get("init") is not None and s["pat"].get("k") not in ("PIdent", "PType", "PWild"):
                    p2 = p2 + [(s["pat"], s["init"])]
            return
        for v in children(n):
            rec(v, pats)

    rec(root, [])
    return found[0] if found else None


def struct_pat_bindings(pat):
    """`T { a, b: c, .. }` -> {'a': 'a', 'b': 'c'}"""
    out = {}
    if pat.get("k") == "PStruct":
        for f in pat.get("fields", []):
            out[f["name"]] = binding_name(f["pat"])
    return out


def value_cases(e):
    """the values an expression can take with the conditions selecting each:
    `if c { a } else { b }` -> [(a, [c]), (b, ['!c'])]; nested ifs / matches / blocks are followed"""
    out = []

    def t(n):
        return unparse(n).replace(" ", "")

    def rec(n, conds):
        n = strip(n) if isinstance(n, dict) else n
        if n is None:
            return
        k = n.get("k")
        if k == "Block":
            st = n["stmts"]
            if st and st[-1].get("k") == "ExprStmt" and not st[-1].get("semi", True):
                rec(st[-1]["e"], conds)
            else:
                out.append((n, conds))
        elif k == "If" and n.get("else") is not None:
            c = t(strip(n["cond"]))
            rec(n["then"], conds + [c])
            rec(n["else"], conds + ["!" + c])
        elif k == "Match":
            for arm in n["arms"]:
                rec(arm["body"], conds + ["match %s:%s" % (t(n["e"]), t(arm["pat"]))])
        elif k == "MethodCall" and n["method"] == "then_some" and len(n["args"]) == 1:
            # `c.then_some(v)` is `if c { Some(v) } else { None }`
            c = t(strip(n["recv"]))
            some = {"k": "Call", "func": {"k": "Path", "segs": ["Some"]}, "args": [n["args"][0]], "ln": n.get("ln")}
            none = {"k": "Path", "segs": ["None"], "ln": n.get("ln")}
            out.append((some, conds + [c]))
            out.append((none, conds + ["!" + c]))
        else:
            out.append((n, conds))

    rec(e, [])
    return out


def result_cases(body):
    """the values a function / closure body can produce, with the conditions for each: the tail
    expression's value cases plus every `return v` (with the conditions enclosing it)"""
    out = []
    tail = None
    b = strip(body)
    if b.get("k") == "Block":
        st = b["stmts"]
        if st and st[-1].get("k") == "ExprStmt" and not st[-1].get("semi", True):
            tail = st[-1]["e"]
    else:
        tail = b
    early = []
    for r in find(body, "Return"):
        if r.get("e") is None:
            continue
        cs = enclosing_conds(body, r) or []
        early.append(cs)
        for leaf, c2 in value_cases(r["e"]):
            out.append((leaf, cs + c2))
    if tail is not None:
        # the tail runs only when no early return fired
        neg = []
        for cs in early:
            if len(cs) == 1:
                neg.append(cs[0][1:] if cs[0].startswith("!") else "!" + cs[0])
        outer = enclosing_conds(body, tail) or []
        for leaf, c2 in value_cases(tail):
            out.append((leaf, neg + outer + c2))
    return out


def canon_int_text(c):
    """an integer comparison text in canonical form: `(a>=b)` / `!(a<b)` -> `(b<=a)`; `!(a>=b)` / `(a<b)` ->
    `(a<b)`; `>`/`<=` likewise.  Only for unsigned / integer operands (flipping a float comparison is wrong for
    NaN)"""
    c = c.strip()
    neg = False
    while c.startswith("!"):
        neg = not neg
        c = c[1:]
    if c.startswith("(") and c.endswith(")") and _balanced(c[1:-1]):
        inner = c[1:-1]
    else:
        inner = c
    m_ = _re.fullmatch(r"(.+?)(>=|<=|<|>)(.+)", inner)
    if not m_ or not _balanced(m_.group(1)) or not _balanced(m_.group(3)):
        return ("!" if neg else "") + c
    a_, op_, b_ = m_.groups()
    if neg:
        op_ = {">=": "<", "<": ">=", "<=": ">", ">": "<="}[op_]
    if op_ in (">=", ">"):
        a_, b_, op_ = b_, a_, {">=": "<=", ">": "<"}[op_]
    return "(%s%s%s)" % (a_, op_, b_)


def norm_cond(c):
    """`(!(x))` / `!x` -> canonical text with at most one leading `!`"""
    neg = False
    c = c.strip()
    while True:
        if c.startswith("!"):
            neg = not neg
            c = c[1:]
        elif c.startswith("(") and c.endswith(")") and _balanced(c[1:-1]):
            c = c[1:-1]
        else:
            break
    return ("!" if neg else "") + c


def guarded_writes(body, prefix):
    """every assignment to a place whose text starts with `prefix`, one entry per value case:
    [(left text, value node, [conditions outermost first], assign node)] - `if c { x = a } else { x = b }`
    and `x = if c { a } else { b }` give the same entries"""
    out = []
    for a in find(body, "Assign"):
        left = unparse(a["left"]).replace(" ", "")
        if not left.startswith(prefix):
            continue
        outer = enclosing_conds(body, a) or []
        for leaf, cs in value_cases(a["right"]):
            out.append((left, leaf, outer + cs, a))
    return out


def inline_helpers(fn, depth=2, max_lines=60, keep=(), private_only=True):
    """copy of `fn`'s body in which every call to a small helper defined in the same file is replaced by
    that helper's body (a block), its parameters replaced by the call's arguments.  Rules that walk the
    syntax tree (conditions, calls, loops) then see the same facts whether or not a maintainer extracted
    part of the function.  The copy's nodes keep `ln` of the helper for messages."""
    _clos = {}

    def closures_of(cur):
        """local closures `let [mut] f = |a, b| body;` of a function that are never re-bound: name -> closure"""
        if id(cur) not in _clos:
            tbl, dup = {}, set()
            for s_ in find(cur.get("body") or {}, "Let"):
                nm = binding_name(s_["pat"])
                init = strip(s_.get("init")) if s_.get("init") is not None else None
                if nm and init is not None and init.get("k") == "Closure":
                    if nm in tbl:
                        dup.add(nm)
                    tbl[nm] = (s_, init)
                elif nm and nm in tbl:
                    dup.add(nm)
            # only a closure that is *called* everywhere it is named: one passed on as a value stays a value
            body_ = cur.get("body") or {}
            for nm in list(tbl):
                called = sum(1 for c_ in find(body_, "Call") if path_segs(c_["func"]) == [nm])
                named = sum(1 for p_ in find(body_, "Path") if path_segs(p_) == [nm])
                if called == 0 or named != called:
                    dup.add(nm)
            _clos[id(cur)] = {k_: v_ for k_, v_ in tbl.items() if k_ not in dup}
        return _clos[id(cur)]

    def expand(node, cur, d):
        if isinstance(node, list):
            return [expand(x, cur, d) for x in node]
        if not isinstance(node, dict):
            return node
        if node.get("k") == "Block" and closures_of(cur):
            # the `let f = |..| ..;` of a closure that is expanded at its calls
            lets = {id(v_[0]) for k_, v_ in closures_of(cur).items() if k_ not in keep}
            if any(id(s_) in lets for s_ in node.get("stmts", [])):
                node = dict(node, stmts=[s_ for s_ in node["stmts"] if id(s_) not in lets or len(max_lines_ok(s_)) == 0])
        out = {k: (expand(v, cur, d) if isinstance(v, (dict, list)) and k != "tokens" else v) for k, v in node.items()}
        if d <= 0:
            return out
        name = args = None
        recv = None
        if out.get("k") == "Call":
            segs = path_segs(out["func"])
            cl = closures_of(cur).get(segs[0]) if segs and len(segs) == 1 and segs[0] not in keep else None
            if cl is not None and max_lines_ok(cl[0]):
                c_ = cl[1]
                params = [binding_name(p_) for p_ in c_.get("inputs", [])]
                if len(params) == len(out["args"]) and None not in params:
                    body = c_["body"]
                    if strip(body).get("k") != "Block":
                        body = {"k": "Block", "ln": c_.get("ln"), "le": c_.get("le"), "stmts": [{"k": "ExprStmt", "e": body, "semi": False, "ln": c_.get("ln")}]}
                    else:
                        body = strip(body)
                    for p, a in zip(params, out["args"]):
                        a2 = strip(a)
                        if a2 is not None and ident(a2) != p and not any(x.get("k") in ("Closure", "Block", "Macro") for x in walk(a2)):
                            body = _subst(body, p, a2)
                    body = dict(expand(body, cur, d - 1))
                    body["_inlined"] = segs[0]
                    return body
        if out.get("k") == "MethodCall" and ident(strip(out["recv"])) == "self":
            name, args = out["method"], out["args"]
        elif out.get("k") == "MethodCall" and ident(strip(out["recv"])):
            # `other.helper(..)`: only a *private* method of a type defined in this file, found by its unique name
            name, args, recv = out["method"], out["args"], strip(out["recv"])
        elif out.get("k") == "Call":
            segs = path_segs(out["func"])
            if segs and (len(segs) == 1 or (len(segs) == 2 and segs[0] == "Self")):
                name, args = segs[-1], out["args"]
        if name is None or name in keep:
            return out
        callee = _same_file_fn(cur, name)
        if callee is None or callee is cur or not callee.get("body") or (callee["body"].get("le", 0) - callee["body"].get("ln", 0)) > max_lines:
            return out
        if private_only and callee.get("vis") and not str(callee.get("vis")).replace(" ", "").startswith(("pub(crate)", "pub(super)", "pub(self)")):
            return out  # a public function is an interface the rules may talk about, not a local helper
        if recv is not None:
            takes_self = bool(callee["sig"]["inputs"]) and "self" in callee["sig"]["inputs"][0]
            if not takes_self or callee.get("vis") or (callee.get("_owner") or {}).get("trait"):
                return out
        params = [binding_name(i["pat"]) for i in callee["sig"]["inputs"] if isinstance(i, dict) and "pat" in i]
        if len(params) != len(args) or None in params:
            return out
        body = callee["body"]
        for p, a in zip(params, args):
            a2 = strip(a)
            if a2 is not None and ident(a2) != p and not any(x.get("k") in ("Closure", "Block", "Macro") for x in walk(a2)):
                body = _subst(body, p, a2)
        if recv is not None:
            body = _subst(body, "self", recv)
        body = expand(body, callee, d - 1)
        body = dict(body)
        body["_inlined"] = name
        return body

    def max_lines_ok(let_stmt):
        c_ = strip(let_stmt["init"])
        return [1] if (c_.get("le", 0) - c_.get("ln", 0)) <= max_lines else []

    return expand(fn["body"], fn, depth)


def hoist_inlined(e):
    """(statements, expression): every block that `inline_helpers` put in place of a call inside `e` is
    replaced by its tail expression and its other statements are returned, in order - `x = f(y)` with
    `f` expanded reads as f's statements followed by `x = <f's result>`"""
    pre = []

    def rec(n):
        if isinstance(n, list):
            return [rec(x) for x in n]
        if not isinstance(n, dict):
            return n
        out = {k: (rec(v) if isinstance(v, (dict, list)) and k != "tokens" else v) for k, v in n.items()}
        if out.get("k") == "Block" and out.get("_inlined") and out.get("stmts"):
            st = out["stmts"]
            if st[-1].get("k") == "ExprStmt" and not st[-1].get("semi", True):
                pre.extend(st[:-1])
                return st[-1]["e"]
        return out

    return pre, rec(e)


def unblock(e):
    """`{ expr }` -> expr (a block that only wraps one tail expression), else e"""
    e = strip(e) if isinstance(e, dict) else e
    while isinstance(e, dict) and e.get("k") == "Block" and len(e.get("stmts", [])) == 1 and e["stmts"][0].get("k") == "ExprStmt" and not e["stmts"][0].get("semi", True):
        e = strip(e["stmts"][0]["e"])
    return e


def _flip(op):
    return {"<": ">=", "<=": ">", ">": "<=", ">=": "<", "==": "!=", "!=": "=="}[op]


def int_conjuncts(cond, negate=False):
    """atomic conjuncts of an *integer* condition with negations pushed inward (De Morgan, flipped
    comparisons) and comparisons written with `<` / `<=` only; a disjunction that cannot be split is
    kept as one text.  Only for index / bounds arithmetic: flipping a float comparison is wrong for NaN."""
    e = strip(cond)
    k = e.get("k")
    if k == "Unary" and e.get("op") == "!":
        return int_conjuncts(e["e"], not negate)
    if k == "Binary" and e["op"] in ("&&", "||"):
        is_and = (e["op"] == "&&") != negate
        if is_and:
            return int_conjuncts(e["left"], negate) | int_conjuncts(e["right"], negate)
        return {("!" if negate else "") + unparse(e).replace(" ", "")}
    if k == "Binary" and e["op"] in ("<", "<=", ">", ">=", "==", "!="):
        op = _flip(e["op"]) if negate else e["op"]
        l, r = unparse(strip(e["left"])).replace(" ", ""), unparse(strip(e["right"])).replace(" ", "")
        if op in (">", ">="):
            l, r, op = r, l, {">": "<", ">=": "<="}[op]
        if op in ("==", "!=") and r < l:
            l, r = r, l
        return {"(%s%s%s)" % (l, op, r)}
    return {("!" if negate else "") + unparse(e).replace(" ", "")}


def path_conjuncts(root, target):
    """integer path condition of `target`: conjuncts of the enclosing `if`s (else-branches negated) and of
    the negations of earlier sibling `if c { .. continue / return / break }` guards, normalised by
    int_conjuncts"""
    found = []

    def diverges(blk):
        st = stmts_of(blk)
        last = strip(stmt_expr(st[-1]) or {}) if st else {}
        return last.get("k") in ("Continue", "Return", "Break")

    def rec(n, conj):
        if found:
            return
        if isinstance(n, list):
            for x in n:
                rec(x, conj)
            return
        if not isinstance(n, dict):
            return
        if n is target:
            found.append(set(conj))
            return
        k = n.get("k")
        if k == "If" and strip(n["cond"]).get("k") != "LetCond":
            rec(n["cond"], conj)
            rec(n["then"], conj | int_conjuncts(n["cond"]))
            rec(n.get("else"), conj | int_conjuncts(n["cond"], True))
            return
        if k == "Block":
            c2 = set(conj)
            for s in n.get("stmts", []):
                rec(s, c2)
                if found:
                    return
                e = strip(stmt_expr(s) or {}) if s.get("k") == "ExprStmt" else {}
                if e.get("k") == "If" and e.get("else") is None and strip(e["cond"]).get("k") != "LetCond" and diverges(e["then"]):
                    c2 = c2 | int_conjuncts(e["cond"], True)
            return
        for v in children(n):
            rec(v, conj)

    rec(root, set())
    return found[0] if found else None


def resolve_locals(root, e, depth=3):
    """text of `e` with every identifier that is bound exactly once in `root` by an immutable `let x = init;`
    replaced by its initialiser (whatever the initialiser reads: this is for comparing what a value *is*, at a
    use that follows the let directly; it is not a statement about evaluation order)"""
    lets = {}
    for s in find(root, "Let"):
        p = s["pat"]["pat"] if s["pat"].get("k") == "PType" else s["pat"]
        if p.get("k") == "PIdent" and not p.get("mut") and s.get("init") is not None:
            lets.setdefault(p["name"], []).append(s["init"])

    def sub(n, d):
        if isinstance(n, list):
            return [sub(x, d) for x in n]
        if not isinstance(n, dict):
            return n
        if n.get("k") == "Path" and ident(n) in lets and len(lets[ident(n)]) == 1 and d > 0:
            init = lets[ident(n)][0]
            if not any(x.get("k") == "Path" and ident(x) == ident(n) for x in walk(init)):
                return sub(init, d - 1)
        return {k: (sub(v, d) if isinstance(v, (dict, list)) and k != "tokens" else v) for k, v in n.items()}

    return unparse(sub(e, depth)).replace(" ", "")


def adjacent_view(root):
    """copy of `root` in which an immutable single-use `let x = init;` that is *immediately* followed by the
    statement using it is folded into that use, whatever the initialiser is (iterator chains, closures) as
    long as it calls nothing from the mutating list, has no `?` and no macro: naming the argument of the
    very next statement does not change what is computed"""
    def ok_init(e):
        for n in walk(e):
            k = n.get("k")
            if k in ("Try", "Macro", "Unsafe", "Return", "Break", "Continue", "Assign"):
                return False
            if k == "MethodCall" and n["method"] in _IMPURE_METHODS:
                return False
        return True

    def fold(stmts):
        stmts = list(stmts)
        changed = True
        while changed:
            changed = False
            for i, s in enumerate(stmts[:-1]):
                if s.get("k") != "Let" or s.get("else") or s.get("init") is None:
                    continue
                p = s["pat"]["pat"] if s["pat"].get("k") == "PType" else s["pat"]
                if p.get("k") != "PIdent" or p.get("mut") or p.get("ref"):
                    continue
                name = p["name"]
                if not ok_init(s["init"]) or any(ident(x) == name for x in walk(s["init"]) if x.get("k") == "Path"):
                    continue
                nxt = stmts[i + 1]
                if _uses(nxt, name) != 1 or any(_uses(r, name) for r in stmts[i + 2:]):
                    continue
                if any(n.get("k") in ("For", "While", "Loop", "Closure") and _uses(n, name) for n in walk(nxt)):
                    continue
                stmts = stmts[:i] + [_subst(nxt, name, s["init"])] + stmts[i + 2:]
                changed = True
                break
        return stmts

    def rec(node):
        if isinstance(node, list):
            return [rec(x) for x in node]
        if not isinstance(node, dict):
            return node
        out = {k: (rec(v) if isinstance(v, (dict, list)) and k != "tokens" else v) for k, v in node.items()}
        if out.get("k") == "Block" and isinstance(out.get("stmts"), list):
            out["stmts"] = fold(out["stmts"])
        return out

    return rec(root)


def value_view(root):
    """copy of `root` in which every immutable `let x = init;` (no closure / block / macro / `?` in init) is
    folded into the uses in its own scope, whatever the initialiser reads: what each expression *is*, for
    shape comparisons that do not care how intermediate values were named.  Scopes and shadowing are
    respected; this is not a statement about evaluation order."""
    def rec(node):
        if isinstance(node, list):
            return [rec(x) for x in node]
        if not isinstance(node, dict):
            return node
        out = {k: (rec(v) if isinstance(v, (dict, list)) and k != "tokens" else v) for k, v in node.items()}
        if out.get("k") == "Block" and isinstance(out.get("stmts"), list):
            out["stmts"] = inline_simple_lets(out["stmts"], multi=True, force=True)
        return out

    return rec(root)
