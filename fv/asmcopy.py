"""E3.5 call discipline: copy propagation over the straight-line call helpers.

Only data *movement* is tracked (moves, loads, stores, lane permutes); every
other instruction yields an opaque value.  No arithmetic is evaluated.
The question asked: after the helper, does every live tape register and every
pointer register hold again what it held on entry, do the callee's argument
registers hold the operand lanes, and does the output hold the returned lanes?"""
import re

from . import ast as A
from . import asm as M
from . import asmchecks as C

# live lanes (4 bytes each) of a tape register per assembler, from `type Data` and SIMD width
LIVE_LANES = {"point": 1, "interval": 2, "float_slice": 8, "grad_slice": 4}
# pointer registers that must survive a call (besides rsp/rbp)
POINTERS = {
    "point": ["rdi", "rsi", "rdx", "rcx"],
    "interval": ["rdi", "rsi", "rdx", "rcx"],
    "float_slice": ["rdi", "rsi", "rdx", "rcx", "r15"],
    "grad_slice": ["rdi", "rsi", "rdx", "rcx"],
}
CALLEE_SAVED = ["rbx", "rbp", "rsp", "r12", "r13", "r14", "r15"]

LANES = {
    "movss": 1, "vmovss": 1, "movd": 1, "vmovd": 1,
    "movq": 2, "vmovq": 2, "movsd": 2, "vmovsd": 2,
}


def imm_int(o):
    if o.kind != "imm":
        return None
    t = o.text.replace(" ", "").replace("_", "")
    m = re.match(r"^\(?(0x[0-9a-fA-F]+|0b[01]+|\d+)(u8|i8|u32|i32)?\)?(as(i8|u8|i32|u32))?$", t)
    if not m:
        return None
    return int(m.group(1), 0)


class State:
    def __init__(self, kind, params):
        self.kind = kind
        self.vec = {}
        for n in range(16):
            self.vec[str(n)] = [("X", n, l) for l in range(8)]
        for p in params:
            self.vec["T:" + p] = [("T", p, l) for l in range(8)]
        self.gpr = {r: ("G", r) for r in M.GPR64}
        self.mem = {}
        self.calls = []
        self.events = []

    def cell(self, o, lane):
        base = "+".join(o.regs)
        return (base, o.off + 4 * lane, tuple(o.sym))

    def vwidth(self, o):
        return 8 if o.width == 32 else 4


def step(st, x):
    e = M.effect(x)
    m = x.mnem
    ops = x.ops
    k = e.kind
    if k in ("label", None):
        return
    if k == "call":
        args = {r: list(st.vec[r]) for r in ("0", "1", "2", "3")}
        idx = len(st.calls)
        st.calls.append({"args": args, "ln": x.ln, "target": repr(ops[0])})
        for n in range(16):
            st.vec[str(n)] = [("clobber", idx, n, l) for l in range(8)]
        for l in range(4):
            st.vec["0"][l] = ("ret", idx, "x0", l)
            st.vec["1"][l] = ("ret", idx, "x1", l)
        for r in M.CALL_CLOBBER_GPR:
            st.gpr[r] = ("clobber", idx, r)
        # memory below rsp may be clobbered by the callee, but the frame is above it
        return
    # ---- vector moves
    if k == "vmov":
        d, s = ops
        nl = LANES.get(m)
        if nl is None:  # full-width moves
            nl = None
        if d.kind == "vec" and s.kind == "mem":
            n = nl if nl is not None else st.vwidth(d)
            lanes = [st.mem.get(st.cell(s, l), ("mem?", st.cell(s, l))) for l in range(n)]
            st.vec[d.name] = lanes + [("zero",)] * (8 - n)
        elif d.kind == "mem" and s.kind == "vec":
            n = nl if nl is not None else st.vwidth(s)
            for l in range(n):
                st.mem[st.cell(d, l)] = st.vec[s.name][l]
        elif d.kind == "vec" and s.kind == "vec":
            if m in ("movss", "movsd"):  # legacy reg-reg: merge low lanes, keep the rest
                n = nl
                st.vec[d.name] = list(st.vec[s.name][:n]) + list(st.vec[d.name][n:])
            elif m in ("vmovq", "movq"):
                st.vec[d.name] = list(st.vec[s.name][:2]) + [("zero",)] * 6
            elif m in ("vmovd", "movd"):
                st.vec[d.name] = list(st.vec[s.name][:1]) + [("zero",)] * 7
            else:
                n = st.vwidth(d)
                keep = st.vec[d.name][n:] if not m.startswith("v") else [("zero",)] * (8 - n)
                st.vec[d.name] = list(st.vec[s.name][:n]) + list(keep)
        elif d.kind == "vec" and s.kind == "gpr":
            n = 1 if m in ("vmovd", "movd") else 2
            st.vec[d.name] = [("gprbits", st.gpr.get(s.name), l) for l in range(n)] + [("zero",)] * (8 - n)
        elif d.kind == "gpr" and s.kind == "vec":
            st.gpr[d.name] = ("vecbits", tuple(st.vec[s.name][:2]))
        else:
            _opaque_writes(st, e, x)
        return
    if k == "vmov3" and all(o.kind == "vec" for o in ops):
        d, a, b = ops
        n = LANES[m]
        st.vec[d.name] = list(st.vec[b.name][:n]) + list(st.vec[a.name][n:4]) + [("zero",)] * 4
        return
    if m == "vpshufd" and len(ops) == 3 and ops[0].kind == "vec" and ops[1].kind == "vec" and ops[0].width == 16:
        imm = imm_int(ops[2])
        if imm is not None:
            src = st.vec[ops[1].name]
            st.vec[ops[0].name] = [src[(imm >> (2 * i)) & 3] for i in range(4)] + [("zero",)] * 4
            return
    if m == "vpunpcklqdq" and len(ops) == 3 and all(o.kind == "vec" for o in ops) and ops[0].width == 16:
        a, b = st.vec[ops[1].name], st.vec[ops[2].name]
        st.vec[ops[0].name] = [a[0], a[1], b[0], b[1]] + [("zero",)] * 4
        return
    if m == "vunpcklps" and len(ops) == 3 and all(o.kind == "vec" for o in ops) and ops[0].width == 16:
        a, b = st.vec[ops[1].name], st.vec[ops[2].name]
        st.vec[ops[0].name] = [a[0], b[0], a[1], b[1]] + [("zero",)] * 4
        return
    # ---- GPR moves
    if k == "mov" and m == "mov":
        d, s = ops
        if d.kind == "gpr" and s.kind == "gpr" and d.width == 8 and s.width == 8:
            st.gpr[d.name] = st.gpr[s.name]
            return
        if d.kind == "gpr" and s.kind == "mem" and d.width == 8:
            lo, hi = st.mem.get(st.cell(s, 0)), st.mem.get(st.cell(s, 1))
            if lo is not None and lo == hi and lo[0] == "gsave":
                st.gpr[d.name] = lo[1]
            else:
                st.gpr[d.name] = ("memload", st.cell(s, 0), x.ln)
            return
        if d.kind == "mem" and s.kind == "gpr" and s.width == 8:
            v = ("gsave", st.gpr[s.name])
            st.mem[st.cell(d, 0)] = v
            st.mem[st.cell(d, 1)] = v
            return
        if d.kind == "gpr" and s.kind == "imm":
            st.gpr[d.name] = ("imm", s.text.replace(" ", ""))
            return
    _opaque_writes(st, e, x)


def _opaque_writes(st, e, x):
    for o in e.writes:
        if o.kind == "vec":
            st.vec[o.name] = [("opaque", x.ln, l) for l in range(8)]
        else:
            st.gpr[o.name] = ("opaque", x.ln)
    for o in e.mem_writes:
        n = 8 if any(w.kind == "vec" and w.width == 32 for w in e.reads) else 4
        for l in range(n):
            st.mem[st.cell(o, l)] = ("opaque", x.ln, l)


def show(v):
    if v is None:
        return "unset"
    if v[0] == "X":
        return "xmm%d[%d]" % (v[1], v[2])
    if v[0] == "T":
        return "%s[%d]" % (v[1], v[2])
    if v[0] == "ret":
        return "ret#%d.%s[%d]" % (v[1], v[2], v[3])
    if v[0] == "clobber":
        return "clobbered-by-call#%d" % v[1]
    if v[0] == "G":
        return v[1]
    return str(v)


def check_call_helper(rule, kind, name, root=None):
    p = C.path_of(kind)
    builders = M.load_builders(p, root)
    if name not in builders:
        rule.lost("%s::%s" % (p, name))
        return
    b = builders[name]
    ins = M.flat_ins(b)
    vparams = [n for n, ty in b.params if ty == "u8"]
    outp, inputs = vparams[0], vparams[1:]
    st = State(kind, vparams)
    probs = []
    # the proof below is about the whole sequence: a block emitted only under some assembly-time condition
    # ("the previous clause was also a call, so the backup is still in place") makes it a statement about a
    # sequence that is not always the one emitted
    ncond = C.conditional_blocks(b)
    if ncond:
        probs.append((b.fn["ln"], "%d of the helper's dynasm blocks are emitted under Rust control flow: save, marshal, call and restore must be emitted whole, every time (what a skipped backup relies on - \"nothing ran since the last call\" - is false as soon as the previous clause wrote its result)" % ncond))
    n_live = LIVE_LANES[kind]
    out_written_at = None
    for i, x in enumerate(ins):
        e = M.effect(x)
        if e.unknown:
            probs.append((x.ln, "unknown instruction `%r`" % x))
        if e.kind in ("jcc", "jmp"):
            probs.append((x.ln, "call helper is not straight-line (`%r`)" % x))
        # inputs must be read before any live register could have been overwritten
        for o in e.reads:
            if o.kind == "vec" and o.name.startswith("T:") and o.name[2:] in inputs:
                dirty = [n for n in range(4, 16) if st.vec[str(n)][0] != ("X", n, 0)]
                if dirty:
                    probs.append((x.ln, "`%r` reads operand `%s` after xmm%d was overwritten (the operand may live there)" % (x, o.name[2:], dirty[0])))
        if out_written_at is not None:
            for o in e.writes:
                if o.kind == "vec" and o.name.isdigit() and int(o.name) >= 4:
                    probs.append((x.ln, "`%r` overwrites xmm%s after the result was placed in the output register (they may be the same register)" % (x, o.name)))
        step(st, x)
        for o in e.writes:
            if o.kind == "vec" and o.name == "T:" + outp:
                out_written_at = x.ln
    # (a) live registers restored
    for n in range(4, 16):
        for l in range(n_live):
            v = st.vec[str(n)][l]
            if v != ("X", n, l):
                probs.append((b.fn["ln"], "after the call xmm%d lane %d holds %s instead of its saved value" % (n, l, show(v))))
                break
    # (b) pointers restored
    for r in POINTERS[kind]:
        if st.gpr[r] != ("G", r):
            probs.append((b.fn["ln"], "after the call %s holds %s instead of its saved value" % (r, show(st.gpr[r]))))
    for r in ("rsp", "rbp", "rbx"):
        if st.gpr[r] != ("G", r):
            probs.append((b.fn["ln"], "%s is modified by the call helper" % r))
    # callee-saved registers used as scratch must have been saved by ensure_callee_regs_saved
    used_cs = [r for r in ("r12", "r13", "r14", "r15") if st.gpr[r] != ("G", r)]
    if used_cs and kind in C.TRACING:
        first = b.fn["body"]["stmts"][0]
        if "ensure_callee_regs_saved" not in A.unparse(first):
            probs.append((b.fn["ln"], "uses %s but does not call ensure_callee_regs_saved() first" % used_cs))
    # (c) arguments and result
    binary = len(inputs) == 2
    ncalls = {"point": 1, "interval": 1, "float_slice": 8, "grad_slice": 1}[kind]
    if len(st.calls) != ncalls:
        probs.append((b.fn["ln"], "%d call instructions, expected %d" % (len(st.calls), ncalls)))
    else:
        for ci, c in enumerate(st.calls):
            want = {}
            if kind == "point":
                want["0"] = [("T", inputs[0], 0)]
                if binary:
                    want["1"] = [("T", inputs[1], 0)]
            elif kind == "interval":
                want["0"] = [("T", inputs[0], 0), ("T", inputs[0], 1)]
                if binary:
                    want["1"] = [("T", inputs[1], 0), ("T", inputs[1], 1)]
            elif kind == "float_slice":
                want["0"] = [("T", inputs[0], ci)]
                if binary:
                    want["1"] = [("T", inputs[1], ci)]
            else:
                want["0"] = [("T", inputs[0], 0), ("T", inputs[0], 1)]
                want["1"] = [("T", inputs[0], 2), ("T", inputs[0], 3)]
                if binary:
                    want["2"] = [("T", inputs[1], 0), ("T", inputs[1], 1)]
                    want["3"] = [("T", inputs[1], 2), ("T", inputs[1], 3)]
            for r, lanes in want.items():
                got = c["args"][r][: len(lanes)]
                if got != lanes:
                    probs.append((c["ln"], "call #%d: xmm%s holds [%s], the callee expects [%s]" % (ci, r, ", ".join(show(v) for v in got), ", ".join(show(v) for v in lanes))))
            if c["target"] not in ("rsi", "rdx", "r15", "rax"):
                pass
        out = st.vec["T:" + outp]
        if kind == "point":
            want_out = [("ret", 0, "x0", 0)]
        elif kind == "interval":
            want_out = [("ret", 0, "x0", 0), ("ret", 0, "x0", 1)]
        elif kind == "float_slice":
            want_out = [("ret", k, "x0", 0) for k in range(8)]
        else:
            want_out = [("ret", 0, "x0", 0), ("ret", 0, "x0", 1), ("ret", 0, "x1", 0), ("ret", 0, "x1", 1)]
        if out[: len(want_out)] != want_out:
            probs.append((out_written_at or b.fn["ln"], "the output register holds [%s], expected the returned lanes [%s]" % (", ".join(show(v) for v in out[: len(want_out)]), ", ".join(show(v) for v in want_out))))
    # (d) the function pointer register holds the callee address at each call
    # (checked through the copy state at call time is not recorded; check textually: a `mov r, QWORD addr as _` precedes)
    if not any(x.mnem == "mov" and len(x.ops) == 2 and x.ops[1].kind == "imm" and "addr" in x.ops[1].text for x in ins):
        probs.append((b.fn["ln"], "the callee address is never loaded"))
    if probs:
        seen = set()
        for ln, msg in probs:
            if msg in seen:
                continue
            seen.add(msg)
            rule.bad("%s|%s|%s" % (kind, name, msg[:60]), "%s %s: %s" % (kind, name, msg), "%s:%d" % (p, ln))
    else:
        rule.ok("%s %s: %d live registers x %d lanes and %d pointers restored; arguments and result lanes in place" % (kind, name, 12, n_live, len(POINTERS[kind])), file=p, line=b.fn["ln"])


def check_frame(rule, kind, root=None):
    """save slots are disjoint, inside STACK_SIZE_LOWER; rbp slots inside STACK_SIZE_UPPER;
    load/store offset = stack_pos + STACK_SIZE_LOWER"""
    p = C.path_of(kind)
    consts = {}
    for c in A.find_items(p, "Const", root=root):
        v = A.lit_value(c["e"])
        if v is not None:
            consts[c["name"]] = v
    if "STACK_SIZE_LOWER" not in consts or "STACK_SIZE_UPPER" not in consts:
        rule.lost("STACK_SIZE_LOWER/UPPER in %s" % p)
        return
    lower, upper = consts["STACK_SIZE_LOWER"], consts["STACK_SIZE_UPPER"]
    builders = M.load_builders(p, root)
    probs = []
    for name in ("call_fn_unary", "call_fn_binary", "ensure_callee_regs_saved", "finalize"):
        b = builders.get(name)
        if b is None:
            continue
        cells = {}
        for x in M.flat_ins(b):
            e = M.effect(x)
            for o, w in [(o, True) for o in e.mem_writes] + [(o, False) for o in e.mem_reads]:
                if o.sym:
                    continue
                width = 8
                vs = [r for r in (e.reads + e.writes) if r.kind == "vec"]
                if vs:
                    width = {None: vs[0].width}.get(None)
                    width = M.LANES.get(x.mnem, None) if False else width
                    nl = LANES.get(x.mnem)
                    width = 4 * nl if nl else vs[0].width
                if o.regs == ["rsp"]:
                    if o.off < 0 or o.off + width > lower:
                        probs.append((x.ln, "%s: `%r` touches [rsp%+d..%+d), outside the %#x-byte call area (it would overwrite register spills)" % (name, x, o.off, o.off + width, lower)))
                    cells.setdefault(("rsp", o.off), set()).add(width)
                elif o.regs == ["rbp"]:
                    if o.off >= 0 or -o.off > upper:
                        probs.append((x.ln, "%s: `%r` touches [rbp%+d], outside the %#x bytes reserved below rbp" % (name, x, o.off, upper)))
    # load/store
    for name in ("build_load", "build_store"):
        b = builders.get(name)
        if b is None:
            rule.lost("%s in %s" % (name, p))
            continue
        t = A.ftxt(b.fn["body"])
        param = b.params[1][0] if name == "build_load" else b.params[0][0]
        if "(self.0.stack_pos(%s)+(STACK_SIZE_LOWERasu32))" % param not in t:
            probs.append((b.fn["ln"], "%s: the spill offset must be stack_pos(%s) + STACK_SIZE_LOWER" % (name, param)))
        regp = b.params[0][0] if name == "build_load" else b.params[1][0]
        if "assert!(((%sasusize)<REGISTER_LIMIT))" % regp not in t:
            probs.append((b.fn["ln"], "%s: missing assertion that `%s` is a real register (not the immediate register)" % (name, regp)))
    if probs:
        for ln, msg in probs:
            rule.bad("%s|frame|%s" % (kind, msg[:60]), "%s %s" % (kind, msg), "%s:%d" % (p, ln))
    else:
        rule.ok("%s: call area within %#x bytes, rbp slots within %#x, spill offsets based at STACK_SIZE_LOWER" % (kind, lower, upper), file=p, line=1)
