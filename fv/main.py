"""./check <ID> [--tier quick|thorough] [--explain path]"""
import argparse
import importlib
import json
import os
import sys

from . import ast as A
from .report import Ctx


def main(argv=None):
    ap = argparse.ArgumentParser()
    ap.add_argument("pid")
    ap.add_argument("--tier", default=os.environ.get("VERIF_TIER", "quick"))
    ap.add_argument("--explain")
    args = ap.parse_args(argv)
    if args.explain:
        with open(args.explain) as f:
            d = json.load(f)
        for v in d["violations"]:
            print("[%s]\n  where: %s\n  %s\n" % (v["key"], v.get("where", ""), v["msg"]))
        return 0
    tier = args.tier if args.tier in ("quick", "thorough") else "quick"
    seed = int(os.environ.get("VERIF_SEED", "0") or 0)
    ctx = Ctx(args.pid, tier, seed)
    try:
        mod = importlib.import_module("fv.props.%s" % args.pid)
    except ModuleNotFoundError:
        print("no check for %s" % args.pid)
        return 2
    try:
        A.ast_dir()
    except Exception as e:  # the tree does not even parse
        r = ctx.rule("R0", "source tree parses", 1)
        r.lost("astdump failed: %s" % e)
        return ctx.finish()
    mod.run(ctx)
    return ctx.finish()


if __name__ == "__main__":
    sys.exit(main())
