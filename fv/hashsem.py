"""The integer hash behind `rand` / `mix`, compared as terms across every implementation.

`fidget_core::rng::{hash, rand, mix}` is the reference; the eight native assemblers re-implement it instruction by
instruction (general registers in the single-point / gradient evaluators, SIMD integer lanes in the float-slice
evaluators), and nothing this x86_64 host can run ever executes the aarch64 versions.  Each implementation is turned
into a term over its input bit pattern(s) in a small algebra of 32-bit operations

    const | in(name) | mul | add | xor | or | shr(t, k) | shrv(t, count) | fsub1(bits)

by a dataflow pass over the instruction list (no values are computed), normalised (constants modulo 2^32,
commutative operands sorted, `shr` distributed over `xor` and composed: `(w ^ (w >> 22)) >> 9` and
`(w >> 9) ^ (w >> 31)` are the same term), and compared with the term of the reference.  Straight-line clauses
only; a clause with branches (the interval evaluators test for a single bit pattern first) is not analysed."""
import re
import struct

from . import ast as A

RNG = "fidget-core/src/rng/mod.rs"
M32 = 0xFFFFFFFF


class Stop(Exception):
    pass


# ---------------------------------------------------------------------------------------------------------------
# terms


def norm(t):
    if isinstance(t, int):
        return t & M32
    if not isinstance(t, tuple):
        return t
    op = t[0]
    if op == "in":
        return t
    if op in ("mul", "add", "xor", "or"):
        args = []
        for a in t[1:]:
            a = norm(a)
            if isinstance(a, tuple) and a[0] == op:
                args.extend(a[1:])
            else:
                args.append(a)
        consts = [a for a in args if isinstance(a, int)]
        rest = [a for a in args if not isinstance(a, int)]
        if consts:
            c = consts[0]
            for k in consts[1:]:
                c = {"mul": c * k, "add": c + k, "xor": c ^ k, "or": c | k}[op] & M32
            ident = {"mul": 1, "add": 0, "xor": 0, "or": 0}[op]
            if c != ident or not rest:
                rest.append(c & M32)
        rest.sort(key=repr)
        return rest[0] if len(rest) == 1 else (op,) + tuple(rest)
    if op == "shr":
        a, k = norm(t[1]), t[2]
        if k == 0:
            return a
        if isinstance(a, int):
            return (a >> k) & M32
        if isinstance(a, tuple) and a[0] == "shr":
            return norm(("shr", a[1], a[2] + k))
        if isinstance(a, tuple) and a[0] == "xor":
            return norm(("xor",) + tuple(("shr", x, k) for x in a[1:]))
        return ("shr", a, k)
    if op == "shrv":
        return ("shrv", norm(t[1]), norm(t[2]))
    if op == "fsub1":
        return ("fsub1", norm(t[1]))
    if op == "neg":
        return ("neg", norm(t[1]))
    return t


def show(t):
    if isinstance(t, int):
        return "%#x" % t
    if t[0] == "in":
        return t[1]
    if t[0] in ("shr",):
        return "(%s >> %d)" % (show(t[1]), t[2])
    if t[0] == "shrv":
        return "(%s >> %s)" % (show(t[1]), show(t[2]))
    if t[0] == "fsub1":
        return "from_bits(%s) - 1.0" % show(t[1])
    sym = {"mul": " * ", "add": " + ", "xor": " ^ ", "or": " | "}.get(t[0])
    if sym:
        return "(" + sym.join(show(a) for a in t[1:]) + ")"
    return repr(t)


# ---------------------------------------------------------------------------------------------------------------
# the reference, from the Rust source


def _lit_int(e):
    s_ = str(e.get("v", e.get("s", ""))).replace("_", "")
    s_ = re.sub(r"(u32|i32|u64|usize)$", "", s_)
    return int(s_, 0)


class RefEval:
    def __init__(self, fns):
        self.fns = fns

    def ev(self, e, env):
        e = A.strip(e)
        k = e.get("k")
        if k == "Lit":
            return _lit_int(e)
        if k == "Path":
            n = A.ident(e)
            if n in env:
                return env[n]
            raise Stop("name `%s`" % n)
        if k == "MethodCall":
            r = self.ev(e["recv"], env)
            m = e["method"]
            if m in ("wrapping_mul", "wrapping_add") and len(e["args"]) == 1:
                return ("mul" if m == "wrapping_mul" else "add", r, self.ev(e["args"][0], env))
            raise Stop("method `%s`" % m)
        if k == "Binary":
            a = self.ev(e["left"], env)
            op = e["op"]
            if op == "-" and A.unparse(A.strip(e["right"])).replace(" ", "") in ("1.0", "1f32", "1.0f32", "1.0_f32") and isinstance(a, tuple) and a[0] == "frombits":
                return ("fsub1", a[1])
            if op == ">>":
                b = self.ev(e["right"], env)
                return ("shr", a, b) if isinstance(norm(b), int) else ("shrv", a, b)
            b = self.ev(e["right"], env)
            if op == "^":
                return ("xor", a, b)
            if op == "|":
                return ("or", a, b)
            if op == "+":
                return ("add", a, b)
            if op == "-" and A.unparse(A.strip(e["right"])).replace(" ", "") in ("1.0", "1f32", "1.0f32") and isinstance(a, tuple) and a[0] == "frombits":
                return ("fsub1", a[1])
            raise Stop("operator `%s`" % op)
        if k == "Call":
            segs = A.path_segs(e["func"]) or []
            if segs[-1:] == ["from_bits"] and len(e["args"]) == 1:
                return ("frombits", self.ev(e["args"][0], env))
            if len(segs) == 1 and segs[0] in self.fns and len(e["args"]) == len(self.fns[segs[0]][0]):
                ps, body = self.fns[segs[0]]
                return self.run(body, dict(zip(ps, [self.ev(a, env) for a in e["args"]])))
            raise Stop("call `%s`" % A.unparse(e["func"]))
        raise Stop("`%s`" % k)

    def run(self, body, env):
        env = dict(env)
        last = None
        for s in A.stmts_of(body):
            if s.get("k") == "Let":
                env[A.binding_name(s["pat"])] = self.ev(s["init"], env)
            elif s.get("k") == "ExprStmt":
                last = self.ev(s["e"], env)
        return last


def reference(root=None):
    d = A.load(RNG, root)
    fns = {}
    for f in d["_fns"]:
        if f["_test"] or f.get("body") is None:
            continue
        fns[f["name"]] = ([A.binding_name(i["pat"]) for i in f["sig"]["inputs"] if isinstance(i, dict) and "pat" in i], f["body"])
    r = RefEval(fns)
    out = {}
    ps, body = fns["rand"]
    out["rand"] = norm(r.run(body, {ps[0]: ("in", "lhs")}))
    ps, body = fns["mix"]
    out["mix"] = norm(r.run(body, {ps[0]: ("in", "lhs"), ps[1]: ("in", "rhs")}))
    return out


# ---------------------------------------------------------------------------------------------------------------
# native implementations


def _imm(text, lets=None):
    t = text.replace(" ", "").replace("_", "").lstrip("#")
    t = re.sub(r"as(i8|u8|i32|u32|i64|u64)$", "", t)
    t = t.strip("()")
    t = re.sub(r"(u32|i32|u64|i64|u8|i8)$", "", t)
    try:
        return int(t, 0) & M32
    except ValueError:
        pass
    try:
        f = float(t)
        return struct.unpack("<I", struct.pack("<f", f))[0]
    except ValueError:
        raise Stop("immediate `%s`" % text)


def x86_term(ins, inputs, out, fallthrough=False):
    """inputs: {vector register name: input name}; out: vector register name.  `fallthrough`: follow the path on
    which no conditional jump is taken, up to the first unconditional one (the interval clauses test for a single
    bit pattern first and hash on that path)"""
    g, v = {}, {}
    for n, nm in inputs.items():
        v[n] = ("in", nm)

    def val(o):
        if o.kind == "gpr":
            if g.get(o.name) is None:
                raise Stop("register %s holds nothing modelled" % o.text)
            return g[o.name]
        if o.kind == "vec":
            if v.get(o.name) is None:
                raise Stop("vector register %s holds nothing modelled" % o.text)
            return v[o.name]
        if o.kind == "imm":
            return _imm(o.text)
        raise Stop("operand `%r`" % o)

    for x in ins:
        if x.label is not None:
            continue
        m, ops = x.mnem, x.ops
        if m == "jmp" and fallthrough:
            break
        if (m.startswith("j") or m in ("cmp", "test", "vcomiss", "comiss", "vucomiss", "ucomiss")) and fallthrough:
            continue
        if m in ("jmp",) or m.startswith("j") or m in ("cmp", "test", "vcomiss", "comiss"):
            raise Stop("the clause branches")
        if m in ("mov",) and ops[0].kind == "gpr":
            g[ops[0].name] = val(ops[1])
        elif m in ("movq", "movd", "vmovd", "vmovq") and ops[0].kind == "gpr" and ops[1].kind == "vec":
            g[ops[0].name] = val(ops[1])
        elif m in ("movq", "movd", "vmovd", "vmovq") and ops[0].kind == "vec" and ops[1].kind == "gpr":
            v[ops[0].name] = val(ops[1])
        elif m == "vpbroadcastd" or m == "vbroadcastss":
            v[ops[0].name] = val(ops[1])
        elif m == "imul" and len(ops) == 3:
            g[ops[0].name] = ("mul", val(ops[1]), val(ops[2]))
        elif m == "imul" and len(ops) == 2:
            g[ops[0].name] = ("mul", val(ops[0]), val(ops[1]))
        elif m in ("add", "xor", "or") and ops[0].kind == "gpr":
            g[ops[0].name] = (m, val(ops[0]), val(ops[1]))
        elif m == "inc" and ops[0].kind == "gpr":
            g[ops[0].name] = ("add", val(ops[0]), 1)
        elif m == "shr" and ops[0].kind == "gpr" and ops[1].kind == "imm":
            g[ops[0].name] = ("shr", val(ops[0]), _imm(ops[1].text))
        elif m == "shrx" and len(ops) == 3:
            g[ops[0].name] = ("shrv", val(ops[1]), val(ops[2]))
        elif m in ("vpmulld", "vpaddd", "vpxor", "vpor", "vpxord", "vpord", "vxorps", "vorps") and len(ops) == 3:
            op = {"vpmulld": "mul", "vpaddd": "add"}.get(m, "xor" if "xor" in m else "or")
            v[ops[0].name] = (op, val(ops[1]), val(ops[2]))
        elif m == "vpsrld" and len(ops) == 3 and ops[2].kind == "imm":
            v[ops[0].name] = ("shr", val(ops[1]), _imm(ops[2].text))
        elif m == "vpsrlvd" and len(ops) == 3:
            v[ops[0].name] = ("shrv", val(ops[1]), val(ops[2]))
        elif m in ("addss", "vaddss", "vaddps", "addps") :
            a, b = (val(ops[0]), val(ops[1])) if len(ops) == 2 else (val(ops[1]), val(ops[2]))
            a_, b_ = norm(a), norm(b)
            if b_ == 0xBF800000:
                v[ops[0].name] = ("fsub1", a)
            elif a_ == 0xBF800000:
                v[ops[0].name] = ("fsub1", b)
            else:
                raise Stop("float addition of something other than -1.0")
        elif m in ("vpxor", "vxorps") and len(ops) == 3 and ops[1].name == ops[2].name:
            v[ops[0].name] = 0
        elif m in ("vmovss", "movss") and len(ops) == 3:
            v[ops[0].name] = val(ops[2])  # lane 0 from the last operand (the other lanes are the caller's business)
        elif m in ("vmovaps", "vmovups", "movaps") and len(ops) == 2 and ops[1].kind == "vec":
            v[ops[0].name] = val(ops[1])
        elif m in ("vpunpckldq", "vunpcklps") and len(ops) == 3 and ops[1].name == ops[2].name:
            v[ops[0].name] = val(ops[1])  # lane 0 duplicated into lane 1
        elif fallthrough and ops and ops[0].kind in ("gpr", "vec"):
            (g if ops[0].kind == "gpr" else v)[ops[0].name] = None  # something else: unknown until proven unused
        else:
            raise Stop("instruction `%r`" % x)
    if v.get(out) is None:
        raise Stop("the output register is never written with a modelled value")
    return norm(v[out])


def a64_term(ins, inputs, out, fallthrough=False):
    g, v = {}, {}
    for n, nm in inputs.items():
        v[n] = ("in", nm)

    def val(o):
        if o.kind == "gpr":
            if o.name in ("xzr", "wzr"):
                return 0
            if g.get(o.name) is None:
                raise Stop("register %s holds nothing modelled" % o.text)
            return g[o.name]
        if o.kind == "vec":
            if v.get(o.name) is None:
                raise Stop("vector register %s holds nothing modelled" % o.text)
            return v[o.name]
        if o.kind == "imm":
            return _imm(o.text)
        raise Stop("operand `%s`" % getattr(o, "text", o))

    def shifted(o, sh):
        t = val(o)
        if sh is None:
            return t
        m_ = re.fullmatch(r"(lsl|lsr)#?(\d+)", sh.text.replace(" ", ""))
        if not m_:
            raise Stop("shift `%s`" % sh.text)
        k = int(m_.group(2))
        return ("shr", t, k) if m_.group(1) == "lsr" else ("mul", t, 1 << k)

    for x in ins:
        if x.label is not None:
            continue
        m, ops = x.mnem, [o for o in x.ops]
        sh = ops[-1] if ops and ops[-1].kind == "shift" else None
        if sh is not None:
            ops = ops[:-1]
        if m == "b" and fallthrough:
            break
        if (m.startswith("b.") or m in ("cbz", "cbnz", "tbz", "tbnz", "fcmp", "fccmp", "cmp", "tst")) and fallthrough:
            continue
        if m.startswith("b.") or m in ("b", "cbz", "cbnz", "tbz", "tbnz", "fcmp", "cmp", "tst"):
            raise Stop("the clause branches")
        d = ops[0]
        if m in ("mov", "movz") and d.kind == "gpr":
            t = val(ops[1])
            if sh is not None:
                t = shifted(ops[1], sh)
            g[d.name] = t
        elif m == "movk" and d.kind == "gpr":
            k = _imm(ops[1].text)
            m_ = re.fullmatch(r"lsl#?(\d+)", sh.text.replace(" ", "")) if sh is not None else None
            pos = int(m_.group(1)) if m_ else 0
            cur = norm(g.get(d.name, 0))
            if not isinstance(cur, int):
                raise Stop("movk into a non-constant")
            g[d.name] = (cur & ~(0xFFFF << pos) | (k << pos)) & M32
        elif m == "fmov" and d.kind == "gpr":
            g[d.name] = val(ops[1])
        elif m == "umov" and d.kind == "gpr" and fallthrough and ops[1].kind == "vec":
            # a bound's bit pattern; on the path followed here the clause has tested both bounds' patterns equal
            g[d.name] = val(ops[1])
        elif m == "fmov" and d.kind == "vec" and ops[1].kind == "gpr":
            v[d.name] = val(ops[1])
        elif m == "fmov" and d.kind == "vec" and ops[1].kind == "imm":
            v[d.name] = _imm(ops[1].text)
        elif m in ("dup",) and d.kind == "vec":
            v[d.name] = val(ops[1])
        elif m == "movi" and d.kind == "vec":
            v[d.name] = _imm(ops[1].text)
        elif m == "madd":
            g[d.name] = ("add", ("mul", val(ops[1]), val(ops[2])), val(ops[3]))
        elif m in ("mul", "add", "eor", "orr") and len(ops) == 3:
            op = {"mul": "mul", "add": "add", "eor": "xor", "orr": "or"}[m]
            t = (op, val(ops[1]), shifted(ops[2], sh))
            (g if d.kind == "gpr" else v)[d.name] = t
        elif m in ("lsr",) and len(ops) == 3:
            b = ops[2]
            g[d.name] = ("shr", val(ops[1]), _imm(b.text)) if b.kind == "imm" else ("shrv", val(ops[1]), val(b))
        elif m == "ushr" and len(ops) == 3:
            v[d.name] = ("shr", val(ops[1]), _imm(ops[2].text))
        elif m == "neg" and d.kind == "vec":
            v[d.name] = ("neg", val(ops[1]))
        elif m == "ushl" and len(ops) == 3:
            c = val(ops[2])
            if isinstance(c, tuple) and c[0] == "neg":
                v[d.name] = ("shrv", val(ops[1]), c[1])  # a negative count shifts right
            else:
                raise Stop("ushl by a count that is not a negation")
        elif m in ("fadd", "fsub") and len(ops) == 3:
            a, b = val(ops[1]), val(ops[2])
            a_, b_ = norm(a), norm(b)
            if m == "fadd" and b_ == 0xBF800000:
                v[d.name] = ("fsub1", a)
            elif m == "fadd" and a_ == 0xBF800000:
                v[d.name] = ("fsub1", b)
            elif m == "fsub" and b_ == 0x3F800000:
                v[d.name] = ("fsub1", a)
            else:
                raise Stop("float add / sub of something other than 1.0")
        elif m in ("mov", "orr") and d.kind == "vec" and len(ops) in (2, 3) and all(o.kind == "vec" for o in ops[1:]) and len({o.name for o in ops[1:]}) == 1:
            v[d.name] = val(ops[1])
        elif m == "mov" and d.kind == "vec" and len(ops) == 2 and ops[1].kind == "vec" and ops[1].name == d.name:
            pass  # lane 0 copied into lane 1 of the same register
        elif fallthrough and d.kind in ("gpr", "vec"):
            (g if d.kind == "gpr" else v)[d.name] = None
        else:
            raise Stop("instruction `%s %s`" % (m, ", ".join(getattr(o, "text", "?") for o in x.ops)))
    if v.get(out) is None:
        raise Stop("the output register is never written with a modelled value")
    return norm(v[out])


def check_hash_terms(rule, arch, kind, root=None):
    """rand / mix of one assembler against the reference term"""
    ref = reference(root)
    if arch == "x86_64":
        from . import asm as M
        from . import asmchecks as AC

        p = AC.path_of(kind)
        builders = M.load_builders(p, root)
        stream = lambda b: AC.stream(b, builders)  # noqa: E731
        term = x86_term
        outp = AC.out_param
    else:
        from . import a64 as X
        from . import asmchecks as AC

        p = X.path_of(kind)
        builders = X.load_builders(p, root)
        stream = X.flat_ins
        term = a64_term
        outp = AC.out_param
    for op in ("rand", "mix"):
        b = builders.get("build_%s" % op)
        if b is None:
            rule.lost("%s %s build_%s" % (arch, kind, op))
            continue
        o = outp(b)
        ins_ = [n_ for (n_, ty) in b.params if ty == "u8" and n_ != o]
        want_n = 1 if op == "rand" else 2
        if not o or len(ins_) != want_n:
            rule.lost("%s %s build_%s: operand registers" % (arch, kind, op))
            continue
        inputs = {"T:%s" % ins_[0]: "lhs"}
        if op == "mix":
            inputs["T:%s" % ins_[1]] = "rhs"
        key = "%s|%s|build_%s" % (arch, kind, op)
        try:
            got = term(stream(b), inputs, "T:%s" % o, fallthrough=(kind == "interval"))
        except Stop as st:
            rule.skip("%s %s build_%s" % (arch, kind, op), "not a straight-line integer clause: %s" % st, count=True)
            continue
        want = ref[op]
        if op == "mix" and isinstance(got, tuple) and got[0] != "fsub1" and want == got:
            pass
        if got == want:
            rule.ok("%s %s build_%s computes the reference hash term" % (arch, kind, op), file=p, line=b.fn["ln"])
        else:
            rule.bad("hash|%s" % key, "%s %s build_%s computes `%s`; fidget_core::rng::%s is `%s`" % (arch, kind, op, show(got)[:300], op, show(want)[:300]), "%s:%d" % (p, b.fn["ln"]))
