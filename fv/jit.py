"""fidget-jit: RegOp -> assembler dispatch, trait default helpers, extern callbacks."""
from . import ast as A
from . import opcodes as O
from . import terms as T

LIB = "fidget-jit/src/lib.rs"
X86 = ["fidget-jit/src/x86_64/%s.rs" % n for n in ("point", "interval", "float_slice", "grad_slice")]
A64 = ["fidget-jit/src/aarch64/%s.rs" % n for n in ("point", "interval", "float_slice", "grad_slice")]

IMM = ("I",)


def builder_name(base, binary):
    if base == "Atan" and binary:
        return "build_atan2"
    return "build_" + base.lower()


def base_of_builder(name):
    """'build_atan2' -> ('Atan', binary=True); 'build_sin' -> ('Sin', False)"""
    n = name[len("build_"):]
    if n == "atan2":
        return "Atan", True
    b = n.capitalize()
    if b in T.BINARY_BASES and b != "Atan":
        return b, True
    if b in T.UNARY_BASES:
        return b, False
    if b == "Copy":
        return "Copy", False
    return None, None


def trait_helpers(root=None):
    """Default-bodied `build_*` methods of trait Assembler that forward to another
    builder: name -> (target builder, [arg roles]) where roles are 'P0','P1',.. for
    the helper's own parameters and 'I' for `load_imm(<f32 param>)`."""
    d = A.load(LIB, root)
    traits = [t for t in A.find(d["items"], "Trait") if t["name"] == "Assembler"]
    if len(traits) != 1:
        raise A.AnchorLost("trait Assembler in %s" % LIB)
    out = {}
    sigs = {}
    for f in traits[0]["items"]:
        if f.get("k") != "Fn":
            continue
        params = [(A.binding_name(i["pat"]), i["ty"].replace(" ", "")) for i in f["sig"]["inputs"] if "pat" in i]
        sigs[f["name"]] = params
        if f.get("body") is None or not f["name"].startswith("build_"):
            continue
        env = {}
        for i, (n, ty) in enumerate(params):
            env[n] = "P%d" % i
        call = None
        bad = None
        for s in f["body"]["stmts"]:
            if s.get("k") == "Let":
                init = A.strip(s.get("init"))
                n = A.binding_name(s["pat"])
                if (
                    init is not None
                    and init.get("k") == "MethodCall"
                    and init["method"] == "load_imm"
                    and A.ident(A.strip(init["recv"])) == "self"
                    and len(init["args"]) == 1
                ):
                    src = A.ident(A.strip(init["args"][0]))
                    pty = dict(params).get(src)
                    if pty == "f32":
                        env[n] = "I"
                        continue
                bad = "unrecognised let `%s`" % A.unparse(s)
            else:
                e = A.strip(A.stmt_expr(s) or {})
                if e.get("k") == "MethodCall" and A.ident(A.strip(e["recv"])) == "self" and e["method"].startswith("build_"):
                    if call is not None:
                        bad = "two builder calls"
                    call = e
                else:
                    bad = "unrecognised statement `%s`" % A.unparse(s)[:50]
        if call is None or bad:
            out[f["name"]] = {"error": bad or "no forwarded call", "fn": f}
            continue
        roles = [env.get(A.ident(A.strip(a)), "?") for a in call["args"]]
        out[f["name"]] = {"target": call["method"], "roles": roles, "fn": f, "params": params}
    return out, sigs, traits[0]


def r1_dispatch(rule, root=None):
    fn = A.find_fn(LIB, "build_asm_fn_with_storage", root=root)
    ms = O.match_on(fn, "RegOp", min_arms=20)
    if len(ms) != 1:
        raise A.AnchorLost("match over RegOp in build_asm_fn_with_storage")
    helpers, sigs, trait = trait_helpers(root)
    payloads = dict(O.reg_variants(root))
    # the loop walks the tape in evaluation order
    loops = [l for l in A.find(fn["body"], "For") if any(n is ms[0] for n in A.walk(l["body"]))]
    if len(loops) != 1 or A.ftxt(loops[0]["iter"]) != "t.iter_asm()":
        rule.bad("loop", "the dispatch loop must walk `t.iter_asm()` (evaluation order)", A.where(fn))
    else:
        rule.ok("dispatch walks t.iter_asm()")
    asm_name = "asm"
    seen = set()
    for variant, subs, arm in O.arms_by_variant(ms[0], "RegOp"):
        if variant is None:
            rule.bad("wildcard", "catch-all arm in the JIT dispatch", A.where(fn, arm))
            continue
        seen.add(variant)
        payload = payloads.get(variant)
        names = [A.binding_name(s) for s in (subs or [])]
        if payload is None or None in names or len(names) != len(payload):
            rule.bad("%s|pattern" % variant, "arm must bind every payload field", A.where(fn, arm))
            continue
        env = {}
        for i, (n, pl) in enumerate(zip(names, payload)):
            env[n] = "F%d" % i  # raw f32 payload stays a field until load_imm
        call = None
        prob = None
        for s in A.stmts_of(arm["body"]):
            if s.get("k") == "Let":
                init = A.strip(s.get("init"))
                n = A.binding_name(s["pat"])
                if (
                    init is not None
                    and init.get("k") == "MethodCall"
                    and init["method"] == "load_imm"
                    and A.ident(A.strip(init["recv"])) == asm_name
                    and len(init["args"]) == 1
                ):
                    src = A.ident(A.strip(init["args"][0]))
                    if src in names and payload[names.index(src)] == "f32":
                        env[n] = "I"
                        continue
                prob = "unrecognised let `%s`" % A.unparse(s)[:50]
            else:
                e = A.strip(A.stmt_expr(s) or {})
                if e.get("k") == "MethodCall" and A.ident(A.strip(e["recv"])) == asm_name:
                    if call is not None:
                        prob = "more than one assembler call"
                    call = e
                else:
                    prob = "unrecognised statement `%s`" % A.unparse(s)[:50]
        if call is None or prob:
            rule.bad("%s|shape" % variant, "dispatch arm %s: %s" % (variant, prob or "no assembler call"), A.where(fn, arm))
            continue
        roles = [env.get(A.ident(A.strip(a)), "?") for a in call["args"]]
        method = call["method"]
        # expand a forwarding helper (unless it is itself the opcode's namesake builder)
        via = ""
        pre = expected_dispatch(variant, payload)
        if pre is not None and pre[0] == method:
            pass
        elif method in helpers and "target" in helpers[method]:
            h = helpers[method]
            sub = []
            for r in h["roles"]:
                if r == "I":
                    # the helper loads its f32 parameter: which argument is that?
                    hp = [i for i, (n, ty) in enumerate(h["params"]) if ty == "f32"]
                    src = roles[hp[0]] if hp and hp[0] < len(roles) else "?"
                    sub.append("I" if payload[int(src[1:])] == "f32" else "?") if src.startswith("F") else sub.append("?")
                elif r.startswith("P"):
                    i = int(r[1:])
                    sub.append(roles[i] if i < len(roles) else "?")
                else:
                    sub.append("?")
            via = " via %s" % method
            method, roles = h["target"], sub
        elif method in helpers and "error" in helpers[method]:
            rule.bad("%s|helper" % variant, "helper %s: %s" % (method, helpers[method]["error"]), A.where(fn, arm))
            continue
        want = expected_dispatch(variant, payload)
        if want is None:
            rule.bad("%s|unknown" % variant, "no expectation for RegOp::%s" % variant, A.where(fn, arm))
            continue
        wm, wr = want
        got = (method, roles)
        if method != wm:
            rule.bad(variant, "RegOp::%s is assembled by %s%s, expected %s" % (variant, method, via, wm), A.where(fn, arm))
        elif roles != wr:
            rule.bad(variant, "RegOp::%s calls %s(%s)%s, expected (%s)" % (variant, method, ", ".join(_rn(r, names) for r in roles), via, ", ".join(_rn(r, names) for r in wr)), A.where(fn, arm))
        else:
            rule.ok("RegOp::%s -> %s(%s)%s" % (variant, method, ", ".join(_rn(r, names) for r in roles), via), file=LIB, line=arm["ln"])
    for v in payloads:
        if v not in seen:
            rule.bad("%s|missing" % v, "the JIT dispatch has no arm for RegOp::%s" % v, A.where(fn, ms[0]))
    # build_square default: mul(out, lhs, lhs)
    sq = helpers.get("build_square")
    if sq and sq.get("target") == "build_mul" and sq["roles"] == ["P0", "P1", "P1"]:
        rule.ok("default build_square = build_mul(out, lhs, lhs)")
    else:
        rule.bad("build_square", "the trait's default build_square must be build_mul(out, lhs, lhs)", A.where(LIB, trait))


def _rn(r, names):
    if r == "I":
        return "imm"
    if r.startswith("F"):
        return names[int(r[1:])]
    return r


def expected_dispatch(variant, payload):
    kind = O.variant_kind(variant)
    base, form = T.split_variant(variant)
    if kind == "Load":
        return "build_load", ["F0", "F1"]
    if kind == "Store":
        return "build_store", ["F1", "F0"]
    if kind == "Input":
        return "build_input", ["F0", "F1"]
    if kind == "Output":
        return "build_output", ["F0", "F1"]
    if kind == "CopyReg":
        return "build_copy", ["F0", "F1"]
    if kind == "CopyImm":
        return "build_copy", ["F0", "I"]
    if kind == "unary":
        return builder_name(base, False), ["F0", "F1"]
    if kind == "binary":
        b = builder_name(base, True)
        if form == "RegReg":
            return b, ["F0", "F1", "F2"]
        if form == "RegImm":
            return b, ["F0", "F1", "I"]
        if form == "ImmReg":
            return b, ["F0", "I", "F1"]
    return None


# ---------------------------------------------------------------------------
# callbacks


def assembler_impls(path, root=None):
    return A.find_impls(path, trait="Assembler", root=root)


def r3_callbacks(rule, root=None, files=None, abi="sysv64"):
    """every builder that goes out of line declares an `extern "sysv64"` callback that
    computes the builder's namesake with arguments in order, and passes exactly it"""
    n = 0
    for path in files or X86:
        impls = assembler_impls(path, root)
        if len(impls) != 1:
            rule.lost("impl Assembler in %s" % path)
            continue
        for f in impls[0]["items"]:
            if f.get("k") != "Fn" or not f["name"].startswith("build_") or f.get("body") is None:
                continue
            nested = [s for s in f["body"]["stmts"] if s.get("k") == "Fn"]
            calls = [c for c in A.find(f["body"], "MethodCall") if c["method"] in ("call_fn_unary", "call_fn_binary")]
            if not nested and not calls:
                continue
            key = "%s|%s" % (path.split("/")[-1][:-3], f["name"])
            base, binary = base_of_builder(f["name"])
            params = [A.binding_name(i["pat"]) for i in f["sig"]["inputs"] if "pat" in i]
            if base is None:
                rule.bad(key, "builder %s calls out of line but its opcode is unknown" % f["name"], A.where(path, f))
                continue
            if len(nested) != 1 or len(calls) != 1:
                rule.bad(key, "%s: expected one extern callback and one call_fn_* (found %d / %d)" % (f["name"], len(nested), len(calls)), A.where(path, f))
                continue
            cb = nested[0]
            call = calls[0]
            probs = []
            if cb["sig"].get("abi") != abi:
                probs.append("callback ABI is %s, the generated code calls with %s" % (cb["sig"].get("abi"), abi))
            cparams = [A.binding_name(i["pat"]) for i in cb["sig"]["inputs"] if "pat" in i]
            want_n = 2 if binary else 1
            if len(cparams) != want_n:
                probs.append("callback takes %d arguments, the opcode has %d" % (len(cparams), want_n))
            else:
                env = T.Env(slot_names=())
                for i, p in enumerate(cparams):
                    env.vars[p] = ("R", "P%d" % (i + 1))
                body = cb["body"]["stmts"]
                if len(body) != 1 or A.stmt_expr(body[0]) is None:
                    probs.append("callback body is not a single expression")
                else:
                    got = T.norm(A.stmt_expr(body[0]), env)
                    if binary:
                        exp = T.expected_binary(base, ("R", "P1"), ("R", "P2"))
                    else:
                        exp = T.expected_unary(base, ("R", "P1"))
                    if got not in (exp or []):
                        probs.append("callback computes %s, the opcode means %s" % (T.show(got), T.show(exp[0]) if exp else "?"))
            want_call = "call_fn_binary" if binary else "call_fn_unary"
            args = [A.ident(A.strip(a)) for a in call["args"]]
            if call["method"] != want_call:
                probs.append("uses %s for a %s opcode" % (call["method"], "binary" if binary else "unary"))
            elif args != params + [cb["name"]]:
                probs.append("passes (%s), expected (%s, %s)" % (", ".join(map(str, args)), ", ".join(params), cb["name"]))
            if A.ident(A.strip(call["recv"])) != "self":
                probs.append("call_fn receiver is not self")
            if probs:
                for p in probs:
                    rule.bad("%s|%s" % (key, p[:40]), "%s %s: %s" % (path.split("/")[-1], f["name"], p), A.where(path, f))
            else:
                rule.ok("%s %s -> %s" % (path.split("/")[-1], f["name"], cb["name"]), file=path, line=f["ln"])
            n += 1
    return n


def builder_sets(rule, root=None):
    """all eight assemblers implement the same builder set, which covers the trait"""
    _, sigs, trait = trait_helpers(root)
    required = {f["name"] for f in trait["items"] if f.get("k") == "Fn" and f.get("body") is None}
    for path in X86 + A64:
        impls = assembler_impls(path, root)
        if len(impls) != 1:
            rule.lost("impl Assembler in %s" % path)
            continue
        have = {f["name"] for f in impls[0]["items"] if f.get("k") == "Fn"}
        miss = required - have
        if miss:
            rule.bad("%s|missing" % path.split("/")[-2:], "%s lacks %s" % (path, sorted(miss)), A.where(path, impls[0]))
        else:
            rule.ok("%s implements all %d required builders" % (path, len(required)))
