"""The opcode enums (SsaOp / RegOp) as declared by the `opcodes!` macro, and the
context-level BinaryOpcode / UnaryOpcode enums."""
from . import ast as A
from .terms import split_variant

OP_RS = "fidget-core/src/compiler/op.rs"
CTX_OP_RS = "fidget-core/src/context/op.rs"


def _variants_in_tokens(ts, out):
    prev = None
    for i, t in enumerate(ts):
        if t["t"] == "g":
            _variants_in_tokens(t["ts"], out)
        if (
            t["t"] == "i"
            and t["s"][:1].isupper()
            and i + 1 < len(ts)
            and ts[i + 1]["t"] == "g"
            and ts[i + 1]["d"] == "("
            and prev is not None
            and prev["t"] == "g"
            and prev["d"] == "["
        ):
            payload = []
            cur = []
            for x in ts[i + 1]["ts"]:
                if x["t"] == "p" and x["s"] == ",":
                    payload.append("".join(cur))
                    cur = []
                else:
                    cur.append(x["s"] if x["t"] != "g" else "(..)")
            if cur:
                payload.append("".join(cur))
            out.append((t["s"], payload, t["ln"]))
        prev = t


def opcode_variants(root=None):
    """-> {'common': [(name, payload)], 'SsaOp': [...extra], 'RegOp': [...extra]}
    payload entries: '$t' (register), 'f32' (immediate), 'u32' (index)"""
    defs = A.macro_defs(OP_RS, "opcodes", root)
    if len(defs) != 1:
        raise A.AnchorLost("macro_rules! opcodes in %s" % OP_RS)
    common = []
    _variants_in_tokens(defs[0]["tokens"], common)
    # `$foo($($i),*)` is the splice of the caller's extra variants, not a variant
    common = [(n, p) for (n, p, ln) in common]
    res = {"common": common}
    d = A.load(OP_RS, root)
    for m in A.find(d["items"], "Macro"):
        if m.get("name") == "opcodes" and not m.get("def"):
            toks = m["tokens"]
            # find `enum Name < ty > { ... }`
            name = None
            for i, t in enumerate(toks):
                if t["t"] == "i" and t["s"] == "enum":
                    name = toks[i + 1]["s"]
            extra = []
            for t in toks:
                if t["t"] == "g" and t["d"] == "{":
                    # variants here are preceded by doc attrs too
                    _variants_in_tokens(t["ts"], extra)
            res[name] = [(n, p) for (n, p, ln) in extra]
    if "SsaOp" not in res or "RegOp" not in res:
        raise A.AnchorLost("opcodes!(enum SsaOp / RegOp) invocations in %s" % OP_RS)
    return res


def ssa_variants(root=None):
    v = opcode_variants(root)
    return v["common"] + v["SsaOp"]


def reg_variants(root=None):
    v = opcode_variants(root)
    return v["common"] + v["RegOp"]


def enum_variants(path, name, root=None):
    e = A.find_item(path, "EnumDef", name, root)
    return [v["name"] for v in e["variants"]]


def ctx_opcodes(root=None):
    return enum_variants(CTX_OP_RS, "UnaryOpcode", root), enum_variants(CTX_OP_RS, "BinaryOpcode", root)


def variant_kind(name):
    """classify a SsaOp/RegOp variant"""
    if name in ("Output", "Input", "Load", "Store", "CopyImm", "CopyReg"):
        return name
    base, form = split_variant(name)
    if form == "Reg":
        return "unary"
    if form in ("RegReg", "RegImm", "ImmReg"):
        return "binary"
    return "other"


def match_on(fn, enum_name, min_arms=10):
    """the `match` expressions in a function whose arms are patterns of the given
    enum, with at least min_arms arms (or-patterns expanded)"""
    out = []
    # inside `impl Enum`, `Self::V` is `Enum::V`
    own = ((fn.get("_owner") or {}).get("self_ty") or "").split("<")[0] if isinstance(fn, dict) else ""
    names = (enum_name, "Self") if own == enum_name else (enum_name,)
    for m in A.find(fn.get("body", fn) if isinstance(fn, dict) and fn.get("k") == "Fn" else fn, "Match"):
        n = 0
        for arm in m["arms"]:
            for p in A.flatten_or(arm["pat"]):
                segs, _ = A.pat_variant(p)
                if segs and len(segs) >= 2 and segs[-2] in names:
                    n += 1
        if n >= min_arms:
            out.append(m)
    return out


def arms_by_variant(m, enum_name):
    """-> list of (variant, [sub-pattern nodes] or None, arm) with or-patterns expanded"""
    out = []
    for arm in m["arms"]:
        for p in A.flatten_or(arm["pat"]):
            segs, subs = A.pat_variant(p)
            if segs and len(segs) >= 2 and segs[-2] in (enum_name, "Self"):
                out.append((segs[-1], subs, arm))
            else:
                out.append((None, None, arm))
    return out
