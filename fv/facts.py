"""E1: resolved-program facts from the fvfacts rustc driver (thorough tier).

The driver runs as RUSTC_WORKSPACE_WRAPPER under `cargo +nightly check` with a
fresh target directory (cargo's freshness cache would otherwise skip it) and
writes one JSON-lines file per crate; results are cached per source-tree hash."""
import collections
import fcntl
import glob
import json
import os
import shutil
import subprocess
import tempfile

from . import ast as A

DRIVER = os.path.join(A.VERIF, "tools", "fvfacts", "target", "release", "fvfacts")
PKGS = ["fidget-core", "fidget-jit", "fidget-raster", "fidget-mesh", "fidget-bytecode", "fidget-shapes", "fidget-rhai", "fidget-gui", "fidget-solver"]


class FactsUnavailable(Exception):
    pass


def facts_dir(root=None, build=True):
    root = root or A.REPO
    d = os.path.join(A.CACHE, "facts-" + A.tree_hash(root))
    if os.path.exists(os.path.join(d, "DONE")):
        return d
    if not build:
        raise FactsUnavailable("no cached facts for this tree")
    if not os.path.exists(DRIVER):
        raise FactsUnavailable("fvfacts driver not built (run ./setup.sh)")
    os.makedirs(A.CACHE, exist_ok=True)
    with open(os.path.join(A.CACHE, ".facts.lock"), "w") as lk:
        fcntl.flock(lk, fcntl.LOCK_EX)
        try:
            if os.path.exists(os.path.join(d, "DONE")):
                return d
            tmp = d + ".tmp%d" % os.getpid()
            shutil.rmtree(tmp, ignore_errors=True)
            os.makedirs(tmp)
            target = tempfile.mkdtemp(prefix="fv-facts-target-")
            try:
                sysroot = subprocess.run(["rustc", "+nightly", "--print", "sysroot"], capture_output=True, text=True, check=True).stdout.strip()
                env = dict(
                    os.environ,
                    LD_LIBRARY_PATH=os.path.join(sysroot, "lib"),
                    RUSTFLAGS="-Zmir-opt-level=0 -Awarnings",
                    RUSTC_WORKSPACE_WRAPPER=DRIVER,
                    FVFACTS_OUT=tmp,
                    CARGO_TARGET_DIR=target,
                    CARGO_NET_OFFLINE="true",
                )
                cmd = ["cargo", "+nightly", "check", "--offline"]
                for p in PKGS:
                    cmd += ["-p", p]
                p = subprocess.run(cmd, cwd=root, env=env, capture_output=True, text=True)
                if p.returncode != 0:
                    raise FactsUnavailable("cargo +nightly check failed: %s" % p.stderr[-400:])
                if len(glob.glob(os.path.join(tmp, "*.jsonl"))) < 8:
                    raise FactsUnavailable("driver produced %d fact files" % len(glob.glob(os.path.join(tmp, "*.jsonl"))))
                open(os.path.join(tmp, "DONE"), "w").write("ok")
                os.rename(tmp, d)
            finally:
                shutil.rmtree(target, ignore_errors=True)
                shutil.rmtree(tmp, ignore_errors=True)
        finally:
            fcntl.flock(lk, fcntl.LOCK_UN)
    return d


class Facts:
    def __init__(self, root=None, build=True):
        d = facts_dir(root, build)
        self.fns = {}
        self.calls = collections.defaultdict(list)
        self.aggs = []
        self.writes = []
        self.asserts = collections.defaultdict(list)
        self.unsafe_impls = []
        for f in sorted(glob.glob(os.path.join(d, "*.jsonl"))):
            for line in open(f):
                try:
                    r = json.loads(line)
                except ValueError:
                    continue
                k = r["k"]
                if k == "fn":
                    self.fns[r["name"]] = r
                elif k == "call":
                    self.calls[r["fn"]].append(r)
                elif k == "agg":
                    self.aggs.append(r)
                elif k == "write":
                    self.writes.append(r)
                elif k == "assert":
                    self.asserts[r["fn"]].append(r)
                elif k == "unsafe_impl":
                    self.unsafe_impls.append(r)

    def find_fn(self, suffix):
        """function names ending with the given path suffix"""
        return [n for n in self.fns if n == suffix or n.endswith("::" + suffix) or n.endswith(suffix)]

    def reachable(self, start):
        seen = set()
        stack = list(start)
        while stack:
            n = stack.pop()
            if n in seen:
                continue
            seen.add(n)
            for c in self.calls.get(n, []):
                if c["callee"] in self.fns or c["callee"] in self.calls:
                    stack.append(c["callee"])
        return seen

    def in_cycle(self, name):
        """is `name` reachable from one of its own callees (through workspace functions)?"""
        stack = [c["callee"] for c in self.calls.get(name, [])]
        seen = set()
        path = {}
        while stack:
            n = stack.pop()
            if n == name:
                return True
            if n in seen:
                continue
            seen.add(n)
            for c in self.calls.get(n, []):
                stack.append(c["callee"])
        return False


_CACHE = {}


def get(root=None, build=True):
    key = (root or A.REPO, build)
    if key not in _CACHE:
        _CACHE[key] = Facts(root, build)
    return _CACHE[key]
