"""Single-edit mutants of /repo used by fv.selftest (applied to a scratch copy only).
(property, file, old, new, expected key substring, note)"""
VM = "fidget-core/src/vm/mod.rs"
SSA = "fidget-core/src/compiler/ssa_tape.rs"
CTXOP = "fidget-core/src/context/op.rs"

ALLOC = "fidget-core/src/compiler/alloc.rs"

MUTANTS = [
    ("C01", VM, "v[out] = imm - v[arg];", "v[out] = v[arg] - imm;", "C01.R3|point|SubImmReg", "point SubImmReg operands swapped"),
    ("C01", VM, ("nth", 0, "v[out][i] = v[lhs][i].atan2(v[rhs][i]);"), "v[out][i] = v[rhs][i].atan2(v[lhs][i]);", "AtanRegReg", "bulk atan2 operands swapped (first bulk loop)"),
    ("C01", VM, ("nth", 0, "for i in 0..size {\n                        v[out][i] = v[arg][i].floor();"), "for i in 1..size {\n                        v[out][i] = v[arg][i].floor();", "FloorReg|loop range", "bulk loop skips lane 0"),
    ("C01", SSA, "SsaOp::SubRegImm,\n                            SsaOp::SubImmReg,", "SsaOp::SubRegImm,\n                            SsaOp::SubRegImm,", "C01.R1|binary|Sub|slot2", "Sub imm-reg lowered as reg-imm"),
    ("C01", SSA, "(Slot::Immediate(imm), Slot::Reg(arg)) => {\n                            f.2(i, arg, imm)", "(Slot::Immediate(imm), Slot::Reg(arg)) => {\n                            f.1(i, arg, imm)", "C01.R1|dispatch|Immediate,Reg", "imm-reg dispatch uses RegImm slot"),
    ("C01", SSA, "UnaryOpcode::Floor => SsaOp::FloorReg,", "UnaryOpcode::Floor => SsaOp::CeilReg,", "C01.R1|unary|Floor", "Floor lowered to Ceil"),
    ("C01", CTXOP, "BinaryOpcode::Mod => a.rem_euclid(b),", "BinaryOpcode::Mod => a % b,", "C01.R3|ref|BinaryOpcode|Mod", "reference Mod uses %"),
    ("C01", SSA, "BinaryOpcode::Min\n                            | BinaryOpcode::Max\n                            | BinaryOpcode::And\n                            | BinaryOpcode::Or\n                    ) {\n                        choice_count += 1;", "BinaryOpcode::Min\n                            | BinaryOpcode::Max\n                            | BinaryOpcode::And\n                    ) {\n                        choice_count += 1;", "C01.R1|choice_count", "Or not counted as a choice"),
    ("C01", ALLOC, "self.out.push(op(r_x, r_a, r_z));", "self.out.push(op(r_x, r_z, r_a));", "C01.R4|op_reg_reg|Memory,Register", "alloc (mem,reg) operands swapped"),
    ("C01", ALLOC, "self.out.push(op(r_x, r_x, r_a));\n                self.rebind_register(lhs, r_x);\n                self.bind_register(rhs, r_a);\n            }\n            (Allocation::Memory(m_y), Allocation::Unassigned)", "self.out.push(op(r_x, r_x, r_a));\n                self.bind_register(rhs, r_a);\n            }\n            (Allocation::Memory(m_y), Allocation::Unassigned)", "C01.R4|op_reg_reg|Unassigned,Memory", "alloc (U,mem) forgets to rebind lhs"),
    ("C01", ALLOC, "self.out.push(op(r_x, r_y, r_a));\n                self.release_reg(r_x);\n                self.bind_register(rhs, r_a);", "self.out.push(op(r_x, r_y, r_a));\n                self.release_reg(r_x);\n                self.bind_register(lhs, r_a);", "C01.R4|op_reg_reg|Register,Memory", "alloc (reg,mem) binds the wrong operand"),
    ("C01", ALLOC, "SsaOp::SinReg(out, arg) => (out, arg, RegOp::SinReg),", "SsaOp::SinReg(out, arg) => (out, arg, RegOp::CosReg),", "C01.R2|op_reg|SinReg", "alloc lowers Sin to Cos"),
    ("C01", ALLOC, "(out, arg, imm, RegOp::SubImmReg)", "(out, arg, imm, RegOp::SubRegImm)", "C01.R2|op_reg_imm|SubImmReg", "alloc lowers SubImmReg to SubRegImm"),
    ("C01", ALLOC, "        self.spare_registers.push(reg);\n", "", "C01.R5|release_reg|call|push", "release_reg forgets to return the register"),
    ("C01", ALLOC, "        let prev_node = self.registers[reg as usize];\n        self.allocations[prev_node as usize] = UNASSIGNED;\n", "", "C01.R5|rebind_register", "rebind_register leaves the old binding"),
    ("C01", ALLOC, "self.out.push(RegOp::Load(reg, mem));", "self.out.push(RegOp::Load(reg, prev_node));", "C01.R5|get_register|load", "eviction loads from the wrong slot"),
    ("C01", ALLOC, "            Allocation::Memory(m_y) => {\n                let r_a = self.get_register();\n                self.push_store(r_a, m_y);\n                self.out.push(RegOp::Output(r_a, i));", "            Allocation::Memory(m_y) => {\n                let r_a = self.get_register();\n                self.release_mem(m_y);\n                self.out.push(RegOp::Output(r_a, i));", "C01.R4|op_output|Memory", "op_output forgets the store"),
]
