"""Single-edit mutants of /repo used by fv.selftest (applied to a scratch copy only).
(property, file, old, new, expected key substring, note)"""
VM = "fidget-core/src/vm/mod.rs"
SSA = "fidget-core/src/compiler/ssa_tape.rs"
CTXOP = "fidget-core/src/context/op.rs"

MUTANTS = [
    ("C01", VM, "v[out] = imm - v[arg];", "v[out] = v[arg] - imm;", "C01.R3|point|SubImmReg", "point SubImmReg operands swapped"),
    ("C01", VM, ("nth", 0, "v[out][i] = v[lhs][i].atan2(v[rhs][i]);"), "v[out][i] = v[rhs][i].atan2(v[lhs][i]);", "AtanRegReg", "bulk atan2 operands swapped (first bulk loop)"),
    ("C01", VM, ("nth", 0, "for i in 0..size {\n                        v[out][i] = v[arg][i].floor();"), "for i in 1..size {\n                        v[out][i] = v[arg][i].floor();", "FloorReg|loop range", "bulk loop skips lane 0"),
    ("C01", SSA, "SsaOp::SubRegImm,\n                            SsaOp::SubImmReg,", "SsaOp::SubRegImm,\n                            SsaOp::SubRegImm,", "C01.R1|binary|Sub|slot2", "Sub imm-reg lowered as reg-imm"),
    ("C01", SSA, "(Slot::Immediate(imm), Slot::Reg(arg)) => {\n                            f.2(i, arg, imm)", "(Slot::Immediate(imm), Slot::Reg(arg)) => {\n                            f.1(i, arg, imm)", "C01.R1|dispatch|Immediate,Reg", "imm-reg dispatch uses RegImm slot"),
    ("C01", SSA, "UnaryOpcode::Floor => SsaOp::FloorReg,", "UnaryOpcode::Floor => SsaOp::CeilReg,", "C01.R1|unary|Floor", "Floor lowered to Ceil"),
    ("C01", CTXOP, "BinaryOpcode::Mod => a.rem_euclid(b),", "BinaryOpcode::Mod => a % b,", "C01.R3|ref|BinaryOpcode|Mod", "reference Mod uses %"),
    ("C01", SSA, "BinaryOpcode::Min\n                            | BinaryOpcode::Max\n                            | BinaryOpcode::And\n                            | BinaryOpcode::Or\n                    ) {\n                        choice_count += 1;", "BinaryOpcode::Min\n                            | BinaryOpcode::Max\n                            | BinaryOpcode::And\n                    ) {\n                        choice_count += 1;", "C01.R1|choice_count", "Or not counted as a choice"),
]
