"""Benign-edit self-test: behaviour-preserving edits applied one at a time to a
scratch copy of /repo; every check must stay silent (a report is a false alarm).

usage: python3 -m fv.benign [--only substring] [--list]
Edits live in fv/benign_edits.py as tuples (file, old, new, note); `old` must occur
exactly once (or be ('nth', n, text)). Several (old, new) pairs for one edit are
given as a list in place of `old` with new=None."""
import argparse
import concurrent.futures as cf
import os
import shutil
import subprocess
import sys
import tempfile

from . import ast as A
from .selftest import apply

PROPS = ["C%02d" % i for i in range(1, 21)]


def run_check(args):
    pid, root = args
    env = dict(os.environ, FV_REPO=root, FV_SELFTEST="1", FV_NO_EVIDENCE="1")
    p = subprocess.run([os.path.join(A.VERIF, "check"), pid], env=env, capture_output=True, text=True)
    lines = [l.strip() for l in (p.stdout + p.stderr).splitlines() if l.strip().startswith("[")]
    return pid, p.returncode, lines


def run_all(root):
    with cf.ThreadPoolExecutor(max_workers=10) as ex:
        res = list(ex.map(run_check, [(p, root) for p in PROPS]))
    return {pid: lines or ["rc=%d" % rc] for pid, rc, lines in res if rc != 0}


def main():
    ap = argparse.ArgumentParser()
    ap.add_argument("--only")
    ap.add_argument("--list", action="store_true")
    args = ap.parse_args()
    from .benign_edits import BENIGN

    edits = [e for e in BENIGN if not args.only or args.only in e[0] or args.only in e[3]]
    if args.list:
        for e in edits:
            print(e[0], "--", e[3])
        return 0
    root = tempfile.mkdtemp(prefix="fv-benign-")
    fails = 0
    try:
        subprocess.run("git -C %s archive HEAD | tar -x -C %s" % (A.REPO, root), shell=True, check=True)
        al = run_all(root)
        if al:
            print("FAIL clean copy not silent:", al)
            fails += 1
        for file, old, new, note in edits:
            pairs = old if isinstance(old, list) else [(old, new)]
            saved = None
            ok = True
            for o, n in pairs:
                s = apply(root, file, o, n)
                if s is None:
                    ok = False
                    break
                if saved is None:
                    saved = s
            if not ok:
                print("FAIL edit does not apply (%s): %s" % (file, note))
                fails += 1
                if saved is not None:
                    open(os.path.join(root, file), "w").write(saved)
                continue
            al = run_all(root)
            open(os.path.join(root, file), "w").write(saved)
            if al:
                fails += 1
                print("ALARM %s: %s" % (file, note))
                for pid, lines in al.items():
                    for l in lines[:3]:
                        print("      %s %s" % (pid, l[:200]))
            else:
                print("ok   %s: %s" % (file, note))
    finally:
        shutil.rmtree(root, ignore_errors=True)
    print("benign: %d edits, %d false alarms" % (len(edits), fails))
    return 1 if fails else 0


if __name__ == "__main__":
    sys.exit(main())
