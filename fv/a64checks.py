"""Dataflow checks over the aarch64 assemblers.  This host never compiles or runs that code, so these
rules are the only thing that looks at it: a change there passes the pinned suite by construction."""
import itertools
import re

from . import ast as A
from . import asm as M
from . import a64 as X
from . import asmchecks as AC

TRACING = ("point", "interval")
BULK = ("float_slice", "grad_slice")
CHOICE_BUILDERS = AC.CHOICE_BUILDERS
NON_OP = AC.NON_OP

# fidget-jit/src/aarch64/mod.rs: v0-v2 and v4-v7 are scratch, v3 is the immediate register
SCRATCH_VEC = {"0", "1", "2", "4", "5", "6", "7"}
SCRATCH_GPR = {"x%d" % i for i in range(8, 16)}
SCRATCH_GPR_BULK = SCRATCH_GPR | {"x4"}
NEEDED_LANES = {"point": (0,), "interval": (0, 1), "float_slice": (0, 1, 2, 3), "grad_slice": (0, 1, 2, 3)}
DATA_BYTES = {"point": 4, "interval": 8, "float_slice": 16, "grad_slice": 16}
ELEM_STRIDE = {"point": 4, "interval": 8, "float_slice": 8, "grad_slice": 8}


def stream(b, builders):
    """instruction stream in source order with `self.load_imm(..)` expanded (its longest variant)"""
    events = []
    for m, _head, ins in b.blocks:
        events.append((m["ln"], ins))
    for name, _args, node in b.helper_calls:
        if name == "load_imm" and "load_imm" in builders and b.name != "load_imm":
            li = builders["load_imm"]
            longest = max((i for _m, _h, i in li.blocks), key=len, default=[])
            events.append((node["ln"], longest))
    events.sort(key=lambda x: x[0])
    out = []
    for _ln, ins in events:
        out.extend(ins)
    return out


def streams(b, builders):
    """every instruction stream the builder can emit (alternatives under Rust `if`), load_imm expanded"""
    vs = X.block_variants(b)
    if vs is None:
        return None
    li = builders.get("load_imm")
    pre = []
    if li is not None and b.name != "load_imm" and any(n == "load_imm" for n, _a, _c in b.helper_calls):
        pre = max((i for _m, _h, i in li.blocks), key=len, default=[])
    return [(desc, list(pre) + ins, len(pre)) for desc, ins in vs]


def op_builders(builders):
    return {k: v for k, v in builders.items() if (k.startswith("build_") or k == "load_imm") and k not in NON_OP}


# ---------------------------------------------------------------------------
# 1. write discipline


def check_write_discipline(rule, kind, root=None):
    p = X.path_of(kind)
    builders = X.load_builders(p, root)
    scratch_g = SCRATCH_GPR_BULK if kind in BULK else SCRATCH_GPR
    ir = str(X.imm_reg(root))
    es = ELEM_STRIDE[kind]
    for name, b in sorted(op_builders(builders).items()):
        ins = X.flat_ins(b)
        if not ins:
            continue
        outp = AC.out_param(b)
        probs = []
        for x in ins:
            e = X.effect(x)
            if e.unknown:
                probs.append((x.ln, "unknown instruction `%r` (no read/write model; fails closed)" % x))
                continue
            for o in e.writes:
                if o.kind == "vec":
                    if o.name.startswith("T:"):
                        if o.name != "T:%s" % outp:
                            probs.append((x.ln, "`%r` writes the input register %s" % (x, o.name[2:])))
                    elif o.name.startswith("?"):
                        probs.append((x.ln, "`%r` writes an unresolved register `%s`" % (x, o.name)))
                    elif o.name == ir:
                        if name != "load_imm":
                            probs.append((x.ln, "`%r` writes v%s, the immediate register: only load_imm may" % (x, ir)))
                    elif o.name not in SCRATCH_VEC:
                        probs.append((x.ln, "`%r` writes v%s, which holds a live tape register (v0-v2 and v4-v7 are scratch)" % (x, o.name)))
                else:
                    if o.name in scratch_g:
                        continue
                    if o.name == "x1" and kind in TRACING and name in CHOICE_BUILDERS and e.kind == "store" and getattr(e, "post", None) == "1":
                        continue
                    probs.append((x.ln, "`%r` writes %s, which is not a scratch register here" % (x, o.name)))
            for o in e.mem_writes:
                ok = False
                if kind in TRACING and name in CHOICE_BUILDERS and ((o.base == "x1" and o.off == 0) or (o.base == "x2" and o.off == 0)):
                    ok = True
                elif name == "build_store" and o.base == "sp" and o.sym == "sp_offset":
                    ok = True
                elif name == "build_output" and kind in TRACING and o.base == "x3" and o.sym is not None and re.fullmatch(r"\w+\*%d" % es, o.sym):
                    ok = True
                elif name == "build_output" and kind in BULK and o.base == "x4" and o.off == 0:
                    ok = True
                if not ok:
                    probs.append((x.ln, "`%r` stores to %s, which this builder must not touch" % (x, o.text)))
            for o in e.mem_reads:
                ok = False
                if kind in TRACING and name in CHOICE_BUILDERS and o.base == "x1" and o.off == 0:
                    ok = True
                elif name == "build_load" and o.base == "sp" and o.sym == "sp_offset":
                    ok = True
                elif name == "build_input" and o.base == "x0" and o.sym is not None and re.fullmatch(r"\w+\*%d" % es, o.sym):
                    ok = True
                elif name == "build_input" and kind in BULK and o.base == "x4" and o.off == 0:
                    ok = True
                elif name == "build_output" and kind in BULK and o.base == "x1" and o.sym is not None and re.fullmatch(r"\w+\*%d" % es, o.sym):
                    ok = True
                if not ok:
                    probs.append((x.ln, "`%r` loads from %s, which this builder has no business reading" % (x, o.text)))
        if probs:
            for ln, msg in probs:
                rule.bad("a64|%s|%s|%s" % (kind, name, msg[:50]), "aarch64 %s %s: %s" % (kind, name, msg), "%s:%d" % (p, ln))
        else:
            rule.ok("aarch64 %s %s writes only its output, scratch v0-2 / v4-7 and scratch GPRs" % (kind, name), file=p, line=b.fn["ln"])


# ---------------------------------------------------------------------------
# 2. branch targets


def check_branches(rule, kind, root=None):
    """relative branches are byte offsets: each must be a multiple of 4 and land on an instruction of its own
    clause (or exactly at its end); nothing jumps backwards"""
    p = X.path_of(kind)
    builders = X.load_builders(p, root)
    for name, b in sorted(builders.items()):
        for m, _h, ins in b.blocks:
            brs = [x for x in ins if x.label is None and X.effect(x).kind in ("jmp", "jcc")]
            if not brs:
                continue
            succ, probs = X.build_cfg(ins)
            paths, cyclic = X.enumerate_paths(ins, succ)
            if cyclic and name not in ("init", "finalize"):
                probs.append((b.fn["ln"], "a backward branch makes this clause a loop"))
            # dead code: an instruction no path reaches is a sign of a mis-counted offset
            reached = set()
            for path in paths:
                reached.update(i for i in path if not isinstance(i, str))
            dead = [ins[i] for i in range(len(ins)) if i not in reached and ins[i].label is None]
            if dead and not probs and name not in ("init", "finalize"):
                probs.append((dead[0].ln, "`%r` is unreachable: some branch offset skips it" % dead[0]))
            if probs:
                for ln, msg in probs:
                    rule.bad("a64|%s|%s|branch|%s" % (kind, name, re.sub(r"\d+", "N", msg)[:50]), "aarch64 %s %s: %s" % (kind, name, msg), "%s:%d" % (p, ln))
            else:
                rule.ok("aarch64 %s %s: %d relative branch(es) land inside the clause, every instruction reachable" % (kind, name, len(brs)), file=p, line=b.fn["ln"])


# ---------------------------------------------------------------------------
# 3. hazards (path sensitive, lane granular)


def _self_idiom(x):
    vecs = [o for o in x.ops if o.kind == "vec"]
    return len(vecs) >= 2 and len({o.name for o in vecs}) == 1 and x.mnem in ("eor", "sub", "cmeq", "movi")


def check_hazards(rule, kind, root=None):
    p = X.path_of(kind)
    builders = X.load_builders(p, root)
    immpos = AC.imm_positions(root)
    ir = str(X.imm_reg(root))
    need = set(NEEDED_LANES[kind])
    helper_imm = {}
    for name, b in builders.items():
        for hn, args, _n in b.helper_calls:
            if hn.startswith("call_fn"):
                for i, a in enumerate(args):
                    for pos in immpos.get(name, ()):
                        if pos < len(b.params) and b.params[pos][0] == a:
                            helper_imm.setdefault(hn, set()).add(i)
    for name, b in sorted(builders.items()):
        if name in ("init", "finalize", "ensure_callee_regs_saved", "load_imm", "bytes_per_clause"):
            continue
        vs = streams(b, builders)
        if vs is None:
            rule.skip("aarch64 %s %s" % (kind, name), "too many conditional dynasm blocks")
            continue
        if not any(ins for _d, ins, _p in vs):
            continue
        outp = AC.out_param(b)
        inputs = [n for (n, ty) in b.params if ty == "u8" and n != outp]
        may_imm = set()
        for pos in (immpos.get(name, set()) | helper_imm.get(name, set())):
            if pos < len(b.params):
                may_imm.add(b.params[pos][0])
        # a local `let rhs = self.load_imm(..)` operand is the immediate register itself (already resolved)
        found = set()
        npaths = 0
        for desc, ins, prelen in vs:
            succ, cprobs = X.build_cfg(ins)
            if cprobs:
                continue  # reported by the branch rule
            paths, cyclic = X.enumerate_paths(ins, succ)
            if cyclic:
                continue
            for path in paths:
                npaths += 1
                defined = set()  # lanes holding a value this clause put there (zero fill included)
                data = set()  # lanes a write actually covered
                out_written = False
                imm_clobbered = False
                idx = [i for i in path if not isinstance(i, str)]
                for i in idx:
                    x = ins[i]
                    e = X.effect(x)
                    if e.kind in ("label", None):
                        continue
                    for o in e.reads:
                        if o.kind != "vec" or not o.name.startswith("T:"):
                            if o.kind == "vec" and o.name == ir and imm_clobbered and name in op_builders(builders) and b.local_imm:
                                found.add((x.ln, "imm", "`%r` reads the immediate register after it was overwritten" % x))
                            continue
                        pn = o.name[2:]
                        if pn == outp:
                            if _self_idiom(x):
                                continue
                            missing = [l for l in o.lanes() if l not in defined and l < 4]
                            if o in e.merges and o in e.writes:
                                continue  # lane insert: the other lanes pass through; judged at the end of the path
                            if missing and name in op_builders(builders):
                                found.add((x.ln, "stale-out", "`%r` reads lane(s) %s of the output register `%s` before anything was written there: it holds an unrelated value unless the allocator happened to give the operand the same register" % (x, missing, pn)))
                        else:
                            if out_written and pn in inputs:
                                found.add((x.ln, "alias", "`%r` reads input `%s` after the output register was written; the allocator may assign them the same register" % (x, pn)))
                            if imm_clobbered and pn in may_imm:
                                found.add((x.ln, "imm", "`%r` reads `%s` after v%s was overwritten; the dispatch may pass the immediate register for it" % (x, pn, ir)))
                    if e.kind == "call":
                        imm_clobbered = True
                    for o in e.writes:
                        if o.kind != "vec":
                            continue
                        if o.name == "T:%s" % outp:
                            out_written = True
                            if o.lane is not None:
                                defined.update(o.lanes())
                                data.update(o.lanes())
                            elif o in e.merges:
                                pass  # rmw keeps definedness
                            else:
                                defined.update((0, 1, 2, 3))  # scalar and 64-bit writes zero the rest
                                # ... and for an interval / a vector of samples a zero is not a result, so only the
                                # lanes the write covers count at the end (for a gradient, zero is a derivative)
                                data.clear()
                                data.update((0, 1, 2, 3) if kind == "grad_slice" else o.lanes())
                        if o.name == ir and i >= prelen:
                            imm_clobbered = True
                if outp and name in op_builders(builders) and not b.helper_calls or (outp and name.startswith("call_fn")):
                    miss = sorted(need - data)
                    if miss and idx:
                        via = [repr(ins[i]) for i in idx if X.effect(ins[i]).kind in ("jmp", "jcc")]
                        found.add((b.fn["ln"], "undef", "the path through %s leaves lane(s) %s of the output register `%s` unwritten" % (" , ".join(via[:4]) or "the straight line", miss, outp)))
        if found:
            for ln, k, msg in sorted(found):
                rule.bad("a64|%s|%s|%s|%s" % (kind, name, k, re.sub(r"\d+", "N", msg)[:40]), "aarch64 %s %s: %s" % (kind, name, msg), "%s:%d" % (p, ln))
        else:
            rule.ok("aarch64 %s %s: %d path(s), inputs %s, may-be-imm %s" % (kind, name, npaths, inputs, sorted(may_imm)), file=p, line=b.fn["ln"])


# ---------------------------------------------------------------------------
# 4. choice protocol


def check_choice_protocol(rule, kind, root=None):
    """x1 points at the choice byte of this op, x2 at the simplify flag.  On every path a choice clause loads
    the byte (`ldrb w, [x1]`), ORs exactly one choice into it, stores any non-zero value through x2 iff the
    choice is decided, stores the byte back with a post-increment of one, and leaves the chosen operand's
    value in the output register."""
    p = X.path_of(kind)
    builders = X.load_builders(p, root)
    for name, b in sorted(op_builders(builders).items()):
        ins = stream(b, builders)
        if not ins:
            continue
        touches = []
        for x in ins:
            e = X.effect(x)
            for o in e.mem_writes + e.mem_reads:
                if o.base in ("x1", "x2"):
                    touches.append(x)
            for o in e.writes:
                if o.kind == "gpr" and o.name in ("x1", "x2"):
                    touches.append(x)
        if kind in BULK:
            continue
        if name not in CHOICE_BUILDERS:
            if touches:
                rule.bad("a64|%s|%s|touch" % (kind, name), "aarch64 %s %s is not a choice op but touches the choice / simplify pointers (`%r`)" % (kind, name, touches[0]), "%s:%d" % (p, touches[0].ln))
            else:
                rule.ok("aarch64 %s %s leaves x1 / x2 alone" % (kind, name))
            continue
        if AC.conditional_blocks(b):
            rule.bad("a64|%s|%s|conditional" % (kind, name), "choice builder has dynasm blocks under Rust control flow", A.where(p, b.fn))
            continue
        succ, cprobs = X.build_cfg(ins)
        if cprobs:
            rule.bad("a64|%s|%s|cfg" % (kind, name), "aarch64 %s %s: %s" % (kind, name, cprobs[0][1]), "%s:%d" % (p, cprobs[0][0]))
            continue
        paths, cyclic = X.enumerate_paths(ins, succ)
        outp = AC.out_param(b)
        lhs_n, rhs_n = [n for (n, ty) in b.params if ty == "u8" and n != outp][:2]
        found = set()
        for path in paths:
            idx = [i for i in path if not isinstance(i, str)]
            byte = None  # register holding the choice byte
            ored = []
            flag = []
            slot = []
            last_out = None
            order = []
            for i in idx:
                x = ins[i]
                e = X.effect(x)
                if e.kind in ("label", None):
                    continue
                if e.kind == "load" and e.mem_reads and e.mem_reads[0].base == "x1":
                    if x.mnem != "ldrb" or e.mem_reads[0].off != 0 or getattr(e, "post", None):
                        found.add((x.ln, "`%r` must load exactly the current choice byte (`ldrb w, [x1]`)" % x))
                    byte = e.writes[0].name
                    ored = []
                    order.append("l")
                    continue
                if e.kind == "store" and e.mem_writes:
                    mw = e.mem_writes[0]
                    if mw.base == "x1":
                        if x.mnem != "strb" or mw.off != 0 or getattr(e, "post", None) != "1":
                            found.add((x.ln, "`%r` must store one byte through x1 and advance it by exactly one (`strb w, [x1], 1`)" % x))
                        if byte is None or e.reads[0].name != byte:
                            found.add((x.ln, "`%r` stores a register that does not hold the loaded choice byte" % x))
                        slot.append(x)
                        order.append("s")
                    elif mw.base == "x2":
                        if x.mnem != "strb" or mw.off != 0 or getattr(e, "post", None):
                            found.add((x.ln, "`%r` must store one byte through x2 without moving it" % x))
                        if byte is None or e.reads[0].name != byte or not ored:
                            found.add((x.ln, "`%r` sets the simplify flag from a register that is not known to be non-zero (the choice byte after a choice was ORed in)" % x))
                        flag.append(x)
                    continue
                for o in e.writes:
                    if o.kind == "gpr" and o.name in ("x1", "x2"):
                        found.add((x.ln, "`%r` overwrites the %s pointer" % (x, "choice" if o.name == "x1" else "simplify")))
                    if o.kind == "gpr" and byte is not None and o.name == byte:
                        # orr wB, wB, CHOICE_x | orr wB, wB, wN
                        srcs = x.ops[1:]
                        if x.mnem == "orr" and len(srcs) == 2 and srcs[0].kind == "gpr" and srcs[0].name == byte:
                            t = srcs[1].text if srcs[1].kind == "imm" else None
                            if t in ("CHOICE_LEFT", "CHOICE_RIGHT", "CHOICE_BOTH"):
                                ored.append(t)
                            elif srcs[1].kind == "gpr":
                                ored.append("computed")
                            else:
                                found.add((x.ln, "`%r` ORs an unrecognised value into the choice byte" % x))
                        else:
                            found.add((x.ln, "`%r` changes the choice byte other than by OR-ing a choice into it (earlier bits belong to other ops' history)" % x))
                    if o.kind == "vec" and o.name == "T:%s" % outp:
                        srcs = [r.name for r in e.reads if r.kind == "vec" and r.name != "T:%s" % outp]
                        last_out = (x, srcs)
            pdesc = "path via %s" % (", ".join(repr(ins[i]) for i in idx if X.effect(ins[i]).kind in ("jcc", "jmp")) or "the straight line")
            if len(slot) != 1:
                found.add((b.fn["ln"], "%s: the choice byte is stored back %d times (must be exactly once, with the pointer advanced by one)" % (pdesc, len(slot))))
            if order[:1] != ["l"] or order.count("l") != 1:
                found.add((b.fn["ln"], "%s: the choice byte must be loaded exactly once, before anything is ORed into it" % pdesc))
            if len(ored) != 1:
                found.add((b.fn["ln"], "%s: %d choices are ORed into the byte (must be exactly one)" % (pdesc, len(ored))))
            elif ored[0] in ("CHOICE_LEFT", "CHOICE_RIGHT", "computed"):
                if len(flag) != 1:
                    found.add((b.fn["ln"], "%s: records %s (a decided choice) but sets the simplify flag %d times" % (pdesc, ored[0], len(flag))))
                if ored[0] != "computed":
                    want = "T:%s" % (lhs_n if ored[0] == "CHOICE_LEFT" else rhs_n)
                    other = "T:%s" % (rhs_n if ored[0] == "CHOICE_LEFT" else lhs_n)
                    if last_out is None:
                        found.add((b.fn["ln"], "%s: records %s but never writes the output" % (pdesc, ored[0])))
                    elif not last_out[1] and not (name == "build_and" and ored[0] == "CHOICE_LEFT" and last_out[0].mnem == "movi"):
                        found.add((last_out[0].ln, "%s: records %s but the output is the constant `%r`; only `and` with a left operand that is exactly zero may answer with a constant (zero), and that is the Left choice" % (pdesc, ored[0], last_out[0])))
                    elif other in last_out[1] or (want not in last_out[1] and last_out[1]):
                        found.add((last_out[0].ln, "%s: records %s but the output is taken from %s (expected `%s` only)" % (pdesc, ored[0], last_out[1], want[2:])))
            elif ored[0] == "CHOICE_BOTH" and flag:
                found.add((b.fn["ln"], "%s: records CHOICE_BOTH (undecided) but also sets the simplify flag" % pdesc))
            if slot and order and order[-1] != "s":
                found.add((b.fn["ln"], "%s: the byte is stored back before the path's last access to it" % pdesc))
        if found:
            for ln, msg in sorted(found):
                rule.bad("a64|%s|%s|%s" % (kind, name, re.sub(r"\d+", "N", msg.split(": ", 1)[-1])[:50]), "aarch64 %s %s: %s" % (kind, name, msg), "%s:%d" % (p, ln))
        else:
            rule.ok("aarch64 %s %s: %d paths, each loads the byte, ORs one choice, flags iff decided, stores back with x1 += 1" % (kind, name, len(paths)), file=p, line=b.fn["ln"])


# ---------------------------------------------------------------------------
# 5. strictness of min / max branches


def check_strictness(rule, root=None):
    """after `fcmp a, b` the conditions mi (a < b) and gt (a > b) are false for equal and for unordered
    operands, like the interpreter's strict `<` / `>`; ge / ls / eq / pl are also taken on equality and
    lt / le / hi / pl / ne on a NaN - unless a `b.vs` earlier on the path already sent NaNs elsewhere"""
    ordered_strict = {"mi", "gt", "lo", "cc"}
    strict_or_unordered = {"lt", "hi"}  # strict, but also true for unordered operands
    for kind in TRACING:
        builders = X.load_builders(X.path_of(kind), root)
        for name in ("build_min", "build_max"):
            b = builders.get(name)
            if b is None:
                rule.lost("aarch64 %s %s" % (kind, name))
                continue
            ins = X.flat_ins(b)
            js = [x for x in ins if x.label is None and x.mnem.startswith("b.")]
            cm = [x for x in ins if x.mnem in ("fcmp", "fcmgt", "fcmge", "fcmlt", "fcmle")]
            if not js or not cm:
                rule.lost("conditional branches / compares in aarch64 %s %s" % (kind, name))
                continue
            bad = [x for x in cm if x.mnem in ("fcmge", "fcmle")]
            for x in bad:
                rule.bad("a64|%s|%s|%s" % (kind, name, x.mnem), "aarch64 %s %s decides with the non-strict `%r`; the interpreter's min / max choices use strict comparisons, so the two disagree when the operands touch" % (kind, name, x), "%s:%d" % (X.path_of(kind), x.ln))
            fc = [x for x in cm if x.mnem == "fcmp"]
            nan_screened = False
            for x in ins:
                if x.label is not None or not x.mnem.startswith("b."):
                    if x.mnem == "fcmp":
                        nan_screened = False
                    continue
                cc = x.mnem[2:]
                if not fc:
                    rule.ok("aarch64 %s %s `%r`" % (kind, name, x))
                    continue
                if cc == "vs":
                    nan_screened = True
                    rule.ok("aarch64 %s %s `%r` screens unordered operands" % (kind, name, x))
                elif cc in ordered_strict or (cc in strict_or_unordered and nan_screened) or cc in ("ne", "eq", "vc") and False:
                    rule.ok("aarch64 %s %s `%r`" % (kind, name, x))
                elif cc in strict_or_unordered:
                    rule.bad("a64|%s|%s|b.%s" % (kind, name, cc), "aarch64 %s %s branches on `%s` after fcmp: that condition is also true when an operand is NaN, so a NaN operand records a decided choice where the interpreter records Both (use mi / gt, or screen with b.vs first)" % (kind, name, x.mnem), "%s:%d" % (X.path_of(kind), x.ln))
                else:
                    rule.bad("a64|%s|%s|b.%s" % (kind, name, cc), "aarch64 %s %s branches on `%s` after fcmp, which is also taken for equal (or unordered) operands; the interpreter decides with a strict comparison" % (kind, name, x.mnem), "%s:%d" % (X.path_of(kind), x.ln))


# ---------------------------------------------------------------------------
# 6. single-instruction builders

SIMPLE = {"build_add": "fadd", "build_sub": "fsub", "build_mul": "fmul", "build_div": "fdiv", "build_sqrt": "fsqrt", "build_square": "fmul", "build_neg": "fneg", "build_abs": "fabs", "build_min": "fmin", "build_max": "fmax"}
FORM = {"point": ("s", "s", 4), "interval": ("v", "s2", 8), "float_slice": ("v", "s4", 16), "grad_slice": ("v", "s4", 16)}
MOVE = {"point": ("s", 4), "interval": ("d", 8), "float_slice": ("q", 16), "grad_slice": ("q", 16)}


def _form_ok(o, kind):
    form, arr, nb = FORM[kind]
    if form == "s":
        return o.form == "s" and o.elem == "s"
    return o.form == "v" and o.arr == arr


def check_simple_builders(rule, kind, root=None, only=None):
    p = X.path_of(kind)
    builders = X.load_builders(p, root)
    for name, b in sorted(builders.items()):
        if only is not None and name not in only:
            continue
        if b.helper_calls:
            continue
        ins = [x for x in X.flat_ins(b) if x.label is None]
        params = [n for n, _ty in b.params]
        key = "a64|%s|%s" % (kind, name)
        if name in SIMPLE and len(ins) == 1:
            x = ins[0]
            vecs = [o for o in x.ops if o.kind == "vec"]
            regs = [o.name for o in vecs]
            if name in ("build_sqrt", "build_neg", "build_abs"):
                want = ["T:%s" % params[0], "T:%s" % params[1]]
            elif name == "build_square":
                want = ["T:%s" % params[0], "T:%s" % params[1], "T:%s" % params[1]]
            else:
                want = ["T:%s" % params[0], "T:%s" % params[1], "T:%s" % params[2]]
            if x.mnem != SIMPLE[name]:
                rule.bad(key + "|mnemonic", "aarch64 %s %s is the single instruction `%r`; the opcode needs `%s`" % (kind, name, x, SIMPLE[name]), "%s:%d" % (p, x.ln))
            elif regs != want:
                rule.bad(key + "|operands", "aarch64 %s %s: `%r` uses registers %s, expected (%s)" % (kind, name, x, regs, ", ".join(want)), "%s:%d" % (p, x.ln))
            elif not all(_form_ok(o, kind) for o in vecs):
                rule.bad(key + "|width", "aarch64 %s %s: `%r` does not operate on the %d bytes a %s value occupies" % (kind, name, x, FORM[kind][2], kind), "%s:%d" % (p, x.ln))
            else:
                rule.ok("aarch64 %s %s = `%r`" % (kind, name, x), file=p, line=x.ln)
        elif name in ("build_load", "build_store", "build_input", "build_output", "build_copy"):
            mv = [x for x in ins if any(o.kind == "vec" and o.name.startswith("T:") for o in x.ops) and not _self_idiom(x)]
            if len(mv) != 1:
                rule.bad(key + "|shape", "aarch64 %s %s: expected exactly one instruction that moves the tape register, found %d" % (kind, name, len(mv)), "%s:%d" % (p, b.fn["ln"]))
                continue
            x = mv[0]
            vecs = [o for o in x.ops if o.kind == "vec"]
            elem, nb = MOVE[kind]
            regp = {"build_load": params[0], "build_store": params[1], "build_input": params[0], "build_output": params[0], "build_copy": None}[name]
            wants = {"build_load": ("ldr",), "build_input": ("ldr",), "build_store": ("str",), "build_output": ("str",), "build_copy": ("mov", "fmov")}[name]
            if name == "build_copy":
                # a register-to-register copy may move more than the value occupies, and `mov Vd, Vn` is `orr Vd, Vn, Vn`
                is_copy = x.mnem in ("mov", "fmov") and len(vecs) == 2 or (x.mnem == "orr" and len(vecs) == 3 and vecs[1].name == vecs[2].name)
                if is_copy and x.mnem == "orr":
                    vecs = vecs[:2]
                bad_move = not is_copy or any(o.nbytes < nb or o.lane is not None for o in vecs)
            else:
                bad_move = x.mnem not in wants or any(o.nbytes != nb for o in vecs)
            if bad_move:
                rule.bad(key + "|width", "aarch64 %s %s moves data with `%r`; a %s value is %d bytes and needs `%s` on a %s register" % (kind, name, x, kind, nb, "/".join(wants), elem.upper()), "%s:%d" % (p, x.ln))
            elif regp is not None and [o.name for o in vecs] != ["T:%s" % regp]:
                rule.bad(key + "|reg", "aarch64 %s %s moves %s, expected its register parameter `%s`" % (kind, name, [o.name for o in vecs], regp), "%s:%d" % (p, x.ln))
            elif name == "build_copy" and [o.name for o in vecs] != ["T:%s" % params[0], "T:%s" % params[1]]:
                rule.bad(key + "|copy", "aarch64 %s build_copy must copy %s into %s; found `%r`" % (kind, params[1], params[0], x), "%s:%d" % (p, x.ln))
            else:
                rule.ok("aarch64 %s %s = `%r`" % (kind, name, x), file=p, line=x.ln)
        if name in ("build_neg", "build_abs") and not (name in SIMPLE and len(ins) == 1):
            arith = [x for x in ins if x.mnem in ("fsub", "fmul", "fadd", "fdiv", "fnmul")]
            if arith and kind != "interval":
                rule.bad(key + "|arith", "aarch64 %s %s computes a sign operation with `%r`; the interpreter flips / clears the sign bit, which differs at signed zeros" % (kind, name, arith[0]), "%s:%d" % (p, arith[0].ln))


# ---------------------------------------------------------------------------
# 7. symbolic lane emulation: call helpers and the frame


class Emu:
    """registers hold symbolic values: vector registers four 32-bit lanes, GPRs one value, the stack frame
    4-byte cells.  Only data movement is interpreted; everything else yields ('unk', line)."""

    def __init__(self, assign):
        self.assign = assign  # 'T:param' -> physical register number (str)
        self.v = {str(i): [("orig", "v%d" % i, l) for l in range(4)] for i in range(32)}
        self.g = {"x%d" % i: ("orig", "x%d" % i) for i in range(31)}
        self.g["sp"] = ("orig", "sp")
        self.mem = {}
        self.calls = []
        self.notes = []
        self.writer = {}

    def phys(self, o):
        n = o.name
        if n.startswith("T:"):
            return self.assign.get(n)
        return n if re.fullmatch(r"\d+", n) else None

    def read_lanes(self, o):
        pr = self.phys(o)
        if pr is None:
            return [("unk", 0)] * 4
        return list(self.v[pr])

    def lanes_of(self, o):
        """values of the 32-bit lanes the operand covers, in order"""
        src = self.read_lanes(o)
        return [src[l] for l in o.lanes() if l < 4]

    def write_vec(self, o, vals, ln):
        pr = self.phys(o)
        if pr is None:
            return
        if o.lane is not None:
            cur = list(self.v[pr])
            for l, val in zip(o.lanes(), vals):
                if l < 4:
                    cur[l] = val
            self.v[pr] = cur
        else:
            n = max(1, o.nbytes // 4)
            vals = list(vals)[:n] + [("unk", ln)] * max(0, n - len(vals))
            self.v[pr] = (vals + [("zero",)] * 4)[:4]

    def step(self, x):
        e = X.effect(x)
        for o_ in e.writes:
            self.writer[o_.name if o_.kind == "gpr" else "v" + str(self.phys(o_))] = x
        m = x.mnem
        ops = x.ops
        ln = x.ln
        if e.kind in ("label", "jmp", "jcc", "cmp", "nop", "ret"):
            return
        if e.kind == "call":
            # AAPCS64: s0.. carry the arguments; x0-x18, x30, v0-v7, v16-v31 and the upper halves of v8-v15 are lost
            args = [self.v[str(i)][0] for i in range(8)]
            k = len(self.calls)
            self.calls.append(args)
            for r in X.CALL_CLOBBER_GPR:
                self.g[r] = ("clobbered", k, r)
            for i in list(range(0, 8)) + list(range(16, 32)):
                self.v[str(i)] = [("clobbered", k, i, l) for l in range(4)]
            for i in range(8, 16):
                cur = self.v[str(i)]
                self.v[str(i)] = [cur[0], cur[1], ("clobbered", k, i, 2), ("clobbered", k, i, 3)]
            for i in range(8):
                self.v[str(i)][0] = ("ret", k, i)
            return
        if e.kind == "store":
            mw = e.mem_writes[0]
            if mw.base == "sp" and mw.off is not None and not getattr(e, "post", None):
                off = mw.off
                for o in [q for q in ops if q.kind in ("vec", "gpr")]:
                    if o.kind == "vec":
                        vals = self.lanes_of(o)
                        for k_, val in enumerate(vals):
                            self.mem[off + 4 * k_] = val
                        off += o.nbytes
                    else:
                        val = self.g.get(o.name, ("unk", ln))
                        self.mem[off] = ("lo", val)
                        self.mem[off + 4] = ("hi", val)
                        off += 8
            return
        if e.kind == "load":
            mr = e.mem_reads[0]
            known = mr.base == "sp" and mr.off is not None and not getattr(e, "post", None)
            off = mr.off if known else 0
            for o in [q for q in ops if q.kind in ("vec", "gpr")]:
                if o.kind == "vec":
                    n = max(1, o.nbytes // 4)
                    vals = [self.mem.get(off + 4 * k_, ("unk", ln)) if known else ("unk", ln) for k_ in range(n)]
                    self.write_vec(o, vals, ln)
                    off += o.nbytes
                else:
                    lo, hi = (self.mem.get(off), self.mem.get(off + 4)) if known else (None, None)
                    if lo and hi and lo[0] == "lo" and hi[0] == "hi" and lo[1] == hi[1]:
                        self.g[o.name] = lo[1]
                    else:
                        self.g[o.name] = ("unk", ln)
                    off += 8
            return
        dst = ops[0] if ops else None
        if dst is None:
            return
        if dst.kind == "gpr":
            if m == "mov" and len(ops) == 2 and ops[1].kind == "gpr" and dst.width == 8 and ops[1].width == 8:
                self.g[dst.name] = self.g.get(ops[1].name, ("unk", ln))
            elif m in ("movz", "movk") and len(ops) >= 2 and ops[1].kind == "imm" and "addr" in ops[1].text:
                self.g[dst.name] = ("addr",)
            elif m in ("fmov", "umov", "mov") and len(ops) == 2 and ops[1].kind == "vec":
                vals = self.lanes_of(ops[1])
                self.g[dst.name] = ("bits", tuple(vals[: max(1, dst.width // 4)]))
            else:
                self.g[dst.name] = ("unk", ln)
            return
        if dst.kind == "vec":
            if m in ("mov", "fmov", "ins", "orr") and ((len(ops) == 2 and ops[1].kind == "vec") or (m == "orr" and len(ops) == 3 and ops[1].kind == "vec" and ops[2].kind == "vec" and ops[1].name == ops[2].name)):
                src = ops[1]
                vals = self.lanes_of(src)
                if dst.lane is None and src.lane is None and dst.nbytes != src.nbytes:
                    vals = vals[: max(1, dst.nbytes // 4)]
                self.write_vec(dst, vals, ln)
            elif m == "fmov" and len(ops) == 2 and ops[1].kind == "gpr":
                val = self.g.get(ops[1].name)
                if val and val[0] == "bits" and dst.lane is None:
                    self.write_vec(dst, list(val[1]), ln)
                else:
                    self.write_vec(dst, [("unk", ln)] * 4, ln)
            else:
                n = max(1, (dst.nbytes if dst.lane is None else X.ELEM_BYTES[dst.elem]) // 4)
                self.write_vec(dst, [("unk", ln)] * n, ln)
            return


CALL_SHAPE = {
    # kind: (lanes per argument / result value, calls per clause)
    "point": (1, 1), "interval": (2, 1), "grad_slice": (4, 1), "float_slice": (1, 4),
}


def _show(v):
    if v is None:
        return "?"
    if v[0] == "orig":
        return "%s%s" % (v[1], (".s[%d]" % v[2]) if len(v) > 2 else "")
    if v[0] == "ret":
        return "result %d of call %d" % (v[2], v[1] + 1)
    if v[0] == "clobbered":
        return "whatever call %d left there" % (v[1] + 1)
    if v[0] == "zero":
        return "0"
    if v[0] == "unk":
        return "a computed value (line %s)" % v[1]
    return str(v)


def live_pointer_regs(builders):
    """GPRs that clauses or the epilogue read without having written them: the function's live arguments"""
    live = set()
    for name, b in builders.items():
        if name.startswith("call_fn") or name in ("init", "ensure_callee_regs_saved"):
            continue
        written = set()
        for x in X.flat_ins(b):
            e = X.effect(x)
            for kind_, n in X.reads_names(e):
                if kind_ == "g" and n not in written and re.fullmatch(r"x[0-7]", n):
                    live.add(n)
            for kind_, n in X.writes_names(e):
                if kind_ == "g":
                    written.add(n)
    return live


def check_call_helpers(rule, kind, root=None):
    """Each call helper is interpreted on symbolic lane values, for every way the allocator may place its
    operands (tape registers v8-v31, the immediate register, output equal to an input).  Afterwards: the
    output's lanes are the callee's results for this clause's operand lanes in order; every other tape
    register holds what it held before, in all the lanes this evaluator uses; x0-x3 (whichever the clauses
    and the epilogue still read) are back."""
    p = X.path_of(kind)
    builders = X.load_builders(p, root)
    ir = str(X.imm_reg(root))
    consts = X.mod_consts(root)
    lo = consts.get("OFFSET") or 8
    lim = consts.get("REGISTER_LIMIT") or 24
    need = NEEDED_LANES[kind]
    per, ncalls = CALL_SHAPE[kind]
    live = sorted(live_pointer_regs(builders))
    if len(live) < 3:
        rule.lost("aarch64 %s: the pointer registers its clauses read (found %s)" % (kind, live))
        return
    ens = builders.get("ensure_callee_regs_saved")
    for hname in ("call_fn_unary", "call_fn_binary"):
        h = builders.get(hname)
        if h is None:
            rule.lost("aarch64 %s %s" % (kind, hname))
            continue
        ins = X.flat_ins(h)
        outp = AC.out_param(h)
        inputs = [n for (n, ty) in h.params if ty == "u8" and n != outp]
        nblr = len([x for x in ins if X.effect(x).kind == "call"])
        if nblr != ncalls or not outp or len(inputs) != (1 if hname.endswith("unary") else 2):
            rule.bad("a64|%s|%s|shape" % (kind, hname), "aarch64 %s %s: expected %d call(s) and %d operand register(s), found %d / %d" % (kind, hname, ncalls, 1 if hname.endswith("unary") else 2, nblr, len(inputs)), A.where(p, h.fn))
            continue
        if ens is not None and not any(n == "ensure_callee_regs_saved" for n, _a, _c in h.helper_calls):
            rule.bad("a64|%s|%s|ensure" % (kind, hname), "aarch64 %s %s uses callee-saved backup registers but does not call ensure_callee_regs_saved() first" % (kind, hname), A.where(p, h.fn))
        cands_in = [ir] + [str(lo), str(lo + 1), str(lo + 2), str(lo + 3), str(lo + 5), str(lo + 8), str(lo + lim - 1)]
        cands_out = cands_in[1:]
        findings = {}
        nscen = 0
        for combo in itertools.product(*([cands_in] * len(inputs))):
            for po in cands_out:
                nscen += 1
                assign = {"T:%s" % outp: po}
                for n_, pr in zip(inputs, combo):
                    assign["T:%s" % n_] = pr
                em = Emu(assign)
                for x in ins:
                    em.step(x)
                where = "with %s and out in v%s" % (", ".join("%s in v%s" % (n_, pr) for n_, pr in zip(inputs, combo)), po)
                # results
                for l in need:
                    got = em.v[po][l]
                    if ncalls == 1:
                        want_call, want_ret = 0, l
                    else:
                        want_call, want_ret = l, 0
                    ok = got == ("ret", want_call, want_ret)
                    if ok:
                        args = em.calls[want_call]
                        for ai, (n_, pr) in enumerate(zip(inputs, combo)):
                            for k in range(per):
                                src_lane = k if ncalls == 1 else l
                                wantv = ("orig", "v%s" % pr, src_lane)
                                if args[ai * per + k] != wantv:
                                    findings.setdefault("arg|%d|%d" % (ai, k), "argument register s%d of call %d holds %s, expected lane %d of `%s` (%s)" % (ai * per + k, want_call + 1, _show(args[ai * per + k]), src_lane, n_, where))
                    else:
                        findings.setdefault("ret|%d" % l, "lane %d of the output ends up as %s, expected result %d of call %d (%s)" % (l, _show(got), want_ret, want_call + 1, where))
                # every other tape register
                for i in range(lo, lo + lim):
                    if str(i) == po:
                        continue
                    for l in need:
                        if em.v[str(i)][l] != ("orig", "v%d" % i, l):
                            findings.setdefault("tape|%d" % min(l, 2), "tape register v%d lane %d is not restored after the call: it holds %s (%s)" % (i, l, _show(em.v[str(i)][l]), where))
                for r in live:
                    if em.g[r] != ("orig", r):
                        findings.setdefault("gpr|%s" % r, "%s - which later clauses and the epilogue read - is not restored after the call: it holds %s" % (r, _show(em.g[r])))
                if em.g["sp"] != ("orig", "sp"):
                    findings.setdefault("sp", "sp is changed by the helper")
        if findings:
            for k, msg in sorted(findings.items()):
                rule.bad("a64|%s|%s|%s" % (kind, hname, k), "aarch64 %s %s: %s" % (kind, hname, msg), A.where(p, h.fn))
        else:
            rule.ok("aarch64 %s %s: %d operand placements; results in lane order, %d tape registers and %s restored" % (kind, hname, nscen, lim - 1, "/".join(live)), file=p, line=h.fn["ln"])


CALLEE_SAVED_GPR = ["x%d" % i for i in range(19, 31)]


def _data_finalize(root=None):
    """instruction lists of AssemblerData::push_stack / finalize for aarch64 (small and large frame variants)"""
    d = A.load("fidget-jit/src/lib.rs", root)
    ir = X.imm_reg(root)
    out = {}
    for fn in d["_fns"]:
        if fn["name"] not in ("push_stack", "finalize") or fn.get("body") is None:
            continue
        macs = [m for m in A.find(fn["body"], "Macro") if m.get("name") == "dynasm"]
        if not macs:
            continue
        txt = " ".join(A.tokens_str(m["tokens"]) for m in macs)
        if "rsp" in txt or "rbp" in txt:
            continue
        b = X.Builder("fidget-jit/src/lib.rs", fn)
        for m in macs:
            _h, ins = X.parse_block(m, set(), ir)
            b.blocks.append((m, _h, ins))
        out[fn["name"]] = b
    return out


def check_frame(rule, kind, root=None):
    """Whole-function view: prologue (`init`, the stack adjustment, the lazily emitted backup), a call
    helper, the epilogue.  At `ret` every register the AAPCS64 makes the callee preserve - x19-x30, the low
    halves of v8-v15 - and sp must hold what it held on entry."""
    p = X.path_of(kind)
    builders = X.load_builders(p, root)
    data = _data_finalize(root)
    init, fin = builders.get("init"), builders.get("finalize")
    if init is None or fin is None or "push_stack" not in data or "finalize" not in data:
        rule.lost("aarch64 %s: init / finalize / AssemblerData::push_stack / finalize" % kind)
        return
    ens = builders.get("ensure_callee_regs_saved")
    push_vs = X.block_variants(data["push_stack"]) or []
    dfin_vs = X.block_variants(data["finalize"]) or []
    for _d, ins_ in push_vs + dfin_vs:
        for x_ in ins_:
            x_.path = "fidget-jit/src/lib.rs"
    fin_vs = X.block_variants(fin) or []
    if not push_vs or not dfin_vs or not fin_vs:
        rule.lost("aarch64 %s: frame instruction streams" % kind)
        return
    nchecked = 0
    findings = {}
    helpers = [h for h in ("call_fn_unary", "call_fn_binary") if h in builders]
    # frame-size variants pair up: the same mem_offset condition selects push and pop
    def sel(vs, want):
        for desc, ins in vs:
            if want(desc) and ins:
                return ins
        return None

    small = lambda d: "!" not in d.split("&&")[0] and "4096" in d  # noqa: E731
    large = lambda d: d.split("&&")[0].strip().startswith("!") and "65536" in d and "!self.mem_offset<65536" not in d.replace(" ", "")  # noqa: E731
    frames = []
    for label, want in (("a frame below 4096 bytes", small), ("a frame of 4096 bytes or more", large)):
        a, c = sel(push_vs, want), sel(dfin_vs, want)
        if a is None or c is None:
            continue
        frames.append((label, a, c))
    if len(frames) != 2:
        rule.lost("aarch64 %s: small / large frame variants of push_stack and finalize (found %d)" % (kind, len(frames)))
        return
    for label, push, pop in frames:
        for with_calls in (False, True):
            for hname in (helpers if with_calls else [None]):
                em = Emu({"T:out_reg": "8", "T:arg_reg": "9", "T:lhs_reg": "9", "T:rhs_reg": "10"})
                seq = []
                # AssemblerData::prepare_stack runs before init's own code
                seq += push
                seq += X.flat_ins(init)
                if with_calls:
                    # the bulk evaluators loop over their clauses (`->L` .. `b ->L`): whatever a clause emits runs
                    # once per iteration, so the clause is interpreted twice there
                    for _rep in range(2 if kind in BULK else 1):
                        if ens is not None:
                            seq += X.flat_ins(ens)
                        seq += X.flat_ins(builders[hname])
                    fv = sel(fin_vs, lambda d: not d.startswith("!")) if len(fin_vs) > 1 else fin_vs[0][1]
                else:
                    fv = sel(fin_vs, lambda d: d.startswith("!")) if len(fin_vs) > 1 else fin_vs[0][1]
                if fv is None:
                    fv = X.flat_ins(fin)
                seq += fv
                # a frame adjusted by a register amount: model `sub sp, sp, N` / `add sp, sp, N` symbolically
                depth = 0
                for x in seq:
                    if x.label is None and x.mnem in ("sub", "add") and x.ops and x.ops[0].kind == "gpr" and x.ops[0].name == "sp":
                        depth += 1 if x.mnem == "sub" else -1
                        continue
                    em.step(x)
                for x in pop:
                    if x.label is None and x.mnem in ("sub", "add") and x.ops and x.ops[0].kind == "gpr" and x.ops[0].name == "sp":
                        depth += 1 if x.mnem == "sub" else -1
                        continue
                    em.step(x)
                nchecked += 1
                ctx = "%s, %s" % (label, ("after a clause that used %s" % hname) if with_calls else "no out-of-line calls")
                if depth != 0:
                    findings.setdefault("sp|%s" % label[:12], "sp is not restored (%s)" % ctx)
                for r in CALLEE_SAVED_GPR:
                    if em.g[r] != ("orig", r):
                        w = em.writer.get(r)
                        by = (" - last written by `%r` (%s:%d) and never restored" % (w, getattr(w, "path", p), w.ln)) if w is not None else ""
                        findings.setdefault("gpr|%s" % r, "%s is callee-saved under the AAPCS64 but does not hold its entry value at `ret`%s (%s): the Rust caller's value is lost" % (r, by, ctx))
                for i in range(8, 16):
                    for l in (0, 1):
                        if em.v[str(i)][l] != ("orig", "v%d" % i, l):
                            findings.setdefault("vec|%d" % i, "the low half of v%d is callee-saved but lane %d holds %s at `ret` (%s)" % (i, l, _show(em.v[str(i)][l]), ctx))
    if findings:
        for k, msg in sorted(findings.items()):
            rule.bad("a64|%s|frame|%s" % (kind, k), "aarch64 %s: %s" % (kind, msg), "%s:%d" % (p, init.fn["ln"]))
    else:
        rule.ok("aarch64 %s: x19-x30, d8-d15 and sp are back at `ret` in %d prologue / helper / epilogue combinations" % (kind, nchecked), file=p, line=init.fn["ln"])


# ---------------------------------------------------------------------------
# 8. strides and constants


def check_strides(rule, root=None):
    consts = X.mod_consts(root)
    lim, imm, off = consts.get("REGISTER_LIMIT"), consts.get("IMM_REG"), consts.get("OFFSET")
    if None not in (lim, imm, off) and off + lim <= 32 and imm < off and str(imm) not in SCRATCH_VEC:
        rule.ok("aarch64: tape registers are v[%d..%d), the immediate register v%d lies below them" % (off, off + lim, imm), file=X.MOD)
    else:
        rule.bad("a64|consts|regs", "aarch64 REGISTER_LIMIT=%s, OFFSET=%s, IMM_REG=%s: tape registers must be v[OFFSET..OFFSET+LIMIT) within 32 and the immediate register below OFFSET" % (lim, off, imm), X.MOD)
    for kind in X.KINDS:
        p = X.path_of(kind)
        builders = X.load_builders(p, root)
        es = ELEM_STRIDE[kind]
        for name, base in (("build_input", "x0"), ("build_output", "x3" if kind in TRACING else "x1")):
            b = builders.get(name)
            if b is None:
                rule.lost("aarch64 %s %s" % (kind, name))
                continue
            param = b.params[1][0]
            mems = [o for x in X.flat_ins(b) for o in x.ops if o.kind == "mem" and o.base == base]
            if len(mems) == 1 and mems[0].sym == "%s*%d" % (param, es):
                rule.ok("aarch64 %s %s: slot i is at byte %d*i from %s" % (kind, name, es, base), file=p, line=b.fn["ln"])
            else:
                rule.bad("a64|stride|%s|%s" % (kind, name), "aarch64 %s %s must address slot i at [%s, %s * %d] (found %s)" % (kind, name, base, param, es, [o.text for o in mems]), "%s:%d" % (p, b.fn["ln"]))
        for name in ("build_load", "build_store"):
            b = builders.get(name)
            if b is None:
                rule.lost("aarch64 %s %s" % (kind, name))
                continue
            t = A.ftxt(b.fn["body"])
            if re.search(r"letsp_offset=\(?self\.0\.stack_pos\(\w+\)\+STACK_SIZE\)?;", str(t).replace(" ", "")):
                rule.ok("aarch64 %s %s: spill slot at stack_pos(slot) + STACK_SIZE" % (kind, name), file=p, line=b.fn["ln"])
            else:
                rule.bad("a64|stride|%s|%s" % (kind, name), "aarch64 %s %s must address its spill slot at self.0.stack_pos(slot) + STACK_SIZE" % (kind, name), "%s:%d" % (p, b.fn["ln"]))
        if kind in BULK:
            fin = builders.get("finalize")
            ins = X.flat_ins(fin) if fin else []
            per_iter, size = {"float_slice": (4, 4), "grad_slice": (1, 16)}[kind]
            subs = [x for x in ins if x.mnem == "sub" and x.ops and x.ops[0].kind == "gpr" and x.ops[0].name == "x2"]
            adds = [x for x in ins if x.mnem == "add" and x.ops and x.ops[0].kind == "gpr" and x.ops[0].name == "x3"]
            s = subs[0].ops[-1].text if len(subs) == 1 else None
            a = adds[0].ops[-1].text if len(adds) == 1 else None
            if s == str(per_iter) and a == str(per_iter * size):
                rule.ok("aarch64 %s loop: %d sample(s) and %d bytes per iteration" % (kind, per_iter, per_iter * size), file=p, line=fin.fn["ln"])
            else:
                rule.bad("a64|stride|%s|loop" % kind, "aarch64 %s loop advances the count by %s and the byte offset by %s; one iteration processes %d sample(s) of %d bytes" % (kind, s, a, per_iter, size), "%s:%s" % (p, fin.fn["ln"] if fin else "?"))
            w = None
            for c in A.find_items(p, "Const", "SIMD_WIDTH", root):
                w = A.lit_value(c["e"])
            if kind == "float_slice" and w != per_iter:
                rule.bad("a64|stride|%s|simd" % kind, "aarch64 SIMD_WIDTH is %s but the loop processes %d samples per iteration" % (w, per_iter), p)


def _a64_constants(ins):
    """32-bit constants a clause builds: `mov w, lo` + `movk w, hi, lsl 16`, large immediates, to_bits()"""
    out = set()
    pend = {}
    for x in ins:
        if x.label is not None:
            continue
        ops = x.ops
        if x.mnem in ("mov", "movz") and len(ops) >= 2 and ops[0].kind == "gpr" and ops[1].kind == "imm":
            t = ops[1].text
            try:
                v = int(t.replace("_", ""), 0)
                sh = 0
                if len(ops) == 3 and ops[2].kind == "shift" and ops[2].op == "lsl":
                    sh = int(ops[2].amount, 0)
                pend[ops[0].name] = v << sh
                continue
            except ValueError:
                if "to_bits" in t:
                    out.add(t)
                pend.pop(ops[0].name, None)
                continue
        if x.mnem == "movk" and len(ops) == 3 and ops[0].kind == "gpr" and ops[1].kind == "imm" and ops[2].kind == "shift" and ops[0].name in pend:
            try:
                v = int(ops[1].text.replace("_", ""), 0) << int(ops[2].amount, 0)
                pend[ops[0].name] |= v
                continue
            except ValueError:
                pass
        # any other use of a pending register consumes the constant
        for o in ops[1:] if ops else []:
            if o.kind == "gpr" and o.name in pend:
                out.add("0x%x" % pend[o.name])
        if ops and ops[0].kind == "gpr" and ops[0].name in pend and x.mnem not in ("movk",):
            e = X.effect(x)
            if any(q.kind == "gpr" and q.name == ops[0].name for q in e.reads):
                out.add("0x%x" % pend[ops[0].name])
            pend.pop(ops[0].name, None)
        if x.mnem in ("orr", "and", "eor", "mov", "movz"):
            for o in ops:
                if o.kind == "imm" and re.fullmatch(r"0x[0-9a-fA-F_]{5,}", o.text):
                    out.add("0x%x" % int(o.text.replace("_", ""), 0))
    for v in pend.values():
        out.add("0x%x" % v)
    return {c for c in out if c.startswith("0x") and int(c, 0) >= 0x10000 or "to_bits" in c}


def check_constants(rule, root=None):
    """the hash constants of rand / mix and the bit patterns of the other clauses are the same numbers on both
    architectures and in all four evaluators"""
    n = 0
    ref = {}
    for kind in AC.ALL:
        for name, b in M.load_builders(AC.path_of(kind), root).items():
            s = set()
            for c in AC.magic_constants(b):
                c2 = re.sub(r"(_?[iu](8|32|64))$", "", c)
                if re.fullmatch(r"-?(0x[0-9a-fA-F_]+|\d+)", c2):
                    s.add("0x%x" % (int(c2.replace("_", ""), 0) & 0xFFFFFFFF))
            if s:
                ref.setdefault(name, set()).update(s)
    for kind in X.KINDS:
        p = X.path_of(kind)
        for name, b in sorted(X.load_builders(p, root).items()):
            if name in NON_OP or name == "load_imm" or name.startswith("call_fn"):
                continue
            mine = {c for c in _a64_constants(X.flat_ins(b)) if c.startswith("0x")}
            if not mine:
                continue
            n += 1
            theirs = ref.get(name)
            if not theirs:
                rule.skip("aarch64 %s %s" % (kind, name), "no x86_64 sibling with literal constants")
                continue
            extra = mine - theirs
            if extra:
                rule.bad("a64|const|%s|%s" % (kind, name), "aarch64 %s %s builds the constant(s) %s, which no x86_64 implementation of the same opcode uses (theirs: %s); sibling implementations of one opcode must compute the same function" % (kind, name, sorted(extra), sorted(theirs)), "%s:%d" % (p, b.fn["ln"]))
            else:
                rule.ok("aarch64 %s %s: constants %s agree with the x86_64 siblings" % (kind, name, sorted(mine)), file=p, line=b.fn["ln"])
    return n


# ---------------------------------------------------------------------------
# 9. widths, immediates, the fixed part of the frame


def check_full_width(rule, kind, root=None):
    """the four-lane evaluators (four samples; value + three derivatives) hold data in all 128 bits of a
    register: a 64-bit arrangement (.s2 / .b8) computes - or zeroes - only half of it"""
    if kind not in BULK:
        return
    p = X.path_of(kind)
    builders = X.load_builders(p, root)
    for name, b in sorted(op_builders(builders).items()):
        half = [(x, o) for x in X.flat_ins(b) for o in x.ops if o.kind == "vec" and o.form == "v" and o.lane is None and o.nbytes == 8]
        if half:
            x, o = half[0]
            rule.bad("a64|%s|%s|half-width" % (kind, name), "aarch64 %s %s: `%r` works on a 64-bit arrangement (`%s`): lanes 2 and 3 of a %s value are not computed (a 64-bit write clears them)" % (kind, name, x, o.text, kind), "%s:%d" % (p, x.ln))
        elif X.flat_ins(b):
            rule.ok("aarch64 %s %s uses 128-bit arrangements only" % (kind, name), file=p, line=b.fn["ln"])


def _mask_of(text):
    """bits of `imm_u32` an operand expression can carry: `imm_u32 >> 16` (with lsl 16) / `imm_u32 & 0xFFFF`"""
    t = re.sub(r"(?<=[0-9a-fA-FxX])_(?=[0-9a-fA-F])", "", text.replace(" ", ""))
    m = re.fullmatch(r"\(?(\w+)>>(\d+)\)?", t)
    if m:
        return m.group(1), ("shr", int(m.group(2)))
    m = re.fullmatch(r"\(?(\w+)&(0x[0-9a-fA-F]+|\d+)\)?", t)
    if m:
        return m.group(1), ("and", int(m.group(2), 0))
    return None, None


def check_load_imm(rule, kind, root=None):
    """load_imm picks the shortest movz / movk sequence from tests on the constant's bit pattern.  Whatever
    path is taken, the bits it does not load must be known to be zero from the tests that led there."""
    p = X.path_of(kind)
    builders = X.load_builders(p, root)
    b = builders.get("load_imm")
    if b is None:
        rule.lost("aarch64 %s load_imm" % kind)
        return
    ir = str(X.imm_reg(root))
    lets = {A.binding_name(s_["pat"]): str(A.ftxt(s_["init"])) for s_ in A.find(b.fn["body"], "Let") if s_.get("init") is not None and A.binding_name(s_["pat"])}
    bits = [n for n, t in lets.items() if t.endswith(".to_bits()")]
    if len(bits) != 1:
        rule.lost("aarch64 %s load_imm: `let imm_u32 = imm.to_bits()`" % kind)
        return
    var = bits[0]
    n = 0
    for m, _h, ins in b.blocks:
        conds = [re.sub(r"(?<=[0-9a-fA-FxX])_(?=[0-9a-fA-F])", "", c.replace(" ", "")) for c in (A.enclosing_conds(b.fn["body"], m) or [])]
        zero = 0
        for c in conds:
            c = c.strip("()")
            mm = re.fullmatch(r"\(?%s&(0x[0-9a-fA-F]+|\d+)\)?==0" % re.escape(var), c) or re.fullmatch(r"0==\(?%s&(0x[0-9a-fA-F]+|\d+)\)?" % re.escape(var), c)
            if mm:
                zero |= int(mm.group(1), 0)
        loaded = 0
        ok_shape = True
        gpr = None
        for x in ins:
            if x.label is not None:
                continue
            if x.mnem in ("movz", "movk", "mov") and len(x.ops) >= 2 and x.ops[0].kind == "gpr" and x.ops[1].kind == "imm":
                v, how = _mask_of(x.ops[1].text)
                sh = 0
                if len(x.ops) == 3 and x.ops[2].kind == "shift" and x.ops[2].op == "lsl":
                    sh = int(x.ops[2].amount, 0)
                if v != var or how is None:
                    ok_shape = False
                    continue
                if how[0] == "shr":
                    part = ((0xFFFFFFFF >> how[1]) & 0xFFFF) << sh
                    if sh != how[1]:
                        ok_shape = False  # the field is put back somewhere else than it was taken from
                else:
                    part = (how[1] & 0xFFFF) << sh
                    if sh != 0 and how[1] >> sh == 0:
                        ok_shape = False
                if x.mnem != "movk":
                    loaded = 0
                loaded |= part
                gpr = x.ops[0].name
            elif x.mnem in ("fmov", "dup") and len(x.ops) == 2 and x.ops[0].kind == "vec" and x.ops[0].name == ir and x.ops[1].kind == "gpr":
                if x.ops[1].name != gpr:
                    ok_shape = False
            else:
                ok_shape = False
        n += 1
        missing = (~loaded) & 0xFFFFFFFF & ~zero
        where = "%s:%d" % (p, m["ln"])
        if not ok_shape:
            rule.bad("a64|%s|load_imm|shape" % kind, "aarch64 %s load_imm: a variant is not a movz / movk sequence over fields of `%s` moved into v%s" % (kind, var, ir), where)
        elif missing:
            rule.bad("a64|%s|load_imm|bits" % kind, "aarch64 %s load_imm: under `%s` only the bits %#010x of the constant are loaded, but the tests on that path only establish that the bits %#010x are zero: bits %#010x are dropped (e.g. 1000.5 = 0x447A2000 would load as 1000.0)" % (kind, " && ".join(conds) or "no condition", loaded, zero, missing), where)
        else:
            rule.ok("aarch64 %s load_imm under `%s`: loads bits %#010x, the rest are known zero" % (kind, " && ".join(conds) or "no condition", loaded), file=p, line=m["ln"])
    # the vector form must fill every lane the evaluator computes with
    dups = [x for x in X.flat_ins(b) if x.ops and x.ops[0].kind == "vec" and x.ops[0].name == ir]
    want = {"point": 4, "interval": 8, "float_slice": 16, "grad_slice": 4}[kind]
    for x in dups:
        o = x.ops[0]
        if o.nbytes < want:
            rule.bad("a64|%s|load_imm|width" % kind, "aarch64 %s load_imm: `%r` fills %d bytes of the immediate register; clauses of this evaluator read %d" % (kind, x, o.nbytes, want), "%s:%d" % (p, x.ln))
    return n


def check_fixed_area(rule, kind, root=None):
    """spill slots start at sp + STACK_SIZE: every fixed slot the prologue, the epilogue and the call helpers
    use must end at or below it, and two different registers' save slots must not overlap"""
    p = X.path_of(kind)
    builders = X.load_builders(p, root)
    ss = None
    for c in A.find_items(p, "Const", "STACK_SIZE", root):
        ss = A.lit_value(c["e"])
    if ss is None:
        rule.lost("aarch64 %s STACK_SIZE" % kind)
        return
    slots = {}
    worst = None
    for name, b in builders.items():
        for x in X.flat_ins(b):
            e = X.effect(x)
            if e.kind not in ("load", "store"):
                continue
            mem = (e.mem_reads + e.mem_writes)[0]
            if mem.base != "sp" or mem.off is None:
                continue
            off = mem.off
            for o in [q for q in x.ops if q.kind in ("vec", "gpr")]:
                w = o.nbytes if o.kind == "vec" else 8
                if e.kind == "store":
                    slots.setdefault((off, w), set()).add(o.text if o.kind == "gpr" else "%s%s" % (o.elem if o.form == "s" else "v", o.name))
                if worst is None or off + w > worst[0]:
                    worst = (off + w, x, name)
                off += w
    if worst is None:
        rule.lost("aarch64 %s: fixed stack slots" % kind)
        return
    if worst[0] > ss:
        rule.bad("a64|%s|frame|fixed-area" % kind, "aarch64 %s: `%r` (in %s) uses the fixed slot ending at sp + %#x, but spill slot 0 starts at sp + STACK_SIZE = %#x: the first spilled value and this save overwrite each other" % (kind, worst[1], worst[2], worst[0], int(ss)), "%s:%d" % (p, worst[1].ln))
    else:
        rule.ok("aarch64 %s: the fixed slots end at sp + %#x <= STACK_SIZE (%#x)" % (kind, worst[0], int(ss)), file=p)
    ranges = sorted(slots.items())
    for i, ((o1, w1), r1) in enumerate(ranges):
        for (o2, w2), r2 in ranges[i + 1:]:
            if o2 < o1 + w1 and (r1 != r2 or (o1, w1) != (o2, w2)):
                # the same bytes used for two registers: legitimate only if never live together (the GPR backups
                # and the vector saves of one helper are); report GPR backup vs vector save
                g1 = any(t.startswith("x") for t in r1)
                g2 = any(t.startswith("x") for t in r2)
                if g1 != g2:
                    rule.bad("a64|%s|frame|overlap" % kind, "aarch64 %s: the save slot of %s at sp + %#x overlaps the slot of %s at sp + %#x" % (kind, sorted(r1), o1, sorted(r2), o2), p)


INT_CMP = ("cmeq", "cmgt", "cmge", "cmhi", "cmhs", "cmlt", "cmle", "cmtst")


def check_int_compare(rule, kind, root=None):
    """tape values are floats: comparing them with the integer compares (cmeq ..) tells -0.0 from +0.0 and
    orders NaN payloads, unlike the interpreter's `== 0.0` / `<` - every sibling clause uses fcmeq / fcmgt"""
    p = X.path_of(kind)
    builders = X.load_builders(p, root)
    n = 0
    for name, b in sorted(op_builders(builders).items()):
        ins = X.flat_ins(b)
        hits = [x for x in ins if x.label is None and x.mnem in INT_CMP and any(o.kind == "vec" and o.name.startswith("T:") for o in x.ops[1:])]
        fl = [x for x in ins if x.label is None and x.mnem in ("fcmeq", "fcmgt", "fcmge", "fcmlt", "fcmle", "fcmp")]
        for x in hits:
            n += 1
            rule.bad("a64|%s|%s|%s" % (kind, name, x.mnem), "aarch64 %s %s: `%r` compares float data as integers: -0.0 (0x80000000) is not equal to 0, so e.g. not(-0.0) is 0 here and 1 in the interpreter (`== 0.0`) and in every sibling assembler (fcmeq)" % (kind, name, x), "%s:%d" % (p, x.ln))
        if fl and not hits:
            n += 1
            rule.ok("aarch64 %s %s compares its operands as floats (%d compare(s))" % (kind, name, len(fl)), file=p, line=b.fn["ln"])
    return n
