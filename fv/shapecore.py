"""fidget-core/src/shape/mod.rs and var/mod.rs: transform siblings, axis binding,
argument checks, scratch sizing (shared by C03, C05, C10, C11, C14)."""
import re

import sympy as sp

from . import ast as A
from . import effects as E
from . import sym as S

SHAPE = "fidget-core/src/shape/mod.rs"
VAR = "fidget-core/src/var/mod.rs"


def transform_fn(ty, root=None):
    return A.find_fn(SHAPE, "transform", self_ty=ty, trait="Transformable", root=root)


def r_transformable(rule, types=("Interval", "Grad"), root=None):
    """row i of the matrix combines (x, y, z, 1) with columns (0, 1, 2, 3); the
    result is (out[0], out[1], out[2]) each divided by out[3] as a full value of the type"""
    for ty in types:
        if ty == "f32":
            continue
        fn = transform_fn(ty, root)
        params = [A.binding_name(i["pat"]) for i in fn["sig"]["inputs"] if "pat" in i]
        lets = [s for s in fn["body"]["stmts"] if s.get("k") == "Let"]
        key = "transform|%s" % ty
        # first by meaning: interpret the body on symbols (any control flow whose conditions are equations on
        # matrix entries); only a body the interpreter cannot follow is held to the familiar shape below
        sem = _transform_by_meaning(rule, fn, ty, key)
        if sem:
            continue
        mp = [c for c in A.find(fn["body"], "MethodCall") if c["method"] == "map"]
        if len(mp) != 1 or A.strip(mp[0]["args"][0]).get("k") != "Closure":
            rule.bad(key + "|shape", "Transformable for %s: expected `[0, 1, 2, 3].map(|i| ..)`" % ty, A.where(fn))
            continue
        arr = A.strip(mp[0]["recv"])
        idxs = [A.lit_value(x) for x in arr.get("elems", [])] if arr.get("k") == "Array" else None
        if idxs != [0, 1, 2, 3]:
            rule.bad(key + "|rows", "Transformable for %s must compute rows [0, 1, 2, 3], found %s" % (ty, idxs), A.where(fn, arr))
        else:
            rule.ok("%s: rows 0..3 computed" % ty)
        cl = A.strip(mp[0]["args"][0])
        ivar = A.binding_name(cl["inputs"][0])
        env = S.SymEnv()
        for p, ax in zip(params[:3], ("x", "y", "z")):
            env.vars[p] = env.sym(ax)
        body = A.strip(cl["body"])
        stmts = body["stmts"] if body.get("k") == "Block" else [{"k": "ExprStmt", "e": body, "semi": False}]
        rowlet = [s for s in stmts if s.get("k") == "Let"]
        ok_row = len(rowlet) == 1 and A.ftxt(rowlet[0]["init"]) == "%s.row(%s)" % (params[3], ivar)
        if not ok_row:
            rule.bad(key + "|row", "Transformable for %s: `row` must be `%s.row(%s)`" % (ty, params[3], ivar), A.where(fn))
            continue
        rown = A.binding_name(rowlet[0]["pat"])
        tail = [A.stmt_expr(s) for s in stmts if s.get("k") == "ExprStmt" and not s.get("semi")]
        # row[k] -> r_k
        def subst(e):
            e = A.strip(e)
            if e.get("k") == "Index" and A.ident(A.strip(e["e"])) == rown and A.lit_value(e["index"]) is not None:
                return {"k": "Path", "segs": ["r%d" % A.lit_value(e["index"])]}
            if isinstance(e, dict):
                return {k: (subst(v) if isinstance(v, dict) and "k" in v else ([subst(x) if isinstance(x, dict) and "k" in x else x for x in v] if isinstance(v, list) else v)) for k, v in e.items()}
            return e
        try:
            got = S.to_sym(subst(tail[0]), env)
            want = env.sym("x") * env.sym("r0") + env.sym("y") * env.sym("r1") + env.sym("z") * env.sym("r2") + env.sym("r3")
            if S.equal(got, want):
                rule.ok("%s: row = x*m[i,0] + y*m[i,1] + z*m[i,2] + m[i,3]" % ty, file=SHAPE, line=fn["ln"])
            else:
                rule.bad(key + "|rowexpr", "Transformable for %s computes each row as `%s`; a homogeneous transform needs x*m[i,0] + y*m[i,1] + z*m[i,2] + m[i,3]" % (ty, got), A.where(fn, cl))
        except (S.Untranslatable, IndexError) as e:
            rule.bad(key + "|rowexpr", "Transformable for %s: row expression not understood (%s)" % (ty, e), A.where(fn, cl))
        # the map result must be bound to the array that is divided
        outn = None
        comp = {}  # text that denotes component k of the mapped array
        for s in lets:
            if any(n is mp[0] for n in A.walk(s.get("init") or {})):
                outn = A.binding_name(s["pat"])
                p = s["pat"]["pat"] if s["pat"].get("k") == "PType" else s["pat"]
                if outn:
                    comp = {k: "%s[%d]" % (outn, k) for k in range(4)}
                elif p.get("k") == "PSlice" and len(p.get("elems", [])) == 4:
                    # `let [tx, ty, tz, tw] = [0, 1, 2, 3].map(..)` names the four components
                    comp = {k: A.binding_name(e_) for k, e_ in enumerate(p["elems"])}
                    outn = "[%s]" % ",".join(str(comp[k]) for k in range(4))
        tl = A.strip(A.stmt_expr(fn["body"]["stmts"][-1]) or {})
        good = tl.get("k") == "Tuple" and len(tl["elems"]) == 3 and len(comp) == 4
        # every way out of the function returns the divided components: an early return that skips the
        # homogeneous divide (a "fast path") is a different function for projective matrices
        for r_ in A.find(fn["body"], "Return"):
            good = False
            rule.bad(key + "|early", "Transformable for %s returns `%s` early under `%s`; every result must be (out[0], out[1], out[2]) / out[3]" % (ty, A.unparse(r_.get("e") or {})[:50], " && ".join(A.enclosing_conds(fn["body"], r_) or [])[:80]), A.where(fn, r_))
        if good:
            for k, el in enumerate(tl["elems"]):
                el = A.strip(el)
                if not (
                    el.get("k") == "Binary"
                    and el["op"] == "/"
                    and str(A.ftxt(A.strip(el["left"]))) == comp[k]
                    and str(A.ftxt(A.strip(el["right"]))) == comp[3]
                ):
                    good = False
                    rule.bad(key + "|div%d" % k, "Transformable for %s: component %d is `%s`; every component must be `%s[%d] / %s[3]` (the homogeneous divide, on the full %s value)" % (ty, k, A.unparse(el), outn, k, outn, ty), A.where(fn, el))
        else:
            rule.bad(key + "|result", "Transformable for %s must return the three components divided by w" % ty, A.where(fn))
        if good:
            rule.ok("%s: result = (out[0], out[1], out[2]) / out[3]" % ty, file=SHAPE, line=fn["ln"])
    if "f32" in types:
        fn = transform_fn("f32", root)
        params = [A.binding_name(i["pat"]) for i in fn["sig"]["inputs"] if "pat" in i]
        t = A.ftxt(fn["body"])
        def _f32_point_form():
            lets = {A.binding_name(l_["pat"]): str(A.ftxt(l_["init"])) for l_ in A.find(fn["body"], "Let") if l_.get("init") is not None and A.binding_name(l_["pat"])}
            tail = None
            for leaf_, _cs in A.result_cases(fn["body"]):
                tail = str(A.ftxt(leaf_))
            if tail is None:
                return False
            for _ in range(4):
                for n_, v_ in lets.items():
                    tail = re.sub(r"(?<![\w.])%s(?![\w(])" % re.escape(n_), lambda _m: v_, tail)
            call = "%s.transform_point(&Point3::new(%s,%s,%s))" % (params[3], params[0], params[1], params[2])
            comps = [("%s.x,%s.y,%s.z" % (call, call, call)), ("%s[0],%s[1],%s[2]" % (call, call, call)), ("%s.coords.x,%s.coords.y,%s.coords.z" % (call, call, call)), ("%s.coords[0],%s.coords[1],%s.coords[2]" % (call, call, call))]
            return tail in tuple("(%s)" % c_ for c_ in comps)

        if ("letout=%s.transform_point(&Point3::new(%s,%s,%s));" % (params[3], params[0], params[1], params[2]) in t and t.endswith("(out.x,out.y,out.z)}")) or _f32_point_form():
            rule.ok("f32: transform_point(Point3(x, y, z)) -> (x, y, z)", file=SHAPE, line=fn["ln"])
        elif _transform_by_meaning(rule, fn, "f32", "transform|f32"):
            pass  # written out by hand: compared with the homogeneous transform entry by entry
        else:
            rule.bad("transform|f32", "Transformable for f32 must be mat.transform_point(&Point3::new(x, y, z)) returned as (out.x, out.y, out.z)", A.where(fn))


def _transform_by_meaning(rule, fn, ty, key):
    import sympy as sp

    from . import qef as QF

    try:
        res, why = QF.transform_cases(fn)
    except Exception:  # noqa: BLE001
        return False
    if res is None:
        return False
    cases, want = res
    if not cases:
        return False
    bad = False
    for sub, got, node in cases:
        for k in range(3):
            g, w = sp.sympify(got[k]).subs(sub), want[k].subs(sub)
            if sp.simplify(g - w) != 0:
                bad = True
                under = (" when " + ", ".join("%s = %s" % (a, b) for a, b in sorted(sub.items(), key=str))) if sub else ""
                rule.bad(key + ("|div%d" % k if not sub else "|case"), "Transformable for %s: component %d is `%s`%s; the homogeneous transform gives `%s` (every component is divided by the full w row, entry (3, 3) included)" % (ty, k, sp.simplify(g), under, sp.simplify(w)), A.where(fn, node))
                break
    if not bad:
        rule.ok("%s: rows 0..3 computed" % ty)
        rule.ok("%s: row = x*m[i,0] + y*m[i,1] + z*m[i,2] + m[i,3]" % ty, file=SHAPE, line=fn["ln"])
        rule.ok("%s: result = (out[0], out[1], out[2]) / out[3] on every path (%d case(s))" % (ty, len(cases)), file=SHAPE, line=fn["ln"])
    return True


def shape_eval_fns(root=None):
    t = A.find_fn(SHAPE, "eval_raw", self_ty="ShapeTracingEval", root=root)
    b = A.find_fn(SHAPE, "eval_raw", self_ty="ShapeBulkEval", root=root)
    return t, b


def r_axis_binding(rule, root=None):
    t, b = shape_eval_fns(root)
    # tracing: Var::A => scratch[index] = a
    params = [A.binding_name(i["pat"]) for i in t["sig"]["inputs"] if "pat" in i]
    xyz = params[1:4]
    ms = [m for m in A.find(t["body"], "Match") if any("Var::X" in A.unparse(a["pat"]) for a in m["arms"])]
    if len(ms) != 1:
        rule.lost("match var {Var::X ..} in ShapeTracingEval::eval_raw")
    else:
        # the match either stores in every arm, or yields the value that one common statement stores
        yields = False
        for l_ in A.find(t["body"], "Let"):
            if l_.get("init") is not None and A.strip(l_["init"]) is ms[0] and A.binding_name(l_["pat"]):
                nm_ = A.binding_name(l_["pat"])
                yields = any(str(A.ftxt(a_["left"])) == "self.scratch[index]" and A.ident(A.strip(a_["right"])) == nm_ for a_ in A.find(t["body"], "Assign"))
        for a_ in A.find(t["body"], "Assign"):
            if str(A.ftxt(a_["left"])) == "self.scratch[index]" and A.strip(a_["right"]) is ms[0]:
                yields = True
        for arm in ms[0]["arms"]:
            pt = A.ftxt(arm["pat"])
            body = A.strip(arm["body"])
            if pt in ("Var::X", "Var::Y", "Var::Z"):
                want = xyz["XYZ".index(pt[-1])]
                if yields:
                    ok = A.ident(A.strip(A.unblock(body))) == want
                else:
                    ok = body.get("k") == "Assign" and A.ftxt(body["left"]) == "self.scratch[index]" and A.ident(A.strip(body["right"])) == want
                if ok:
                    rule.ok("tracing: %s bound to `%s`" % (pt, want), file=SHAPE, line=arm["ln"])
                else:
                    rule.bad("tracing|%s" % pt, "ShapeTracingEval::eval_raw binds %s with `%s`; it must store `%s` at the variable's own index" % (pt, A.unparse(body), want), A.where(t, arm))
            elif pt.startswith("Var::V("):
                vn = pt[len("Var::V("):-1]
                tt = A.ftxt(body)
                ok = "vars.get(%s)" % vn in tt and "MissingVar{var:%s}" % vn in tt and ("self.scratch[index]=" in tt or yields) and ("return" in tt or ")?" in tt)
                if ok:
                    rule.ok("tracing: Var::V looked up by its own id; missing -> MissingVar", file=SHAPE, line=arm["ln"])
                else:
                    rule.bad("tracing|Var::V", "a free variable must be looked up by its own id and a missing one returned as MissingVar", A.where(t, arm))
    # transform applied in (x, y, z) order on both branches
    for fn0, label in ((t, "tracing"), (b, "bulk")):
        # a private helper that applies the optional transform is read in place
        fn = dict(fn0)
        if not [c for c in A.find(fn0["body"], "Call") if (A.path_segs(c["func"]) or [])[-2:] == ["Transformable", "transform"]]:
            try:
                fn["body"] = A.inline_helpers(fn0, private_only=True, keep=("eval", "eval_raw"))
            except Exception:  # noqa: BLE001
                pass
        calls = [c for c in A.find(fn["body"], "Call") if (A.path_segs(c["func"]) or [])[-2:] == ["Transformable", "transform"]]
        if len(calls) != 1:
            rule.lost("Transformable::transform call in %s eval_raw" % label)
            continue
        c = calls[0]
        # what the arguments *are*: names for the converted inputs (`let x = x.into()`, a tuple of them) are
        # read through; that the fourth is the supplied transform is the transform-cond check below
        env = E.env_at(fn["body"], c)
        args = [E.canon(a, env) for a in c["args"][:3]] + [str(A.ftxt(a)) for a in c["args"][3:]]
        want = [p_ for p_ in params[1:4]] if label == "tracing" else ["x[i]", "y[i]", "z[i]"]
        lanes = None
        if label == "bulk":
            # the lane loop: `for i in 0..n` reading x[i], or x / y / z walked in lock step
            bs = [b_ for b_ in (A.enclosing_binders(fn["body"], c) or []) if b_[2].get("k") == "For"]
            lanes = A.lane_bindings(bs[-1][2]) if bs else None
            if lanes is not None and lanes[0]:
                sub = {nm: "%s[%s]" % (src, lanes[0]) for nm, src in lanes[1].items()}
                args = [sub.get(a_, a_) for a_ in args[:3]] + args[3:]
                want = ["%s[%s]" % (p_, lanes[0]) for p_ in "xyz"]
        via_pos = [str(A.ftxt(a_)) for a_ in c["args"][:3]]
        via_pos = len(via_pos) == 3 and all(v_.endswith(".%d" % k_) for k_, v_ in enumerate(via_pos)) and len({v_.rsplit(".", 1)[0] for v_ in via_pos}) == 1
        if args[:3] == want and len(args) == 4:
            rule.ok("%s: transform(x, y, z, t) in axis order" % label, file=SHAPE, line=c["ln"])
        elif via_pos and len(args) == 4:
            rule.ok("%s: transform(pos.0, pos.1, pos.2, t) of a named position (its components are checked with the identity branch)" % label, file=SHAPE, line=c["ln"])
        else:
            rule.bad("%s|transform-args" % label, "%s eval_raw calls transform(%s)" % (label, ", ".join(args)), A.where(fn, c))
        # the choice around it: with Some(t) the transformed point, with None (x, y, z) unchanged - written as
        # if-let / else, as a match, or as map_or
        holder = None
        for cand in list(A.find(fn["body"], "If")) + list(A.find(fn["body"], "Match")):
            if any(n is c for n in A.walk(cand)):
                holder = cand
                break
        mo = None
        if holder is None:
            for mc in A.find(fn["body"], "MethodCall"):
                if mc["method"] in ("map_or", "map_or_else") and len(mc["args"]) == 2 and any(n is c for n in A.walk(mc["args"][1])) and A.strip(mc["args"][1]).get("k") == "Closure":
                    mo = mc
                    break
        if mo is not None:
            clo = A.strip(mo["args"][1])
            pn = A.binding_name(clo["inputs"][0]) if len(clo.get("inputs", [])) == 1 else None
            okp = pn == args[3] and A.option_source(mo["recv"]) == "transform"
            ident = A.strip(mo["args"][0])
            if mo["method"] == "map_or_else" and ident.get("k") == "Closure":
                ident = A.strip(ident["body"])
            el = E.canon(A.unblock(ident), env)
            # a named untransformed position `let pos = (x[i], y[i], z[i]);` handed to both sides
            pos_n = A.ident(ident)
            if pos_n:
                lets_ = [l_ for l_ in A.find(fn["body"], "Let") if A.binding_name(l_["pat"]) == pos_n and l_.get("init") is not None and A.strip(l_["init"]).get("k") == "Tuple"]
                if lets_:
                    comps = [str(A.ftxt(A.strip(e_))) for e_ in A.strip(lets_[0]["init"])["elems"]]
                    el = "(%s)" % ",".join(comps)
                    raw = [str(A.ftxt(a_)) for a_ in c["args"][:3]]
                    if raw == ["%s.%d" % (pos_n, k_) for k_ in range(3)]:
                        args = comps + args[3:]
            if lanes is not None and lanes[0] and lanes[1]:
                import re as _re
                el = _re.sub(r"\b(\w+)\b", lambda m_: ("%s[%s]" % (lanes[1][m_.group(1)], lanes[0])) if m_.group(1) in lanes[1] else m_.group(0), el)
            if args[:3] != want:
                rule.bad("%s|transform-args" % label, "%s eval_raw calls transform(%s)" % (label, ", ".join(args)), A.where(fn, c))
            if el != "(%s)" % ",".join(want):
                rule.bad("%s|no-transform" % label, "%s eval_raw without a transform must pass (%s) through unchanged, found %s" % (label, ", ".join(want), el), A.where(fn, mo))
            else:
                rule.ok("%s: identity branch passes (x, y, z) through" % label)
            if not okp:
                rule.bad("%s|transform-cond" % label, "the transform must be applied whenever one is supplied", A.where(fn, mo))
        elif holder is None:
            rule.bad("%s|transform-cond" % label, "the transform must be applied exactly when one is supplied (no `Some(t)` choice found around the call)", A.where(fn, c))
        else:
            leaves = A.branch_leaves(holder)
            some = [(l, cx) for l, cx in leaves if any(n is c for n in A.walk(l)) or A.strip(l) is c]
            other = [(l, cx) for l, cx in leaves if (l, cx) not in some]
            okp = bool(some) and any(A.some_binding(p) == args[3] and A.option_source(scr) == "transform" for p, scr in some[0][1])
            el = E.canon(A.unblock(other[0][0]), env) if len(other) == 1 else "?"
            if lanes is not None and lanes[0] and lanes[1]:
                import re as _re
                el = _re.sub(r"\b(\w+)\b", lambda m_: ("%s[%s]" % (lanes[1][m_.group(1)], lanes[0])) if m_.group(1) in lanes[1] else m_.group(0), el)
            if el != "(%s)" % ",".join(want):
                rule.bad("%s|no-transform" % label, "%s eval_raw without a transform must pass (%s) through unchanged, found %s" % (label, ", ".join(want), el), A.where(fn, holder))
            else:
                rule.ok("%s: identity branch passes (x, y, z) through" % label)
            if not okp:
                rule.bad("%s|transform-cond" % label, "the transform must be applied whenever one is supplied", A.where(fn, holder))
    # bulk: Var::X => axes[0] ... ; scratch[a][i] = x
    ms = [m for m in A.find(b["body"], "Match") if any("Var::X" in A.unparse(a["pat"]) for a in m["arms"])]
    if len(ms) != 1:
        rule.lost("match var in ShapeBulkEval::eval_raw")
        return
    holders = {}
    for arm in ms[0]["arms"]:
        pt = A.ftxt(arm["pat"])
        tt = A.ftxt(A.strip(arm["body"]))
        if pt in ("Var::X", "Var::Y", "Var::Z"):
            k = "XYZ".index(pt[-1])
            body_ = A.unblock(arm["body"])
            if body_.get("k") == "Assign" and str(A.ftxt(body_["right"])) == "Some(index)" and str(A.ftxt(body_["left"])) not in holders.values():
                holders[k] = str(A.ftxt(body_["left"]))
                rule.ok("bulk: %s remembered in %s" % (pt, holders[k]), file=SHAPE, line=arm["ln"])
            else:
                rule.bad("bulk|%s" % pt, "ShapeBulkEval::eval_raw records %s as `%s`, expected a slot of its own = Some(index)" % (pt, tt), A.where(b, arm))
        elif pt.startswith("Var::V("):
            vn = pt[len("Var::V("):-1]
            if "copy_vars(&mutself.scratch[index],%s)?" % vn in tt:
                rule.ok("bulk: Var::V filled by its own id into its own row", file=SHAPE, line=arm["ln"])
            else:
                rule.bad("bulk|Var::V", "a free variable's row must be filled with copy_vars(&mut self.scratch[index], %s)?" % vn, A.where(b, arm))
    pairs = {}
    import re

    # the transformed point: `let (x, y, z) = <transform choice>` - its k-th name goes to the k-th row
    tcalls = [c for c in A.find(b["body"], "Call") if (A.path_segs(c["func"]) or [])[-2:] == ["Transformable", "transform"]]
    comp = ["x", "y", "z"]
    lane_i = "i"
    if len(tcalls) == 1:
        for l_ in A.find(b["body"], "Let"):
            p_ = l_["pat"]["pat"] if l_["pat"].get("k") == "PType" else l_["pat"]
            if l_.get("init") is not None and p_.get("k") == "PTuple" and len(p_["elems"]) == 3 and any(n is tcalls[0] for n in A.walk(l_["init"])):
                comp = [A.binding_name(x_) for x_ in p_["elems"]]
        bs_ = [b_ for b_ in (A.enclosing_binders(b["body"], tcalls[0]) or []) if b_[2].get("k") == "For"]
        ln_ = A.lane_bindings(bs_[-1][2]) if bs_ else None
        if ln_ and ln_[0]:
            lane_i = ln_[0]
    # `let [xs, ys, zs] = axes;` names the elements of the holder array
    alias = {}
    for l_ in A.find(b["body"], "Let"):
        p_ = l_["pat"]["pat"] if l_["pat"].get("k") == "PType" else l_["pat"]
        if l_.get("init") is not None and p_.get("k") in ("PSlice", "PArray") and A.ident(A.strip(l_["init"])):
            for k_, e_ in enumerate(p_.get("elems", [])):
                if A.binding_name(e_):
                    alias[A.binding_name(e_)] = "%s[%d]" % (A.ident(A.strip(l_["init"])), k_)
    for i in A.find(b["body"], "If"):
        c = A.strip(i["cond"])
        if c.get("k") != "LetCond":
            continue
        v_ = A.some_binding(c["pat"])
        src = str(A.ftxt(A.strip(c["e"])))
        src = alias.get(src, src)
        ks = [k_ for k_, h_ in holders.items() if h_ == src]
        if v_ and len(ks) == 1:
            tt = A.ftxt(i["then"])
            m2 = re.fullmatch(r"\{self\.scratch\[%s\]\[%s\]=(\w+);\}" % (re.escape(v_), re.escape(lane_i)), str(tt))
            pairs[ks[0]] = m2.group(1) if m2 else str(tt)
    for k, ax in enumerate(comp):
        if pairs.get(k) == ax:
            rule.ok("bulk: the row remembered for axis %d receives %s" % (k, ax))
        else:
            rule.bad("bulk|axes%d" % k, "the row remembered for axis %d (%s) must receive component %d of the (transformed) point `%s`, found `%s`" % (k, holders.get(k), k, ax, pairs.get(k)), A.where(b))
    # result is output 0
    t1 = A.ftxt(t["body"]["stmts"][-1])
    t2 = A.ftxt(b["body"]["stmts"][-1])
    if t1 == "Ok((out[0],trace))" and t2 == "Ok(out.borrow(0))":
        rule.ok("both wrappers return output 0")
    else:
        rule.bad("result", "shape evaluators must return output 0 (found `%s` / `%s`)" % (t1, t2), A.where(t))


def r_arg_checks(rule, root=None):
    """too few variables / mismatched slices are reported as errors; extras are allowed"""
    fn = A.find_fn(VAR, "check_tracing_arguments", self_ty="VarMap", root=root)
    ifs = list(A.find(fn["body"], "If"))
    c = A.ftxt(A.strip(ifs[0]["cond"])) if ifs else ""
    def _resolve_lets(f_, text):
        """a condition with the function's simple `let name = <call-free-of-side-effects>;` names spelled out"""
        for l_ in A.find(f_["body"], "Let"):
            n_ = A.binding_name(l_["pat"])
            if n_ and l_.get("init") is not None and not (l_["pat"].get("mut")):
                it = str(A.ftxt(l_["init"]))
                if re.fullmatch(r"[\w.]+\(\)|[\w.]+", it):
                    text = re.sub(r"(?<![\w.])%s(?![\w(])" % re.escape(n_), it, text)
        return text

    def _short_pol(c_, f_):
        t_ = A.canon_int_text(_resolve_lets(f_, str(A.ftxt(A.strip(c_)))))
        if t_ in ("vars.len()<self.len()", "(vars.len()<self.len())"):
            return 1
        if t_ in ("self.len()<=vars.len()", "(self.len()<=vars.len())", "!(vars.len()<self.len())"):
            return -1
        return 0

    def _count_by_statements(f_, err_prefix):
        """the first test of the count, in statement order, answers the error in its "short" branch"""
        for i_ in A.find(f_["body"], "If"):
            pol = _short_pol(i_["cond"], f_)
            if not pol:
                continue
            br = i_["then"] if pol > 0 else i_.get("else")
            return br is not None and err_prefix in str(A.ftxt(br)) and "Ok(" not in str(A.ftxt(br))
        return False

    def _err_exactly_when_short(f_, err_prefix, only_err=False):
        """every result of the check: the error exactly under vars.len() < self.len(), Ok(()) otherwise"""
        res = A.result_cases(f_["body"])
        errs = [(v_, cs_) for v_, cs_ in res if str(A.ftxt(v_)).startswith(err_prefix)]
        oks = [(v_, cs_) for v_, cs_ in res if str(A.ftxt(v_)) == "Ok(())"]
        e_ok = len(errs) == 1 and [A.canon_int_text(_resolve_lets(f_, str(x))) for x in errs[0][1]] == ["(vars.len()<self.len())"]
        if only_err:
            return e_ok
        return (e_ok and len(oks) == 1 and [A.canon_int_text(_resolve_lets(f_, str(x))) for x in oks[0][1]] == ["(self.len()<=vars.len())"] and len(res) == 2)

    if (c == "(vars.len()<self.len())" and "Err(TracingArgError::BadVarSlice" in A.ftxt(ifs[0]["then"]) and "Ok(())" in A.unparse(ifs[0].get("else"))) or _err_exactly_when_short(fn, "Err(TracingArgError::BadVarSlice") or _count_by_statements(fn, "Err(TracingArgError::BadVarSlice"):
        rule.ok("check_tracing_arguments: Err iff fewer slots than variables", file=VAR, line=fn["ln"])
    else:
        rule.bad("tracing-args", "check_tracing_arguments must return BadVarSlice exactly when vars.len() < self.len() (found `%s`)" % c, A.where(fn))
    fn = A.find_fn(VAR, "check_bulk_arguments", self_ty="VarMap", root=root)
    ifs = list(A.find(fn["body"], "If"))
    c = A.ftxt(A.strip(ifs[0]["cond"])) if ifs else ""
    if (c == "(vars.len()<self.len())" and "Err(BulkArgError::BadVarSlice" in A.ftxt(ifs[0]["then"])) or _err_exactly_when_short(fn, "Err(BulkArgError::BadVarSlice", only_err=True) or _count_by_statements(fn, "Err(BulkArgError::BadVarSlice"):
        rule.ok("check_bulk_arguments: Err iff fewer slices than variables", file=VAR, line=fn["ln"])
    else:
        rule.bad("bulk-args|count", "check_bulk_arguments must return BadVarSlice exactly when vars.len() < self.len()", A.where(fn))
    # no success before the count was checked: walking the body's statements in order, an `Ok(..)` may only appear in
    # the else-branch of the count test or after a count test whose failure branch returns (an empty list of slices is
    # short for any tape with variables)
    def _is_short_test(c_, f_):
        """+1: the condition says the list is short, -1: that it suffices, 0: something else"""
        t_ = A.canon_int_text(_resolve_lets(f_, str(A.ftxt(A.strip(c_)))))
        if t_ in ("vars.len()<self.len()", "(vars.len()<self.len())"):
            return 1
        if t_ in ("self.len()<=vars.len()", "(self.len()<=vars.len())", "!(vars.len()<self.len())"):
            return -1
        return 0

    def _has_ok(n_):
        return any((A.path_segs(c_["func"]) or []) == ["Ok"] for c_ in A.find(n_, "Call"))

    for f_, lab_ in ((A.find_fn(VAR, "check_tracing_arguments", self_ty="VarMap", root=root), "tracing"), (fn, "bulk")):
        checked = False
        early = None
        for st in A.stmts_of(f_["body"]):
            e_ = A.strip(st.get("e", st)) if st.get("k") == "ExprStmt" else st
            pol = _is_short_test(e_["cond"], f_) if isinstance(e_, dict) and e_.get("k") == "If" else 0
            if pol:
                short_branch = e_["then"] if pol > 0 else e_.get("else")
                if short_branch is not None and _has_ok(short_branch):
                    early = short_branch
                    break
                checked = True  # what follows (or the else branch) runs only when the count sufficed / the failure was returned
                continue
            if not checked and _has_ok(st):
                early = st
                break
        if early is not None:
            rule.bad("%s-args|early-ok" % lab_, "check_%s_arguments can answer `Ok(())` before the number of supplied values was compared with the tape's variables (`%s`): that input is then indexed by the evaluators" % (lab_, A.unparse(early)[:70].replace("\n", " ")), A.where(f_, early if isinstance(early, dict) and early.get("ln") else f_))
        else:
            rule.ok("check_%s_arguments: every Ok lies behind the count check" % lab_, file=VAR, line=f_["ln"])
    t = A.ftxt(fn["body"])
    # the reference length is the first slice's; every supplied slice is compared (evaluators read them all)
    every = ("vars.iter().enumerate().find(|(_i,v)|(v.len()!=n))" in t
             or t.fmatch("for($I,$V)invars.iter().enumerate(){if($V.len()!=n){returnErr(MismatchedSlices") is not None
             or t.fmatch("vars.iter().enumerate().find(|($I,$V)|($V.len()!=n))") is not None
             or t.fmatch("vars.iter().position(|$V|($V.len()!=n))") is not None)
    if "letSome(n)=vars.first().map(|v|v.len())else{returnOk(());}" in t and every and "MismatchedSlices" in t:
        rule.ok("check_bulk_arguments: every supplied slice is compared with the first one's length", file=VAR, line=fn["ln"])
    else:
        rule.bad("bulk-args|lengths", "check_bulk_arguments must compare the length of every supplied slice (`vars.iter()`, all of them: evaluators copy from all) with the first and report MismatchedSlices", A.where(fn))
    # ShapeBulkEval: x/y/z length mismatch reported
    _t, b0 = shape_eval_fns(root)
    b = dict(b0)
    b["body"] = A.inline_helpers(b0, private_only=False, keep=("eval", "eval_raw"))  # a length-check helper is the same checks
    errs = []
    for i in A.find(b["body"], "If"):
        c = A.ftxt(A.strip(i["cond"]))
        tt_ = str(A.ftxt(i["then"]))
        if c in ("(x.len()!=y.len())", "(x.len()!=z.len())", "(y.len()!=x.len())", "(z.len()!=x.len())", "(y.len()!=z.len())", "(z.len()!=y.len())") and ("returnErr(ShapeBulkEvalError::MismatchedVarSlices" in tt_ or "Err(ShapeBulkEvalError::MismatchedVarSlices" in tt_):
            errs.append(c)
    pairs = {frozenset(re.findall(r"\b([xyz])\.len\(\)", c_)) for c_ in errs}
    if len(errs) == 2 and pairs == {frozenset("xy"), frozenset("xz")} or len(errs) == 2 and pairs in ({frozenset("xy"), frozenset("yz")}, {frozenset("xz"), frozenset("yz")}):
        rule.ok("ShapeBulkEval::eval_raw: x/y and x/z length mismatches are errors", file=SHAPE, line=b["ln"])
    else:
        rule.bad("shape-bulk|lengths", "ShapeBulkEval::eval_raw must reject x/y and x/z length mismatches with an error value", A.where(b))


def r_no_early_ok(rule, root=None):
    """a missing or mis-sized variable is an error for *every* input: no `return Ok(..)` of the shape
    evaluators sits in front of the loop that binds the variables (an empty batch included)"""
    t_, b_ = shape_eval_fns(root)
    for fn, label in ((t_, "tracing"), (b_, "bulk")):
        ms = [m for m in A.find(fn["body"], "Match") if any("Var::V(" in A.unparse(a["pat"]) for a in m["arms"])]
        if len(ms) != 1:
            rule.lost("match var {Var::V ..} in the %s shape evaluator" % label)
            continue
        early = []
        for r in A.find(fn["body"], "Return"):
            v = A.strip(r.get("e") or {})
            # any early return that can succeed: `Ok(..)` itself, or a match / call / `?`-free expression that is not a
            # literal `Err(..)` (e.g. `return match self.eval.eval(..) { Ok(out) => Ok(..), .. }`)
            is_err = v.get("k") == "Call" and A.path_segs(v["func"]) == ["Err"]
            if not is_err and r["ln"] < ms[0]["ln"] and not any(n is r for n in A.walk(ms[0])):
                early.append(r)
        # the inner evaluator sees the rows the binding loop filled, nothing else
        for c in A.find(fn["body"], "MethodCall"):
            if c["method"] == "eval" and str(A.ftxt(c["recv"])) == "self.eval" and len(c["args"]) >= 2:
                a1 = str(A.ftxt(A.strip(c["args"][1])))
                if "scratch" not in a1:
                    rule.bad("%s|eval-args" % label, "the %s shape evaluator hands `%s` to the inner evaluator; only the scratch rows filled by the binding loop (row = the tape's own index of each variable) bind variables by identity" % (label, a1[:60]), A.where(fn, c))
        if early:
            rule.bad("%s|early-ok" % label, "the %s shape evaluator returns `%s` before its variables are bound (under `%s`): for that input a missing variable or a mis-sized variable array is silently accepted, unlike every other evaluator" % (label, A.unparse(early[0])[:40], " && ".join(A.enclosing_conds(fn["body"], early[0]) or [])), A.where(fn, early[0]))
        else:
            rule.ok("%s shape evaluator: no success return precedes the variable binding" % label, file=SHAPE, line=fn["ln"])


def r_shape_scratch(rule, root=None):
    t, b = shape_eval_fns(root)
    calls = A.linear_calls(t)
    ev = [c for c in calls if c["method"] == "eval" and c["recv"].endswith("self.eval")]
    rs = [c for c in calls if c["method"] == "resize" and c["recv"] == "self.scratch" and c["args"] and c["args"][0] in ("vs.len()", "tape.vars().len()") and not c["conds"]]
    if rs and ev and rs[0]["i"] < ev[0]["i"]:
        rule.ok("ShapeTracingEval: scratch resized to this tape's variable count before evaluating", file=SHAPE, line=rs[0]["node"]["ln"])
    else:
        rule.bad("shape-tracing|scratch", "ShapeTracingEval::eval_raw must unconditionally resize its scratch to vs.len() before evaluating", A.where(t))
    calls = A.linear_calls(b)
    ev = [c for c in calls if c["method"] == "eval" and c["recv"].endswith("self.eval")]
    rs = [c for c in calls if c["method"] == "resize_with" and c["recv"] == "self.scratch" and c["args"] and c["args"][0] in ("vs.len().max(1)", "tape.vars().len().max(1)") and not c["conds"]]
    # (facts are read with simple lets folded: `let n = x.len()` makes the batch length `x.len()`)
    rows = [c for c in calls if c["method"] == "resize" and c["args"] and c["args"][0] in ("n", "x.len()") and c["loops"] == 1 and not c["conds"]
            and c["iters"] and c["iters"][-1][0] == c["recv"] and c["iters"][-1][1] in ("&mutself.scratch", "self.scratch.iter_mut()")]
    fors = rows
    if rs and ev and rs[0]["i"] < ev[0]["i"]:
        rule.ok("ShapeBulkEval: scratch rows resized to max(variable count, 1) on every call", file=SHAPE, line=rs[0]["node"]["ln"])
    else:
        rule.bad("shape-bulk|scratch", "ShapeBulkEval::eval_raw must unconditionally resize_with its scratch to vs.len().max(1): rows left from an earlier tape are passed on to the evaluator", A.where(b))
    if rows and fors:
        rule.ok("ShapeBulkEval: every scratch row resized to the batch length")
    else:
        rule.bad("shape-bulk|rows", "ShapeBulkEval::eval_raw must resize every row of self.scratch to the batch length n", A.where(b))
