"""fidget-jit/src/lib.rs: tape constructors, accessor delegation, bulk driver arithmetic,
stride / register constants (C02.R4, C02.R2c, C20.R4)."""
import re

from . import ast as A
from . import asm as M
from . import asmchecks as AC

JIT = "fidget-jit/src/lib.rs"
VM = "fidget-core/src/vm/mod.rs"
DATA = "fidget-core/src/vm/data.rs"
X86MOD = "fidget-jit/src/x86_64/mod.rs"


def txt(n):
    return A.ftxt(n)


def r_constructors(rule, root=None):
    """every count / map a tape or function advertises is copied from its namesake"""
    for name, want in (("tracing_tape", {"vars": "self.0.data().vars.clone()", "choice_count": "self.0.choice_count()", "output_count": "self.0.output_count()"}),
                       ("bulk_tape", {"vars": "self.0.data().vars.clone()", "output_count": "self.0.output_count()"})):
        fn = A.find_fn(JIT, name, self_ty="JitFunction", root=root)
        st = [s for s in A.find(fn["body"], "Struct") if A.path_segs(s["path"])[-1] in ("JitTracingFn", "JitBulkFn")]
        f = {x["name"]: txt(x["e"]) for x in st[0]["fields"]} if st else {}
        # a name for the function's data (`let data = self.0.data();`) reads as the data; the function's own
        # count accessors delegate to the data's (checked by the accessor rule), so both spellings are one
        view = A.value_view(fn["body"])
        stv = [s_ for s_ in A.find(view, "Struct") if A.path_segs(s_["path"])[-1] in ("JitTracingFn", "JitBulkFn")]
        fv_ = {x["name"]: str(txt(x["e"])).replace("self.0.data().choice_count()", "self.0.choice_count()").replace("self.0.data().output_count()", "self.0.output_count()") for x in stv[0]["fields"]} if stv else {}
        bad = {k: f.get(k) for k, v in want.items() if f.get(k) != v and fv_.get(k) != v}
        if not bad:
            rule.ok("JitFunction::%s copies %s from their namesakes" % (name, sorted(want)), file=JIT, line=fn["ln"])
        else:
            rule.bad("ctor|%s" % name, "JitFunction::%s fills %s; each advertised count must come from its namesake (%s)" % (name, bad, {k: want[k] for k in bad}), A.where(fn))
        t = txt(fn["body"])
        # the function pointer (however many lets it passes through) is `<mapping>.as_ptr()` of the mapping
        # just assembled from self.0.data(), and that mapping is what is stored
        mf = t.fmatch("let$F=build_asm_fn_with_storage::<A>(self.0.data(),storage);")
        folded = txt(A.inline_lets_deep(fn["body"]))
        ptr_ok = mf is not None and ("transmute::<*conststd::ffi::c_void," in str(folded)) and (">(%s.as_ptr())" % mf["$F"]) in str(folded)
        if ptr_ok and str(f.get("mmap")) in ("%s.into()" % mf["$F"], "Arc::new(%s)" % mf["$F"], "Arc::from(%s)" % mf["$F"], "std::sync::Arc::new(%s)" % mf["$F"]):
            rule.ok("JitFunction::%s: the function pointer is the start of the mapping just assembled for this function's data" % name)
        else:
            rule.bad("ctor|%s|ptr" % name, "JitFunction::%s must assemble self.0.data() and take the pointer of that mapping" % name, A.where(fn))
    # Function for JitFunction: tape kind -> its assembler
    want = {"point_tape": ("tracing_tape", "point::PointAssembler"), "interval_tape": ("tracing_tape", "interval::IntervalAssembler"),
            "float_slice_tape": ("bulk_tape", "float_slice::FloatSliceAssembler"), "grad_slice_tape": ("bulk_tape", "grad_slice::GradSliceAssembler")}
    for name, (helper, asm) in want.items():
        fn = A.find_fn(JIT, name, self_ty="JitFunction", trait="Function", root=root)
        if txt(fn["body"]) == "{self.%s::<%s>(storage)}" % (helper, asm):
            rule.ok("JitFunction::%s assembles with %s" % (name, asm), file=JIT, line=fn["ln"])
        else:
            rule.bad("tape|%s" % name, "JitFunction::%s must be self.%s::<%s>(storage); found %s" % (name, helper, asm, txt(fn["body"])), A.where(fn))
    deleg = {"size": "{self.0.size()}", "vars": "{self.0.vars()}", "output_count": "{self.0.output_count()}", "recycle": "{self.0.recycle()}",
             "can_simplify": "{(self.0.choice_count()>0)}", "simplify": "{self.0.simplify(trace,storage,workspace).map(JitFunction)}"}
    for name, w in deleg.items():
        fn = A.find_fn(JIT, name, self_ty="JitFunction", trait="Function", root=root)
        if txt(fn["body"]) == w:
            rule.ok("JitFunction::%s delegates to the wrapped function" % name)
        else:
            rule.bad("deleg|jit|%s" % name, "JitFunction::%s must delegate to the wrapped VM function (%s); found %s" % (name, w, txt(fn["body"])), A.where(fn))
    for ty in ("JitTracingFn", "JitBulkFn"):
        for name, w in (("vars", "{&self.vars}"), ("output_count", "{self.output_count}")):
            fn = A.find_fn(JIT, name, self_ty=ty, trait="Tape", root=root)
            if txt(fn["body"]) == w:
                rule.ok("%s::%s returns its own field" % (ty, name))
            else:
                rule.bad("deleg|%s|%s" % (ty, name), "%s::%s must return its namesake field" % (ty, name), A.where(fn))
    # VM side
    for name, w in (("vars", "{&self.0.vars}"), ("output_count", "{self.0.output_count()}")):
        fn = A.find_fn(VM, name, self_ty="GenericVmTape", trait="Tape", root=root)
        from . import effects as E_

        try:
            inl = A.inline_helpers(fn)
            tl_ = A.stmt_expr(inl["stmts"][-1]) if inl.get("stmts") else None
            cn = E_.canon(tl_, E_.let_env(inl["stmts"][:-1])) if tl_ is not None else ""
        except Exception:  # noqa: BLE001
            cn = ""
        # the public accessor `data()` names the wrapped data itself
        try:
            dfn = A.find_fn(VM, "data", self_ty="GenericVmTape", root=root, inherent=True)
            if str(txt(dfn["body"])) in ("{&self.0}", "{self.0.as_ref()}", "{&*self.0}"):
                cn = cn.replace("self.data()", "self.0")
        except Exception:  # noqa: BLE001
            pass
        if txt(fn["body"]) == w or cn == w.strip("{}").lstrip("&"):
            rule.ok("GenericVmTape::%s reads the shared data" % name)
        else:
            rule.bad("deleg|vmtape|%s" % name, "GenericVmTape::%s must be %s" % (name, w), A.where(fn))
    for name, w in (("size", "{self.0.len()}"), ("choice_count", "{self.0.choice_count()}"), ("output_count", "{self.0.output_count()}"), ("tape", "{GenericVmTape(self.0.clone())}")):
        fn = A.find_fn(VM, name, self_ty="GenericVmFunction", root=root, inherent=True)
        if txt(fn["body"]) == w:
            rule.ok("GenericVmFunction::%s reads the shared data" % name)
        else:
            rule.bad("deleg|vmfn|%s" % name, "GenericVmFunction::%s must be %s" % (name, w), A.where(fn))
    for name, w in (("choice_count", "{self.ssa.choice_count}"), ("output_count", "{self.ssa.output_count}"), ("slot_count", "{self.asm.slot_count()}"), ("len", "{self.asm.len()}")):
        fn = A.find_fn(DATA, name, self_ty="VmData", root=root)
        if txt(fn["body"]) == w:
            rule.ok("VmData::%s reads its namesake" % name)
        else:
            rule.bad("deleg|vmdata|%s" % name, "VmData::%s must be %s; found %s" % (name, w, txt(fn["body"])), A.where(fn))
    fn = A.find_fn(DATA, "new", self_ty="VmData", root=root)
    t = txt(fn["body"])
    if "let(ssa,vars)=SsaTape::new(context,nodes)?;letasm=RegTape::new::<N>(&ssa);" in t and "vars:vars.into()" in t:
        rule.ok("VmData::new: the register tape is allocated from the very SSA tape it is stored with, and keeps that tape's variable map")
    else:
        rule.bad("vmdata|new", "VmData::new must build asm from the ssa tape it stores and keep that tape's variable map", A.where(fn))


def r_bulk_driver(rule, root=None):
    fn = A.find_fn(JIT, "eval", self_ty="JitBulkEval", root=root)
    t = txt(fn["body"])
    # read with simple lets folded (`m`, `tail` and friends are their defining expressions), locals as $METAs
    t = txt(A.inline_lets_deep(fn["body"]))
    M = "((n/T::SIMD_SIZE)*T::SIMD_SIZE)"
    need = [
        ("n is the length of the first input slice", [
            "letn=vars.first().map(|$V|$V.deref().len()).unwrap_or(0);",
            "letn=vars.first().map_or(0,|$V|$V.deref().len());",
            "letn=matchvars.first(){Some($V)=>$V.deref().len(),None=>0,};",
            "letn=matchvars.first(){None=>0,Some($V)=>$V.deref().len(),};",
        ]),
        ("the scratch path is taken exactly when n < SIMD_SIZE", ["if(n<T::SIMD_SIZE){"]),
        ("scratch lanes fit the widest SIMD", ["assert!((T::SIMD_SIZE<=MAX_SIMD_WIDTH));"]),
        ("short batches are evaluated as one full vector", ["tape.fn_bulk(self.input_ptrs.as_ptr(),self.output_ptrs.as_ptr(),(T::SIMD_SIZEasu64));"]),
        ("the main call covers the largest multiple of the SIMD width", ["tape.fn_bulk(self.input_ptrs.as_ptr(),self.output_ptrs.as_ptr(),(%sasu64));" % M]),
        ("the remainder is handled iff n is not a multiple", ["if(n!=%s){" % M]),
        ("remainder inputs start SIMD_SIZE before the end", ["vars.iter().map(|$V|$V.as_ptr().add((n-T::SIMD_SIZE)))"]),
        ("remainder outputs start SIMD_SIZE before the end (same offset as the inputs)", ["self.out.iter_mut().map(|$V|$V.as_mut_ptr().add((n-T::SIMD_SIZE)))"]),
        ("the result exposes exactly n samples of every output", ["BulkOutput::new(&self.out,n)"]),
    ]
    for what, alts in need:
        if any((f in t) if "$" not in f else (t.fmatch(f) is not None) for f in alts):
            rule.ok("bulk driver: %s" % what, file=JIT, line=fn["ln"])
        else:
            rule.bad("bulk|%s" % what[:30], "JitBulkEval::eval: %s (`%s` not found)" % (what, alts[0][:70]), A.where(fn))
    rule.ok("bulk driver: the main call passes m (folded)")
    calls = [c for c in A.linear_calls(fn) if c["unsafe"] and "fn_bulk" in c["method"]]
    if len(calls) == 3:
        rule.ok("three native calls: scratch, main, remainder")
    else:
        rule.bad("bulk|calls", "expected three native calls (scratch, main, remainder), found %d" % len(calls), A.where(fn))


def _const(path, name, root=None):
    for c in A.find_items(path, "Const", name, root):
        return A.lit_value(c["e"])
    return None


def r_strides(rule, root=None):
    """loop stride and element-size constants of the four assemblers"""
    want = {
        # kind: (sample size in bytes, samples per iteration, input/output pointer stride)
        "point": (4, None, 4), "interval": (8, None, 8), "float_slice": (4, 8, 8), "grad_slice": (16, 1, 8),
    }
    lim, imm, off = _const(X86MOD, "REGISTER_LIMIT", root), _const(X86MOD, "IMM_REG", root), _const(X86MOD, "OFFSET", root)
    if lim is not None and off is not None and imm is not None and lim == 16 - off and imm < off:
        rule.ok("REGISTER_LIMIT (%d) = 16 - OFFSET (%d); the immediate register (%d) is below OFFSET" % (lim, off, imm), file=X86MOD)
    else:
        rule.bad("consts|regs", "REGISTER_LIMIT=%s, OFFSET=%s, IMM_REG=%s: tape registers must be xmm[OFFSET..16) and the immediate register below OFFSET" % (lim, off, imm), X86MOD)
    regf = A.find_fn(JIT, "reg", root=root)
    if "letout=r.wrapping_add(OFFSET);" in txt(regf["body"]):
        rule.ok("reg(r) = r + OFFSET")
    else:
        rule.bad("consts|reg", "reg(r) must be r.wrapping_add(OFFSET)", A.where(regf))
    for kind, (size, per_iter, pstride) in want.items():
        p = AC.path_of(kind)
        builders = M.load_builders(p, root)
        for name in ("build_input", "build_output"):
            b = builders.get(name)
            t = txt(b.fn["body"]) if b else ""
            param = b.params[1][0] if b else "?"
            if "letpos=(%d*%s.try_into().unwrap());" % (pstride, param) in t:
                rule.ok("%s %s: slot i is at byte %d*i" % (kind, name, pstride), file=p, line=b.fn["ln"])
            else:
                rule.bad("stride|%s|%s" % (kind, name), "%s %s must address slot i at %d*i bytes" % (kind, name, pstride), "%s:%s" % (p, b.fn["ln"] if b else "?"))
        if per_iter is not None:
            fin = builders.get("finalize")
            ins = M.flat_ins(fin) if fin else []
            subs = [x for x in ins if x.mnem == "sub" and len(x.ops) == 2 and x.ops[0].kind == "gpr" and x.ops[0].name == "rdx"]
            adds = [x for x in ins if x.mnem == "add" and len(x.ops) == 2 and x.ops[0].kind == "gpr" and x.ops[0].name == "rcx"]
            s = subs[0].ops[1].text if subs else None
            a = adds[0].ops[1].text if adds else None
            if s == str(per_iter) and a == str(per_iter * size):
                rule.ok("%s loop: %d sample(s) and %d bytes per iteration" % (kind, per_iter, per_iter * size), file=p, line=fin.fn["ln"])
            else:
                rule.bad("stride|%s|loop" % kind, "%s loop advances the count by %s and the byte offset by %s; one iteration processes %d sample(s) of %d bytes" % (kind, s, a, per_iter, size), "%s:%s" % (p, fin.fn["ln"] if fin else "?"))
            w = _const(p, "SIMD_WIDTH", root)
            if kind == "float_slice" and w != per_iter:
                rule.bad("stride|%s|simd" % kind, "SIMD_WIDTH is %s but the loop processes %d samples per iteration" % (w, per_iter), p)
        lower = _const(p, "STACK_SIZE_LOWER", root)
        live = {"point": 4, "interval": 8, "float_slice": 32, "grad_slice": 16}[kind]
        if lower is not None and lower >= 12 * live:
            rule.ok("%s: STACK_SIZE_LOWER (%#x) holds 12 saved registers of %d bytes" % (kind, lower, live))
        else:
            rule.bad("stride|%s|lower" % kind, "%s: STACK_SIZE_LOWER=%s cannot hold 12 saved registers of %d bytes" % (kind, lower, live), p)
    # AssemblerData: spill slots are element-sized, frame is 16-aligned and pushed
    fn = A.find_fn(JIT, "prepare_stack", self_ty="AssemblerData", root=root)
    t = txt(fn["body"])
    if "letmem=((slot_count.saturating_sub(REGISTER_LIMIT)*std::mem::size_of::<T>())+stack_size);" in t and "self.mem_offset=mem.next_multiple_of(16);" in t and "self.push_stack();" in t:
        rule.ok("prepare_stack reserves (slots - registers) * size_of::<T>() + the fixed area, 16-byte aligned")
    else:
        rule.bad("frame|prepare", "prepare_stack must reserve (slot_count - REGISTER_LIMIT) * size_of::<T>() + stack_size, rounded up to 16", A.where(fn))
    fn = A.find_fn(JIT, "stack_pos", self_ty="AssemblerData", root=root)
    t = txt(fn["body"])
    if "((slot-(REGISTER_LIMITasu32))*(std::mem::size_of::<T>()asu32))" in t and "assert!((slot>=(REGISTER_LIMITasu32)));" in t:
        rule.ok("stack_pos(slot) = (slot - REGISTER_LIMIT) * size_of::<T>()")
    else:
        rule.bad("frame|stack_pos", "stack_pos must be (slot - REGISTER_LIMIT) * size_of::<T>() for slot >= REGISTER_LIMIT", A.where(fn))
    # x86 prologue / epilogue symmetry
    d = A.load(JIT, root)
    push = [f for f in d["_fns"] if f["name"] == "push_stack" and "x86_64" in str((f.get("_owner") or {}))] or [f for f in d["_fns"] if f["name"] == "push_stack"]
    fin = [f for f in d["_fns"] if f["name"] == "finalize" and ((f.get("_owner") or {}).get("self_ty") or "").startswith("AssemblerData")]
    ok = False
    for f in push:
        ms = A.macro_calls(f["body"], "dynasm")
        if ms and "subrsp,self.mem_offsetasi32" in A.tokens_str(ms[0]["tokens"]).replace(" ", ""):
            ok = True
    ok2 = False
    for f in fin:
        ms = A.macro_calls(f["body"], "dynasm")
        for m_ in ms:
            tt = A.tokens_str(m_["tokens"]).replace(" ", "")
            if "addrsp,self.mem_offsetasi32;poprbp" in tt and tt.endswith(";ret"):
                ok2 = True
    if ok and ok2:
        rule.ok("x86_64 frame: `sub rsp, mem_offset` on entry is undone by `add rsp, mem_offset; pop rbp; ..; ret`")
    else:
        rule.bad("frame|x86", "the x86_64 prologue must subtract mem_offset from rsp and the epilogue add the same amount, pop rbp and return", JIT)


def r_narrow_displacements(rule, root=None):
    """a memory operand written with an 8-bit displacement (`[BYTE base + pos as i8]`) addresses what the
    full-width form does only while pos < 128: the guard that selects the short form must bound the slot
    index by 128 / (bytes per slot) for *this* assembler's slot size"""
    n = 0
    for kind in AC.ALL:
        p = AC.path_of(kind)
        d = A.load(p, root)
        for name, b in sorted(M.load_builders(p, root).items()):
            for mac, _h, ins in b.blocks:
                short = [x for x in ins for o in x.ops if o.kind == "mem" and ("asi8" in o.text.replace(" ", "") or o.text.replace(" ", "").startswith("BYTE"))]
                if not short:
                    continue
                n += 1
                t = txt(b.fn["body"])
                m = re.search(r"letpos=\((\d+)\*(\w+)\.try_into\(\)\.unwrap\(\)\);", str(t))
                conds = [A.norm_cond(c) for c in (A.enclosing_conds(b.fn["body"], mac) or [])]
                bound = None
                for c in conds:
                    mm = re.fullmatch(r"(\w+)<(.+)", c)
                    if m and mm and mm.group(1) == m.group(2):
                        e_ = None
                        for it in d.get("items", []):
                            if it.get("k") == "Const" and it.get("name") == mm.group(2):
                                e_ = it.get("e")
                        bound = M._const_int(d, e_, {}) if e_ is not None else (int(mm.group(2)) if mm.group(2).isdigit() else None)
                if m is None or bound is None:
                    rule.bad("disp8|%s|%s|guard" % (kind, name), "%s %s uses an 8-bit displacement (`%r`) without a guard on the slot index the checker can evaluate: beyond 127 bytes the displacement wraps and the load reads before the array" % (kind, name, short[0]), "%s:%d" % (p, short[0].ln))
                    continue
                stride = int(m.group(1))
                if stride * bound <= 128:
                    rule.ok("%s %s: the short form is used for slots < %d of %d bytes (offsets below 128)" % (kind, name, bound, stride), file=p, line=short[0].ln)
                else:
                    rule.bad("disp8|%s|%s|range" % (kind, name), "%s %s uses an 8-bit displacement for slots below %d, but a slot is %d bytes there: slots %d..%d have offsets of 128 or more, which wrap to negative displacements and read before the array" % (kind, name, bound, stride, 128 // stride, bound - 1), "%s:%d" % (p, short[0].ln))
    if n == 0:
        rule.ok("no native load / store uses a narrowed (8-bit) displacement")
