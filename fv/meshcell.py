"""C08 - the mesher's index vocabulary, the generated connectivity table's writer against its readers, the cell
geometry and the collapse predicates (constant folding over finite domains, see fv/bitfold.py)."""
import re

from . import ast as A
from . import bitfold as BF
from .bitfold import TV, Fold, Stop, Unreachable

TYPES = BF.TYPES
FRAME = BF.FRAME
BUILD = "fidget-mesh/build.rs"
CELL = "fidget-mesh/src/cell.rs"
OCT = "fidget-mesh/src/octree.rs"
DC = "fidget-mesh/src/dc.rs"

AX = (1, 2, 4)


def _nx(a):
    return {1: 2, 2: 4, 4: 1}[a]


def _undirected(start, end):
    """documented packing: 4 t + 2 v + 1 u with (t, u, v) right-handed, bits taken from the start corner"""
    t = start ^ end
    u = _nx(t)
    v = _nx(u)
    return 4 * AX.index(t) + (1 if start & u else 0) + (2 if start & v else 0)


def directed_edges():
    return [(s, s ^ t) for s in range(8) for t in AX]


def _n(v):
    return v.n if isinstance(v, TV) else v


def r9_vocabulary(rule, root=None):
    F = Fold([TYPES, FRAME], root)
    try:
        X, Y, Z = (F.const(n) for n in "XYZ")
    except Stop as e:
        rule.lost("axis constants X / Y / Z in types.rs (%s)" % e)
        return
    if [_n(X), _n(Y), _n(Z)] == [1, 2, 4]:
        rule.ok("X, Y, Z are the one-hot bits 1, 2, 4 (corner i has bit a set iff it is on the upper side of axis a)", file=TYPES)
    else:
        rule.bad("axes|values", "X, Y, Z must be the bits 1, 2, 4; found %s" % [X, Y, Z], A.where(TYPES))
    B = Fold([BUILD], root)
    try:
        bx = [B.const(n) for n in "XYZ"]
        if bx == [1, 2, 4]:
            rule.ok("the table generator uses the same axis bits", file=BUILD)
        else:
            rule.bad("axes|build.rs", "build.rs declares X, Y, Z = %s; the library uses 1, 2, 4" % bx, A.where(BUILD))
    except Stop as e:
        rule.lost("axis constants in build.rs (%s)" % e)
    # next: the left rotation X -> Y -> Z -> X, in both places
    nx = F.method("Axis", "next")
    if nx is None:
        rule.lost("Axis::next")
    else:
        for a in AX:
            try:
                got = _n(F.call_fn(nx, TV("Axis", a), []))
            except (Stop, Unreachable) as e:
                rule.bad("Axis::next|%d|fold" % a, "Axis::next cannot be folded for axis bit %d: %s" % (a, e), A.where(nx))
                continue
            if got == _nx(a):
                rule.ok("Axis::next(%d) = %d" % (a, got), file=TYPES, line=nx["ln"])
            else:
                rule.bad("Axis::next|%d" % a, "Axis::next of axis bit %d is %s; a right-handed (t, u, v) needs the rotation X -> Y -> Z -> X (%d)" % (a, got, _nx(a)), A.where(nx))
    bn = B.free_fn("next")
    if bn is None:
        rule.lost("fn next in build.rs")
    else:
        for a in AX:
            try:
                got = B.call_fn(bn, None, [a])
            except (Stop, Unreachable) as e:
                rule.bad("build.rs|next|%d|fold" % a, "next() in build.rs cannot be folded for %d: %s" % (a, e), A.where(bn))
                continue
            if got == _nx(a):
                rule.ok("build.rs next(%d) = %d, as Axis::next" % (a, got), file=BUILD, line=bn["ln"])
            else:
                rule.bad("build.rs|next|%d" % a, "next(%d) in the table generator is %s, Axis::next gives %d: the table would be built in another frame than it is read in" % (a, got, _nx(a)), A.where(bn))
    # frames
    for name, want in (("XYZ", (1, 2, 4)), ("YZX", (2, 4, 1)), ("ZXY", (4, 1, 2))):
        fn = F.method(name, "frame")
        if fn is None:
            rule.lost("%s::frame" % name)
            continue
        try:
            got = tuple(_n(x) for x in F.call_fn(fn, None, []))
        except (Stop, Unreachable, TypeError) as e:
            rule.bad("frame|%s|fold" % name, "%s::frame() cannot be folded: %s" % (name, e), A.where(fn))
            continue
        if got == want:
            rule.ok("%s::frame() = %s" % (name, got), file=FRAME, line=fn["ln"])
        else:
            rule.bad("frame|%s" % name, "%s::frame() is %s, its name says %s" % (name, got, want), A.where(fn))
    # operator impls on the whole domain
    def binop(tr, mn, lt, rt):
        return F.op_impl(tr, lt, rt, mn)

    pairs = [
        ("Corner & Axis", binop("BitAnd", "bitand", "Corner", "Axis"), [(TV("Corner", c), TV("Axis", a)) for c in range(8) for a in AX], lambda c, a: (c & a) != 0),
        ("Axis & Corner", binop("BitAnd", "bitand", "Axis", "Corner"), [(TV("Axis", a), TV("Corner", c)) for c in range(8) for a in AX], lambda a, c: (c & a) != 0),
        ("Axis | Axis", binop("BitOr", "bitor", "Axis", "Axis"), [(TV("Axis", a), TV("Axis", b)) for a in AX for b in AX], lambda a, b: a | b),
        ("Axis | Corner", binop("BitOr", "bitor", "Axis", "Corner"), [(TV("Axis", a), TV("Corner", c)) for a in AX for c in range(8)], lambda a, c: a | c),
        ("Corner | Corner", binop("BitOr", "bitor", "Corner", "Corner"), [(TV("Corner", a), TV("Corner", c)) for a in range(8) for c in range(8)], lambda a, c: a | c),
        ("Corner | Axis", binop("BitOr", "bitor", "Corner", "Axis"), [(TV("Corner", c), TV("Axis", a)) for a in AX for c in range(8)], lambda c, a: a | c),
        ("Axis * bool", binop("Mul", "mul", "Axis", "bool"), [(TV("Axis", a), b) for a in AX for b in (False, True)], lambda a, b: a if b else 0),
        ("CellMask & Corner", binop("BitAnd", "bitand", "CellMask", "Corner"), [(TV("CellMask", m), TV("Corner", c)) for m in range(256) for c in range(8)], lambda m, c: (m >> c) & 1 == 1),
    ]
    for what, fn, dom, want in pairs:
        if fn is None:
            rule.lost("impl for `%s` in types.rs" % what)
            continue
        badv = None
        try:
            for a, b in dom:
                got = _n(F.call_fn(fn, a, [b]))
                w = want(_n(a), _n(b))
                if got != w or isinstance(got, bool) != isinstance(w, bool):
                    badv = (a, b, got, w)
                    break
        except (Stop, Unreachable) as e:
            rule.bad("op|%s|fold" % what, "`%s` cannot be folded: %s" % (what, e), A.where(fn))
            continue
        if badv is None:
            rule.ok("`%s` is the bit operation its use assumes, on all %d operand pairs" % (what, len(dom)), file=TYPES, line=fn["ln"])
        else:
            rule.bad("op|%s" % what, "`%s`: %s op %s gives %s, the bit meaning is %s" % ((what,) + badv), A.where(fn))
    # edges: corners() and to_undirected() are inverse, and follow the documented packing
    tu = F.method("DirectedEdge", "to_undirected")
    ec = F.method("Edge", "corners")
    if tu is None or ec is None:
        rule.lost("DirectedEdge::to_undirected / Edge::corners")
        return
    seen = {}
    for s, e in directed_edges():
        try:
            got = _n(F.call_fn(tu, {"__ty": "DirectedEdge", "start": TV("Corner", s), "end": TV("Corner", e)}, []))
        except (Stop, Unreachable) as ex:
            rule.bad("to_undirected|%d-%d|fold" % (s, e), "to_undirected cannot be folded for %d -> %d: %s" % (s, e, ex), A.where(tu))
            continue
        w = _undirected(s, e)
        if got == w:
            rule.ok("to_undirected(%d -> %d) = %d = 4 t + 2 [v] + [u]" % (s, e, got), file=TYPES, line=tu["ln"])
        else:
            rule.bad("to_undirected|%d-%d" % (s, e), "edge %d -> %d is packed as %s; the documented packing 4 t + 2 v + u (bits of the start corner, (t, u, v) right-handed) gives %d - the hermite data and the connectivity table would be indexed differently" % (s, e, got, w), A.where(tu))
        seen.setdefault(got, []).append((s, e))
    for en in range(12):
        try:
            s, e = (_n(x) for x in F.call_fn(ec, TV("Edge", en), []))
        except (Stop, Unreachable, TypeError) as ex:
            rule.bad("corners|%d|fold" % en, "Edge::corners cannot be folded for edge %d: %s" % (en, ex), A.where(ec))
            continue
        t = AX[en // 4]
        if (s ^ e) == t and not s & t and _undirected(s, e) == en:
            rule.ok("Edge(%d).corners() = (%d, %d): the lower and upper end of that edge" % (en, s, e), file=TYPES, line=ec["ln"])
        else:
            rule.bad("corners|%d" % en, "Edge(%d).corners() = (%d, %d); edge %d runs along axis bit %d from the corner without that bit, and must pack back to %d" % (en, s, e, en, t, en), A.where(ec))


def _find_let(fn, name):
    return [l for l in A.find(fn["body"], "Let") if A.binding_name(l["pat"]) == name and l.get("init") is not None]


def r10_table(rule, root=None):
    """build.rs writes CELL_TO_VERT_TO_EDGES / CELL_TO_EDGE_TO_VERT; Leaf::edge, OctreeBuilder::leaf, the collapse
    and the dual walk read them"""
    try:
        main = A.find_fn(BUILD, "main", root=root)
    except A.AnchorLost as e:
        rule.lost(str(e))
        return
    B = Fold([BUILD], root)
    # (a) the packed edge number, on all 24 directed edges
    el = _find_let(main, "edge")
    if len(el) != 1:
        rule.lost("`let edge = ..` in build.rs main")
    else:
        el = el[0]
        # the lets it depends on, in the same block
        blk = None
        for b in A.find(main["body"], "Block"):
            if any(s is el for s in b["stmts"]):
                blk = b
        deps = [s for s in blk["stmts"] if s.get("k") == "Let" and s.get("ln", 0) < el["ln"] and A.binding_name(s["pat"]) in ("t", "u", "v")] if blk else []
        nbad = 0
        for s, e in directed_edges():
            env = {"start": s, "end": e}
            try:
                f = B.sub(env)
                for d in deps:
                    f.bind(d["pat"], f.ev(d["init"]))
                got = f.ev(el["init"])
            except (Stop, Unreachable) as ex:
                rule.bad("build.rs|edge|fold", "the edge number in build.rs cannot be folded: %s" % ex, A.where(BUILD, el))
                nbad = -1
                break
            if got != _undirected(s, e):
                nbad += 1
                if nbad == 1:
                    rule.bad("build.rs|edge|%d-%d" % (s, e), "the generator files edge %d -> %d under slot %s of CELL_TO_EDGE_TO_VERT; DirectedEdge::to_undirected (the reader's key) gives %d" % (s, e, got, _undirected(s, e)), A.where(BUILD, el))
        if nbad == 0:
            rule.ok("the table generator's edge slot equals DirectedEdge::to_undirected on all 24 directed edges", file=BUILD, line=el["ln"])
    # (b) + (c) the enumeration loop: every directed edge once, recorded iff start is inside and end outside
    loops = [f for f in A.find(main["body"], "For") if A.ftxt(f["iter"]) == "[false,true]" or A.binding_name(f["pat"]) == "rev"]
    if len(loops) != 1:
        rule.lost("the `for rev in [false, true]` enumeration of directed edges in build.rs")
    else:
        lp = loops[0]
        ifs = [i for i in A.find(lp["body"], "If") if "push" in A.ftxt(i["then"])]
        if len(ifs) != 1:
            rule.lost("the guarded `verts.entry(..).push((start, end))` in build.rs")
        else:
            guard = ifs[0]
            push = [c for c in A.find(guard["then"], "MethodCall") if c["method"] == "push"]
            visited = []

            def hook(node, interp):
                if node is guard:
                    visited.append(dict(interp.env))
                    return None
                return NotImplemented

            try:
                f = Fold([BUILD], root, {"i": 0}, hook)
                f.ev(lp)
            except (Stop, Unreachable) as ex:
                rule.bad("build.rs|enumeration|fold", "the edge enumeration cannot be folded: %s" % ex, A.where(BUILD, lp))
                visited = None
            if visited is not None:
                got = sorted((v.get("start"), v.get("end")) for v in visited)
                if got == sorted(directed_edges()):
                    rule.ok("the generator visits each of the 24 directed cell edges exactly once", file=BUILD, line=lp["ln"])
                else:
                    miss = sorted(set(directed_edges()) - set(got))
                    rule.bad("build.rs|enumeration", "the generator's loops visit %d (start, end) pairs; the 24 directed edges of a cell are expected once each (missing: %s)" % (len(got), miss[:4]), A.where(BUILD, lp))
                # the guard, for every mask: evaluated where it stands, so that lets naming its parts are honoured
                wrong = None
                masks_ = range(256) if getattr(getattr(rule, "ctx", None), "tier", "quick") == "thorough" else (0, 1, 2, 0x55, 0xAA, 0x0F, 0xF0, 0x69, 0x96, 0x80, 0x7F, 0xFE, 0xFF, 0x3C, 0x11)
                for i in masks_:
                    seen_g = []

                    def ghook(node, interp, seen_g=seen_g):
                        if node is guard:
                            seen_g.append((interp.env.get("start"), interp.env.get("end"), interp.ev(guard["cond"])))
                            return None
                        return NotImplemented

                    try:
                        Fold([BUILD], root, {"i": i}, ghook).ev(lp)
                    except (Stop, Unreachable) as ex:
                        wrong = ("fold", str(ex))
                        break
                    for s_, e_, c in seen_g:
                        w = bool(i >> s_ & 1) and not bool(i >> e_ & 1)
                        if c != w:
                            wrong = (i, s_, e_, c)
                            break
                    if wrong:
                        break
                if wrong is None:
                    rule.ok("an edge gets a vertex exactly when its start corner is inside (mask bit set) and its end corner outside", file=BUILD, line=guard["ln"])
                elif wrong[0] == "fold":
                    rule.bad("build.rs|guard|fold", "the crossing test cannot be folded: %s" % wrong[1], A.where(BUILD, guard))
                else:
                    rule.bad("build.rs|guard", "mask %#x, edge %d -> %d: the generator's crossing test says %s; an edge crosses the surface (inside -> outside) iff bit start is set and bit end is clear" % wrong, A.where(BUILD, guard))
                if push and re.fullmatch(r"\(start,end\)", A.ftxt(push[0]["args"][0])):
                    rule.ok("the crossing is recorded as (start, end) = (inside, outside)", file=BUILD, line=push[0]["ln"])
                else:
                    rule.bad("build.rs|push", "the crossing must be recorded as (start, end)", A.where(BUILD, guard))
    # (d) offsets: vertex k of the list; intersection = vert_count + running count in table order
    t = A.ftxt(main["body"])
    m = t.fmatch("edge_map[edge]=Some(($V.try_into().unwrap(),($C+$N).try_into().unwrap()));")
    if m is None:
        rule.lost("`edge_map[edge] = Some((vert, vert_count + intersection_count))` in build.rs")
    else:
        V, C, N = m["$V"], m["$C"], m["$N"]
        facts = [
            ("the intersection offsets start after the cell's vertices", ["let%s=verts.len();" % C, "let%s=verts.len();" % N]),
            ("one intersection offset per recorded edge", ["(%s+=1);" % N, "(%s+=1);" % C]),
            ("edges are listed per vertex in the order their offsets were handed out", "vert_entry.push(((startasu8),(endasu8)));"),
        ]
        for what, frags in facts:
            frags = frags if isinstance(frags, list) else [frags]
            if any((fr in t) if "$" not in fr else (t.fmatch(fr) is not None) for fr in frags):
                rule.ok(what, file=BUILD)
            else:
                rule.bad("build.rs|offsets|%s" % what[:28], "build.rs: %s (`%s` not found)" % (what, frags[0]), A.where(BUILD, main))
        enum = [f for f in A.find(main["body"], "For") if A.ftxt(f["iter"]) == "verts.iter().enumerate()" and f["pat"].get("k") == "PTuple" and A.binding_name(f["pat"]["elems"][0]) == V]
        if len(enum) == 1 and any(s_ is not None for s_ in [t.fmatch("edge_map[edge]=Some((%s.try_into().unwrap()," % V)]):
            rule.ok("the vertex offset is the position of the vertex in the cell's list", file=BUILD, line=enum[0]["ln"])
        else:
            rule.bad("build.rs|offsets|vertex", "the vertex offset stored for an edge must be the enumerate() index of the vertex in `verts`", A.where(BUILD, main))
        # both counters start where the layout says
        zero = [l for l in A.find(main["body"], "Let") if A.binding_name(l["pat"]) in (N, C) and l.get("init") is not None and A.ftxt(l["init"]) == "0"]
        if len(zero) == 1:
            rule.ok("the running intersection count starts at 0 for every cell configuration", file=BUILD, line=zero[0]["ln"])
        else:
            rule.bad("build.rs|offsets|start", "the running intersection count must start at 0 inside the per-configuration loop", A.where(BUILD, main))
    # readers
    try:
        le = A.find_fn(CELL, "edge", self_ty="Leaf", root=root)
        if A.ftxt(A.inline_lets_deep(le["body"])) == "{CELL_TO_EDGE_TO_VERT[self.mask.index()][e.index()]}":
            rule.ok("Leaf::edge looks the edge up under this leaf's own mask", file=CELL, line=le["ln"])
        else:
            rule.bad("Leaf::edge", "Leaf::edge must be CELL_TO_EDGE_TO_VERT[self.mask.index()][e.index()]", A.where(le))
    except A.AnchorLost as e:
        rule.lost(str(e))
    _layout(rule, root)
    _dc_offsets(rule, root)


def _layout(rule, root):
    """a leaf's vertices: [cell vertices in table order | one per crossing edge in table order], first at `index`"""
    try:
        lf = A.find_fn(OCT, "leaf", self_ty="OctreeBuilder", root=root)
    except A.AnchorLost as e:
        rule.lost(str(e))
        return
    t = A.ftxt(lf["body"])
    # `let index = <vertex array>.len()`, then every append to that array in order (a chained extend is its parts)
    idx = [l for l in A.find(lf["body"], "Let") if l.get("init") is not None and re.fullmatch(r"self\.octree\.verts\.len\(\)", str(A.ftxt(l["init"]))) and A.binding_name(l["pat"])]
    if len(idx) != 1:
        rule.bad("leaf|layout", "OctreeBuilder::leaf must take `index = self.octree.verts.len()` once, before appending", A.where(lf))
        return
    I = A.binding_name(idx[0]["pat"])

    def parts(e):
        e = A.strip(e)
        if e.get("k") == "MethodCall" and e["method"] == "chain" and len(e["args"]) == 1:
            return parts(e["recv"]) + parts(e["args"][0])
        return [e]

    appended = []
    early = False
    for c in A.find(lf["body"], "MethodCall"):
        if c["method"] in ("extend", "push", "extend_from_slice") and str(A.ftxt(c["recv"])) == "self.octree.verts" and c["args"]:
            if c.get("ln", 0) < idx[0]["ln"]:
                early = True
            appended += parts(c["args"][0])
    srcs = [str(A.ftxt(x)) for x in appended]

    def root_name(e):
        e = A.strip(e)
        while e.get("k") == "MethodCall":
            e = A.strip(e["recv"])
        return A.ident(e)

    V = root_name(appended[0]) if appended else None
    X = root_name(appended[1]) if len(appended) > 1 else None
    ok_layout = (not early and len(appended) == 2 and V and X and V != X and "cell.pos(" in srcs[1] and "CellVertex" in srcs[1]
                 and t.fmatch("Cell::Leaf(Leaf{mask:mask,index:%s})" % I) is not None)
    if not ok_layout:
        rule.bad("leaf|layout", "OctreeBuilder::leaf must take `index` before appending, append the cell's vertices first and the crossing positions after them, and return Leaf { mask, index } (appends found: %s)" % [x[:40] for x in srcs], A.where(lf))
        return
    rule.ok("leaf: index taken before appending; cell vertices first, crossings after", file=OCT, line=lf["ln"])
    m = {"$V": V, "$X": X}
    V, X = m["$V"], m["$X"]
    # the cell vertices: one push per entry of the table's list, in its order
    loops = [f for f in A.find(lf["body"], "For") if "CELL_TO_VERT_TO_EDGES[mask.index()]" in A.ftxt(f["iter"])]
    vert_loops = [f for f in loops if any(c["method"] == "push" and A.ident(A.strip(c["recv"])) == V for c in A.find(f["body"], "MethodCall"))]
    if len(vert_loops) != 1:
        rule.bad("leaf|vertex-loop", "the cell's vertices must be pushed in one loop over CELL_TO_VERT_TO_EDGES[mask.index()]", A.where(lf))
    else:
        vl = vert_loops[0]
        # every path through the loop body pushes exactly one vertex (if / else)
        pushes = [c for c in A.find(vl["body"], "MethodCall") if c["method"] == "push" and A.ident(A.strip(c["recv"])) == V]
        inner = [f for f in A.find(vl["body"], "For")]
        in_inner = [p for p in pushes if any(any(n is p for n in A.walk(f)) for f in inner)]
        conds = [tuple(A.enclosing_conds(vl["body"], p) or []) for p in pushes]
        okp = not in_inner and (len(pushes) == 1 and conds[0] == () or (len(pushes) == 2 and len(conds[0]) == 1 and len(conds[1]) == 1 and {conds[0][0].lstrip("!"), conds[1][0].lstrip("!")}.__len__() == 1 and conds[0] != conds[1]))
        if okp:
            rule.ok("leaf: exactly one vertex per entry of the configuration's vertex list, in list order", file=OCT, line=vl["ln"])
        else:
            rule.bad("leaf|one-vertex", "each entry of CELL_TO_VERT_TO_EDGES[mask] must contribute exactly one vertex on every path (found %d pushes under %s)" % (len(pushes), conds), A.where(OCT, vl))
    # crossings are produced by walking the same table in the same nested order with a running counter
    pos_loops = [f for f in loops if f not in vert_loops]
    if not pos_loops:
        rule.bad("leaf|crossing-loop", "the crossing end points must be laid out by walking CELL_TO_VERT_TO_EDGES[mask.index()]", A.where(lf))
    for f in pos_loops + vert_loops:
        inner = [g for g in A.find(f["body"], "For")]
        ft = A.ftxt(f)
        cnt = re.findall(r"\((\w+)\+=1\);", ft)
        if inner and cnt:
            rule.ok("leaf: a running counter follows the table's (vertex, edge) order", file=OCT, line=f["ln"])
        else:
            rule.bad("leaf|counter", "the loops over the table must advance one running index per edge (vertex list outer, its edges inner)", A.where(OCT, f))
    # the collapse writes the same layout for its single vertex
    try:
        cf = A.find_fn(OCT, "check_done", self_ty="OctreeBuilder", root=root)
    except A.AnchorLost:
        cf = None
    cands = [fn for fn in A.fns(OCT, root) if dict.get(fn, "body") and fn is not lf and ".to_undirected()" in A.unparse(dict.get(fn, "body")).replace(" ", "") and "intersections[" in A.unparse(dict.get(fn, "body")).replace(" ", "")]
    if len(cands) != 1:
        rule.lost("the collapse site that re-installs intersections (`hermite.intersections[e.to_undirected().index()]`)")
        return
    cf = cands[0]
    ct = A.ftxt(cf["body"])
    cts = str(ct)
    m = ct.fmatch("let$I=self.verts.len();self.verts.push($P);")
    okc = False
    if m is not None and ct.fmatch("Some(Leaf{mask:mask,index:%s})" % m["$I"]) is not None:
        i0 = cts.find("self.verts.push(")
        # after the vertex: one crossing per edge of the table's single vertex list, in its order, each read from the
        # hermite slot to_undirected() names - as a loop with push, or an extend over the mapped edge list
        loop = ct.fmatch("for$E inedges[0]{let$K=hermite.intersections[$E.to_undirected().index()];self.verts.push(CellVertex{pos:$K.pos.xyz()});}".replace(" in", "in"))
        ext = ct.fmatch("self.verts.extend(edges[0].iter().map(|$E|{let$K=hermite.intersections[$E.to_undirected().index()];CellVertex{pos:$K.pos.xyz()}}));")
        ext2 = ct.fmatch("self.verts.extend(edges[0].iter().map(|$E|CellVertex{pos:hermite.intersections[$E.to_undirected().index()].pos.xyz()}));")
        loop2 = ct.fmatch("for$E inedges[0]{self.verts.push(CellVertex{pos:hermite.intersections[$E.to_undirected().index()].pos.xyz()});}".replace(" in", "in"))
        later = max(cts.find("edges[0]", i0), -1)
        okc = any(x is not None for x in (loop, ext, ext2, loop2)) and later > i0 and "CELL_TO_VERT_TO_EDGES[mask.index()]" in cts
    if okc:
        rule.ok("collapse: the merged leaf has its vertex at `index` and its crossings after it, in the table's edge order, each read from the hermite slot to_undirected() names", file=OCT, line=cf["ln"])
    else:
        rule.bad("collapse|layout", "a collapsed leaf must store its vertex at `index` followed by the crossings of CELL_TO_VERT_TO_EDGES[mask][0] in order, read from hermite.intersections[e.to_undirected().index()]", A.where(cf))
    # the hermite slot is written under the same key
    if "letedge_index=e.to_undirected().index();hermite_cell.intersections[edge_index]=LeafIntersection{" in t or t.fmatch("hermite_cell.intersections[$E.to_undirected().index()]=LeafIntersection{") is not None or A.ftxt(A.inline_lets_deep(lf["body"])).fmatch("hermite_cell.intersections[$E.to_undirected().index()]=LeafIntersection{") is not None:
        rule.ok("leaf: hermite data filed under to_undirected(), the key the collapse reads", file=OCT, line=lf["ln"])
    else:
        rule.bad("leaf|hermite-key", "leaf must file each crossing's hermite data under e.to_undirected().index()", A.where(lf))


def _dc_offsets(rule, root):
    try:
        d = A.load(DC, root)
    except A.AnchorLost as e:
        rule.lost(str(e))
        return
    hits = [fn for fn in A.fns(DC, root) if ".edge.0" in A.ftxt(dict.get(fn, "body") or {"k": "Block", "stmts": []})]
    if len(hits) != 1:
        rule.lost("the dual-contouring edge procedure that reads Intersection offsets")
        return
    fn = hits[0]
    t = A.ftxt(A.inline_lets_deep(fn["body"]))
    a = t.fmatch("leafs[$D].index+(verts[$D].edge.0asusize)")
    b = t.fmatch("leafs[$I].index+(verts[$I].vert.0asusize)")
    if a is not None and b is not None:
        rule.ok("the dual walk reads a leaf's vertices as leaf.index + vert offset and its crossing as leaf.index + edge offset, both from the same leaf", file=DC, line=fn["ln"])
    else:
        rule.bad("dc|offsets", "dc: vertex = leafs[i].index + verts[i].vert.0, crossing = leafs[d].index + verts[d].edge.0 (leaf and offset from the same cell)", A.where(fn))
    if "verts[i]=leafs[i].edge(edges[i]);" in t or t.fmatch("verts[$I]=leafs[$I].edge(edges[$I]);") is not None:
        rule.ok("cell i's offsets come from cell i's own edge", file=DC, line=fn["ln"])
    else:
        rule.bad("dc|edge-pairing", "verts[i] must be leafs[i].edge(edges[i])", A.where(fn))


def r11_cell_geometry(rule, root=None):
    def closure_cases(fn):
        v = A.inline_lets_deep(fn["body"])
        out = []
        for c in A.find(v, "Closure"):
            out += [(str(A.ftxt(leaf)), cs) for leaf, cs in A.result_cases(A.inline_lets_deep(c["body"]))]
        return out

    def axis_param(fn):
        for c in A.find(fn["body"], "Closure"):
            ps = c.get("inputs", c.get("params", []))
            if len(ps) == 1:
                return A.binding_name(ps[0])
        return None

    try:
        ch = A.find_fn(CELL, "child", self_ty="CellBounds", root=root)
        co = A.find_fn(CELL, "corner", self_ty="CellBounds", root=root)
        cc = A.find_fn(CELL, "corner", self_ty="Cell", root=root)
        ci = A.find_fn(CELL, "child", self_ty="CellIndex", root=root)
        cp = A.find_fn(CELL, "pos", self_ty="CellBounds", root=root)
        cn = A.find_fn(CELL, "contains", self_ty="CellBounds", root=root)
    except A.AnchorLost as e:
        rule.lost(str(e))
        return

    def norm_cond(cs, corner, ax):
        """+1 if the conditions say `corner & axis`, -1 for its negation, None otherwise"""
        if len(cs) != 1:
            return None
        c = cs[0]
        neg = c.startswith("!")
        c = c.lstrip("!")
        c = c.strip("()")
        if c in ("%s&%s" % (corner, ax), "%s&%s" % (ax, corner)):
            return -1 if neg else 1
        return None

    # child bounds and corner positions, by meaning: the per-axis closure is folded for both values of
    # `corner & axis`, the parent's interval on that axis standing for itself
    def per_axis(fn, bit):
        clos = [c for c in A.find(fn["body"], "Closure")]
        if len(clos) != 1:
            raise Stop("expected one per-axis closure")
        clo = clos[0]
        ps = clo.get("inputs", clo.get("params", []))
        ax = A.binding_name(ps[0]) if len(ps) == 1 else None
        pname = [A.binding_name(p["pat"]) for p in fn["sig"]["inputs"] if "pat" in p]
        corner = pname[0] if pname else "corner"

        def hook(node, interp):
            k = node.get("k")
            if k == "Binary" and node["op"] == "&":
                names = {A.ident(A.strip(node["left"])), A.ident(A.strip(node["right"]))}
                if names == {corner, ax}:
                    return bit
            if k == "Index":
                t_ = str(A.ftxt(node))
                if t_ in ("self.bounds[%s.index()]" % ax, "self[%s]" % ax) or (t_.startswith("self.bounds[") and interp.env.get(t_[len("self.bounds["):-1]) == "AXIS-INDEX"):
                    return "PARENT"
            if k == "MethodCall":
                if node["method"] == "index" and A.ident(A.strip(node["recv"])) == ax and not node["args"]:
                    return "AXIS-INDEX"
                if node["method"] in ("lower", "upper", "midpoint") and not node["args"]:
                    r_ = interp.ev(node["recv"])
                    if r_ == "PARENT":
                        return node["method"]
                    raise Stop("`.%s()` of something that is not the parent's interval on this axis" % node["method"])
            if k == "Call" and (A.path_segs(node["func"]) or [])[-2:] == ["Interval", "new"] and len(node["args"]) == 2:
                return ("Interval", interp.ev(node["args"][0]), interp.ev(node["args"][1]))
            if k == "Unary" and node.get("op") == "!":
                v_ = interp.ev(node["e"])
                if isinstance(v_, bool):
                    return not v_
            return NotImplemented

        f = Fold([TYPES], root, {ax: "AXIS", corner: "CORNER"}, hook)
        return f.ev(clo["body"])

    for fn_, label, want in ((ch, "CellBounds::child", {True: ("Interval", "midpoint", "upper"), False: ("Interval", "lower", "midpoint")}),
                             (co, "CellBounds::corner", {True: "upper", False: "lower"})):
        for bit in (True, False):
            side = "upper" if bit else "lower"
            try:
                got = per_axis(fn_, bit)
            except (Stop, Unreachable, TypeError, KeyError) as ex:
                rule.bad("%s|%s|fold" % (label, side), "%s cannot be read for a corner on the %s side: %s" % (label, side, ex), A.where(fn_))
                continue
            if got == want[bit]:
                what = ("a child on the %s side of an axis spans %s of the parent" % (side, "[midpoint, upper]" if bit else "[lower, midpoint]")) if label.endswith("child") else ("a corner %s the axis bit sits at the %s bound" % ("with" if bit else "without", side))
                rule.ok(what, file=CELL, line=fn_["ln"])
            else:
                rule.bad("%s|%s" % (label, side), "%s: for a corner on the %s side of an axis the result is %s; expected %s of the parent's interval on that axis" % (label, side, got, want[bit]), A.where(fn_))
    # Cell::corner
    cases = {}
    for leaf, cs in A.result_cases(A.inline_lets_deep(cc["body"])):
        for c in cs:
            m = re.search(r"Cell::(\w+)", c)
            if m:
                cases[m.group(1)] = str(A.ftxt(leaf))
    carg = [A.binding_name(p["pat"]) for p in cc["sig"]["inputs"] if "pat" in p]
    carg = carg[0] if carg else "c"
    want = {"Empty": ("false",), "Full": ("true",), "Leaf": ("(mask&%s)" % carg, "mask&%s" % carg)}
    for k, w in want.items():
        if cases.get(k) in w:
            rule.ok("Cell::corner: %s -> %s" % (k, w[0]), file=CELL, line=cc["ln"])
        else:
            rule.bad("Cell::corner|%s" % k, "the sign of a corner of a %s cell must be %s; found `%s`" % (k, w[0], cases.get(k)), A.where(cc))
    # CellIndex::child
    t = A.ftxt(A.inline_lets_deep(ci["body"]))
    names = [A.binding_name(p["pat"]) for p in ci["sig"]["inputs"] if "pat" in p]
    if len(names) == 2 and ("index:Some((%s,%s.get()))" % (names[0], names[1])) in t and ("bounds:self.bounds.child(%s)" % names[1]) in t and "depth:(self.depth+1)" in t:
        rule.ok("CellIndex::child: slot (index, corner), the child bounds of that same corner, depth + 1", file=CELL, line=ci["ln"])
    else:
        rule.bad("CellIndex::child", "CellIndex::child(index, i) must produce index: Some((index, i.get())), bounds: self.bounds.child(i), depth: self.depth + 1", A.where(ci))
    # pos: lerp by p / u16::MAX on the same axis
    t = A.ftxt(A.inline_lets_deep(cp["body"]))
    pn = [A.binding_name(p["pat"]) for p in cp["sig"]["inputs"] if "pat" in p]
    pn = pn[0] if pn else "p"
    if t.fmatch("out[$I]=self.bounds[$I].lerp(((%s[$I]asf32)/(u16::MAXasf32)));" % pn) is not None:
        rule.ok("CellBounds::pos: coordinate i is the lerp of bound i at p[i] / u16::MAX", file=CELL, line=cp["ln"])
    else:
        rule.bad("CellBounds::pos", "CellBounds::pos must map p[i] to self.bounds[i].lerp(p[i] / u16::MAX) for the same i", A.where(cp))
    # contains: every axis
    t = A.ftxt(A.inline_lets_deep(cn["body"]))
    pn = [A.binding_name(p["pat"]) for p in cn["sig"]["inputs"] if "pat" in p]
    pn = pn[0] if pn else "p"
    if (t.fmatch("Axis::array().into_iter().all(|$A|self[$A].contains(%s[$A]))" % pn) is not None or t.fmatch("!Axis::array().into_iter().any(|$A|!self[$A].contains(%s[$A]))" % pn) is not None
            or t.fmatch("Axis::array().iter().all(|$A|self[*$A].contains(%s[*$A]))" % pn) is not None
            or t.fmatch("for$A inAxis::array(){if!self[$A].contains(%s[$A]){returnfalse;}}true".replace(" in", "in") % pn) is not None
            or t.fmatch("for$A inAxis::array(){if(!self[$A].contains(%s[$A])){returnfalse;}}true".replace(" in", "in") % pn) is not None):
        rule.ok("CellBounds::contains: inside on every axis", file=CELL, line=cn["ln"])
    else:
        rule.bad("CellBounds::contains", "a vertex is inside the cell only if every axis' interval contains its coordinate on that axis", A.where(cn))


def r12_collapsible(rule, root=None):
    """Ju et al.'s topological safety test: the sign at the middle of every coarse edge / face / the cube must
    agree with one of that element's corners.  Folded over the three frames: which child and which of its corners
    is consulted must be the geometric midpoint of the corners it is compared with."""
    try:
        fn = A.find_fn(OCT, "collapsible", self_ty="Octree", root=root)
    except A.AnchorLost as e:
        rule.lost(str(e))
        return
    frames = [f for f in A.find(fn["body"], "For") if "frame()" in A.ftxt(f["iter"])]
    if len(frames) != 1:
        rule.lost("the `for (t, u, v) in [XYZ::frame(), ..]` loop of Octree::collapsible")
        return
    fl = frames[0]
    inner = [f for f in fl["body"]["stmts"] if A.stmt_expr(f) is not None and A.strip(A.stmt_expr(f)).get("k") == "For"] if fl["body"].get("k") == "Block" else []
    inner = [A.strip(A.stmt_expr(f)) for f in inner]
    records = []

    class Skip(Exception):
        pass

    def hook(node, interp):
        k = node.get("k")
        if k == "Let" or k is None:
            return NotImplemented
        if k == "MethodCall" and node["method"] == "corner":
            r = A.strip(node["recv"])
            if r.get("k") == "Index" and A.ident(A.strip(r["e"])) == "cells":
                child = interp.ev(r["index"])
                corner = interp.ev(node["args"][0])
                return ("CENTER", _n(child), _n(corner))
        if k == "If":
            ct = A.ftxt(node["cond"])
            m = re.match(r"^\(?(\[[\w,]+\]|\(0\.\.8\))(\.iter\(\))?\.all\(", ct)
            if m:
                c = A.strip(node["cond"])
                while c.get("k") == "MethodCall" and c["method"] != "all":
                    c = A.strip(c["recv"])
                src = A.strip(c["recv"])
                while src.get("k") == "MethodCall":
                    src = A.strip(src["recv"])
                corners = [_n(x) for x in interp.ev(src)]
                center = interp.env.get("center")
                records.append((corners, center, str(ct), node, dict(interp.env)))
                return None
        return NotImplemented

    node_envs = {}
    local_closures = {}
    base = Fold([TYPES, FRAME], root, {})
    for l_ in A.find(fn["body"], "Let"):
        if l_.get("init") is not None and A.strip(l_["init"]).get("k") == "Closure" and A.binding_name(l_["pat"]) and not any(n_ is l_ for n_ in A.walk(fl)):
            local_closures[A.binding_name(l_["pat"])] = ("closure", A.strip(l_["init"]).get("inputs", []), A.strip(l_["init"])["body"], None)
    F = Fold([TYPES, FRAME], root, {}, hook)
    try:
        F.env["cells"] = None
        F.ev(fl)
    except (Stop, Unreachable, TypeError) as e:
        rule.bad("collapsible|fold", "the topological safety loops cannot be folded: %s" % e, A.where(fn))
        return
    seen = {"edge": set(), "face": set(), "cube": set()}
    for corners, center, ct, node, renv in records:
        if not (isinstance(center, tuple) and center and center[0] == "CENTER"):
            rule.bad("collapsible|center", "the sign compared with the corners must come from `cells[child].corner(c)`", A.where(OCT, node))
            continue
        _, child, cor = center
        kind = {2: "edge", 4: "face", 8: "cube"}.get(len(corners))
        if kind is None or len(set(corners)) != len(corners):
            rule.bad("collapsible|corners", "unexpected corner set %s" % corners, A.where(OCT, node))
            continue
        # geometric midpoint of the corners, in half-cell units per axis (0, 1, 2)
        mid = tuple(sum(2 * ((c >> a) & 1) for c in corners) // len(corners) for a in range(3))
        exact = all(sum(2 * ((c >> a) & 1) for c in corners) % len(corners) == 0 for a in range(3))
        probe = tuple(((child >> a) & 1) + ((cor >> a) & 1) for a in range(3))
        key = tuple(sorted(corners))
        if exact and mid == probe:
            if key in seen[kind]:
                continue
            seen[kind].add(key)
            rule.ok("coarse %s %s: the sign consulted (child %d, its corner %d) is the %s's midpoint" % (kind, list(key), child, cor, kind), file=OCT, line=node["ln"])
        else:
            rule.bad("collapsible|%s|%s" % (kind, "-".join(map(str, key))), "coarse %s %s is compared with child %d's corner %d, which sits at %s (half-cell units); the %s's midpoint is %s" % (kind, list(key), child, cor, probe, kind, mid), A.where(OCT, node))
        # the test itself, folded: it must hold exactly when every listed corner's sign (bit of `mask`) differs from
        # the midpoint sign
        verdict = None
        for mval in (range(256) if getattr(getattr(rule, "ctx", None), "tier", "quick") == "thorough" else (0x00, 0xFF, 0x5A, 0xC3, 0x01, 0x80, 0x3C, 0x96)):
            for cv in (False, True):
                env_ = dict(renv)
                env_.update({"mask": mval, "center": cv})
                env_.update(local_closures)
                try:
                    got = Fold([TYPES, FRAME], root, env_).ev(node["cond"])
                except (Stop, Unreachable, TypeError) as ex:
                    verdict = "cannot be folded: %s" % ex
                    break
                want = all((((mval >> c) & 1) != 0) != cv for c in corners)
                if got != want:
                    verdict = "with mask %#04x and midpoint sign %s it answers %s" % (mval, cv, got)
                    break
            if verdict:
                break
        if verdict:
            rule.bad("collapsible|test|%s" % kind, "the element fails when *every* corner's sign (bit of `mask`) differs from the midpoint sign; the test %s" % verdict, A.where(OCT, node))
    want = {"edge": 12, "face": 6, "cube": 1}
    for kind, n in want.items():
        if len(seen[kind]) != n:
            rule.bad("collapsible|coverage|%s" % kind, "the safety test covers %d coarse %ss, a cell has %d" % (len(seen[kind]), kind, n), A.where(fn))
    # each failing element returns None
    for corners, center, ct, node, _renv in records:
        th = A.ftxt(node["then"])
        if th not in ("{returnNone;}", "{returnNone}"):
            rule.bad("collapsible|exit", "a failed element must make the cell non-collapsible (`return None`)", A.where(OCT, node))
            break
    else:
        if records:
            rule.ok("every failed element returns None", file=OCT, line=fn["ln"])
    # the coarse mask: child i contributes its own corner i
    t = A.ftxt(fn["body"])
    if t.fmatch("Cell::Leaf(Leaf{mask:$M,..})=>{if(CELL_TO_VERT_TO_EDGES[$M.index()].len()>1){returnNone;}((($M.index()&(1<<$I))!=0)asu8)}") is not None and t.fmatch("($K|=($B<<$I));") is not None:
        rule.ok("coarse corner i takes the sign of child i's corner i; a child with several vertices blocks the collapse", file=OCT, line=fn["ln"])
    else:
        rule.bad("collapsible|mask", "the coarse mask's bit i must be child i's own corner i (Leaf: mask bit i, Empty 0, Full 1), and a multi-vertex child must return None", A.where(fn))
    if "Cell::Empty=>0" in t and "Cell::Full=>1" in t and t.fmatch("Cell::Branch{,..}=>returnNone") is not None or ("Cell::Empty=>0" in t and "Cell::Full=>1" in t and "Cell::Branch{..}=>returnNone" in t.replace(",..", "..")):
        rule.ok("Empty contributes 0, Full 1, a Branch child blocks the collapse", file=OCT, line=fn["ln"])
    else:
        rule.bad("collapsible|arms", "Empty -> 0, Full -> 1, Branch -> return None", A.where(fn))
