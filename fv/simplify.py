"""VmData::simplify (fidget-core/src/vm/data.rs): choice consumption, Left/Right
meaning, renaming completeness, accounting."""
from . import ast as A
from . import opcodes as O
from . import terms as T

DATA = "fidget-core/src/vm/data.rs"


_KEEP = ("active", "set_active", "get_or_insert_active", "reset", "finalize", "op", "output", "has_choice", "choice_count")
_SF = {}


def simplify_fn(root=None):
    """VmData::simplify, read with private same-file helpers expanded in place (the workspace primitives the
    rules talk about are kept as calls)"""
    key = root or A.REPO
    if key not in _SF:
        fn0 = A.find_fn(DATA, "simplify", self_ty="VmData", root=root)
        fn = dict(fn0)
        fn["body"] = A.inline_helpers(fn0, keep=_KEEP)
        _SF[key] = fn
    return _SF[key]


def main_loop(fn):
    loops = [f for f in A.find(fn["body"], "For") if "ssa" in A.unparse(f["iter"]) and "tape" in A.unparse(f["iter"])]
    if len(loops) != 1:
        raise A.AnchorLost("`for op in self.ssa.tape ...` loop in VmData::simplify")
    return loops[0]


def next_calls(node, iter_name):
    return [
        c
        for c in A.find(node, "MethodCall")
        if c["method"] == "next" and A.ident(A.strip(c["recv"])) == iter_name
    ]


def choice_counter_name(fn):
    """the local that is stored as the result's `choice_count` (whatever it is called)"""
    for st in A.find(fn["body"], "Struct"):
        for x in st.get("fields", []):
            if x["name"] == "choice_count":
                n = A.ident(A.strip(x["e"])) if x.get("e") is not None else "choice_count"
                if n:
                    return n
    return "choice_count"


def choice_iter_name(fn):
    for s in A.find(fn["body"], "Let"):
        init = s.get("init")
        if init is not None and A.binding_name(s["pat"]) and "choices" in A.unparse(init) and ".iter()" in A.ftxt(init):
            return A.binding_name(s["pat"]), s
    raise A.AnchorLost("`let mut choice_iter = choices.iter().rev()` in VmData::simplify")


def the_match(loop):
    ms = O.match_on(loop["body"], "SsaOp", min_arms=20)
    if len(ms) != 1:
        raise A.AnchorLost("the big `match &mut op` over SsaOp in VmData::simplify (%d found)" % len(ms))
    return ms[0]


def skip_and_new_index(loop, m):
    """The inactive-op skip path and the variable holding the op's new index.
    Accepted idioms:
      if workspace.active(index).is_none() { SKIP }  ...  let N = workspace.active(index).unwrap();
      let Some(N) = workspace.active(index) else { SKIP };
    -> (skip block, N, node) ; raises AnchorLost when neither is found exactly once"""
    found = []
    for s in loop["body"]["stmts"]:
        if s.get("k") == "Let" and s.get("else") is not None:
            init = A.strip(s.get("init") or {})
            segs, subs = A.pat_variant(s["pat"]) if s["pat"].get("k") == "PTupleStruct" else (None, None)
            if segs and segs[-1] == "Some" and init.get("k") == "MethodCall" and init["method"] == "active":
                blk = s["else"]
                found.append((blk, A.binding_name(subs[0]), s))
    ifs = [
        i
        for i in A.find(loop["body"], "If")
        if "active" in A.unparse(i["cond"]) and "is_none" in A.unparse(i["cond"]) and not _inside(m, i)
    ]
    for i in ifs:
        name = None
        for s in loop["body"]["stmts"]:
            if s.get("k") == "Let" and not s.get("else"):
                t = A.unparse(s.get("init") or {}).replace(" ", "")
                if ".active(" in t and t.endswith(".unwrap()"):
                    name = A.binding_name(s["pat"])
        found.append((i["then"], name, i))
    if len(found) != 1 or found[0][1] is None:
        raise A.AnchorLost("the inactive-op skip (`if workspace.active(index).is_none() {..}` + `let n = ..unwrap()`, or `let Some(n) = workspace.active(index) else {..}`) in VmData::simplify (%d found)" % len(found))
    return found[0]


def new_index_name(root=None):
    fn = simplify_fn(root)
    loop = main_loop(fn)
    return skip_and_new_index(loop, the_match(loop))[1]


def r1_choice_consumption(rule, root=None):
    fn = simplify_fn(root)
    it, _ = choice_iter_name(fn)
    loop = main_loop(fn)
    m = the_match(loop)
    has_choice = _has_choice(root)
    ssa = dict(O.ssa_variants(root))
    # every next() call in the function is inside the loop
    all_next = next_calls(fn["body"], it)
    in_loop = next_calls(loop["body"], it)
    if len(all_next) != len(in_loop):
        rule.bad("outside-loop", "choice_iter.next() is called outside the per-op loop", A.where(fn))
    accounted = 0
    seen = set()
    for variant, subs, arm in O.arms_by_variant(m, "SsaOp"):
        if variant is None:
            rule.bad("wildcard", "catch-all arm in simplify's SsaOp match", A.where(fn, arm))
            continue
        seen.add(variant)
        n = len(next_calls(arm["body"], it))
        want = 1 if variant in has_choice else 0
        if variant == "Output":
            want = 0
        if n != want:
            rule.bad("arm|%s" % variant, "simplify arm for SsaOp::%s calls choice_iter.next() %d time(s), expected %d" % (variant, n, want), A.where(fn, arm))
        else:
            rule.ok("SsaOp::%s consumes %d" % (variant, want), file=DATA, line=arm["ln"])
    for v in ssa:
        if v not in seen:
            rule.bad("arm|%s|missing" % v, "simplify has no arm for SsaOp::%s" % v, A.where(fn, m))
    arms_next = sum(len(next_calls(arm["body"], it)) for arm in m["arms"])
    # the inactive-skip path: `if workspace.active(index).is_none() { if op.has_choice() { next } continue }`
    try:
        blk, _nn, sk = skip_and_new_index(loop, m)
    except A.AnchorLost:
        blk = None
        rule.bad("skip|shape", "expected exactly one inactive-op skip `if workspace.active(index).is_none() {..}` (or `let Some(n) = workspace.active(index) else {..}`) before the match", A.where(fn, loop))
    if blk is not None:
        inner = [i for i in A.find(blk, "If") if "has_choice" in A.unparse(i["cond"])]
        n_all = len(next_calls(blk, it))
        ok = (
            len(inner) == 1
            and A.ftxt(A.strip(inner[0]["cond"])) == "op.has_choice()"
            and len(next_calls(inner[0]["then"], it)) == 1
            and n_all == 1
            and inner[0].get("else") is None
            and any(A.strip(A.stmt_expr(s) or {}).get("k") == "Continue" for s in A.stmts_of(blk))
        )
        if ok:
            rule.ok("inactive op: consumes one choice iff op.has_choice(), then continues", file=DATA, line=sk["ln"])
        else:
            rule.bad("skip", "the inactive-op path must consume exactly one choice iff `op.has_choice()` and then `continue`", A.where(fn, sk))
        accounted += n_all
    accounted += arms_next
    if accounted != len(in_loop):
        rule.bad("stray", "%d choice_iter.next() call(s) in the loop are outside the recognised sites" % (len(in_loop) - accounted), A.where(fn, loop))
    # Output arm comes first and `continue`s before the skip check (outputs carry no choice)
    return fn, loop, m, it


def _inside(outer, inner):
    return any(n is inner for n in A.walk(outer))


def _has_choice(root):
    from .props.C01 import ssa_has_choice

    return ssa_has_choice(root)


def _names_used(node, names):
    used = set()
    for n in A.walk(node):
        if n.get("k") == "Path" and len(n["segs"]) == 1 and n["segs"][0] in names:
            used.add(n["segs"][0])
    return used


def r2_left_right(rule, root=None):
    fn = simplify_fn(root)
    it, _ = choice_iter_name(fn)
    loop = main_loop(fn)
    m = the_match(loop)
    ssa = dict(O.ssa_variants(root))
    has_choice = _has_choice(root)
    done = set()
    for variant, subs, arm in O.arms_by_variant(m, "SsaOp"):
        if variant not in has_choice or id(arm) in done:
            continue
        done.add(id(arm))
        names = [A.binding_name(s) for s in subs]
        payload = ssa[variant]
        if None in names or len(names) != 3:
            rule.bad("%s|pattern" % variant, "choice arm must bind (index, lhs, rhs)", A.where(fn, arm))
            continue
        idx_n, a_n, b_n = names
        b_is_imm = payload[2] == "f32"
        inner = [x for x in A.find(arm["body"], "Match") if next_calls(x["e"], it)]
        if len(inner) != 1:
            rule.bad("%s|shape" % variant, "choice arm must `match choice_iter.next().unwrap()`", A.where(fn, arm))
            continue
        cases = {}
        lab = T.split_variant(variant)[1]
        for ca in inner[0]["arms"]:
            for p in A.flatten_or(ca["pat"]):
                segs, _ = A.pat_variant(p)
                nm_ = segs[-1] if segs else "_"
                if ca.get("guard") is not None or nm_ in cases:
                    # a choice means the same for every op it is recorded for: Left *is* the first operand (its value,
                    # sign of zero and derivatives included), not something one opcode may replace by a constant
                    rule.bad("%s|%s|special-case" % (lab, nm_), "Choice::%s has a second / guarded case (`%s`): simplification must continue with the operand the choice names for every op alike" % (nm_, A.unparse(ca.get("guard") or ca["pat"])[:50]), A.where(fn, ca))
                    continue
                cases[nm_] = ca
        for want in ("Left", "Right", "Both", "Unknown"):
            if want not in cases:
                rule.bad("%s|%s|missing" % (lab, want), "choice arm (%s forms) has no case for Choice::%s" % (lab, want), A.where(fn, arm))
        if any(w not in cases for w in ("Left", "Right", "Both", "Unknown")):
            continue

        def ctor_names(node):
            out = set()
            for c in A.find(node, "Call"):
                segs = A.path_segs(c["func"])
                if segs and segs[0] == "SsaOp":
                    out.add(segs[-1])
            return out

        # Left keeps the first operand
        l = cases["Left"]["body"]
        used = _names_used(l, {a_n, b_n})
        if used != {a_n} or ctor_names(l) - {"CopyReg"} or "set_active" not in A.unparse(l):
            rule.bad("%s|Left" % lab, "Choice::Left must continue with the first operand `%s` only (CopyReg / set_active); it mentions %s and builds %s" % (a_n, sorted(used), sorted(ctor_names(l))), A.where(fn, cases["Left"]))
        else:
            rule.ok("%s: Left -> %s" % (lab, a_n), file=DATA, line=cases["Left"]["ln"])
        r = cases["Right"]["body"]
        used = _names_used(r, {a_n, b_n})
        if b_is_imm:
            ok = used == {b_n} and ctor_names(r) == {"CopyImm"}
        else:
            ok = used == {b_n} and not (ctor_names(r) - {"CopyReg"}) and "set_active" in A.unparse(r)
        if not ok:
            rule.bad("%s|Right" % lab, "Choice::Right must continue with the second operand `%s` only; it mentions %s and builds %s" % (b_n, sorted(used), sorted(ctor_names(r))), A.where(fn, cases["Right"]))
        else:
            rule.ok("%s: Right -> %s" % (lab, b_n), file=DATA, line=cases["Right"]["ln"])
        # a kept register operand is copied from its *remapped* index when it is already active, and
        # otherwise takes over the op's new index
        new_n = new_index_name(root)
        for side, operand in (("Left", a_n), ("Right", None if b_is_imm else b_n)):
            if operand is None:
                continue
            why = _keep_problem(cases[side]["body"], operand, new_n)
            if why:
                rule.bad("%s|%s|keep" % (lab, side), "Choice::%s: %s" % (side, why), A.where(fn, cases[side]))
            else:
                rule.ok("%s: %s copies from the operand's remapped register or aliases it to the new index" % (lab, side))
        b = cases["Both"]["body"]
        probs = _remap_problems(b, idx_n, [a_n] if b_is_imm else [a_n, b_n], new_n)
        txt = A.ftxt(b)
        if "(%s+=1)" % choice_counter_name(fn) not in txt:
            probs.append("does not count the surviving choice (`choice_count += 1`)")
        if probs:
            for p in probs:
                rule.bad("%s|Both|%s" % (lab, p[:40]), "Choice::Both: %s" % p, A.where(fn, cases["Both"]))
        else:
            rule.ok("%s: Both keeps the op, remaps operands, counts the choice" % lab, file=DATA, line=cases["Both"]["ln"])
        u = A.strip(cases["Unknown"]["body"])
        if not (u.get("k") == "Macro" and u["name"] in ("panic", "unreachable")):
            rule.bad("%s|Unknown" % lab, "Choice::Unknown must fail loudly", A.where(fn, cases["Unknown"]))
        else:
            rule.ok("%s: Unknown diverges" % lab)


def _keep_problem(body, operand, new_n):
    """`match workspace.active(*operand) { Some(r) => op = SsaOp::CopyReg(new, r), None => { workspace.set_active(*operand, new); continue } }`
    -> None when that is what the body does (however the two cases are spelled), else what is wrong"""
    leaves = A.branch_leaves(body)
    some_ctx = None
    for c in A.find(body, "Call"):
        segs = A.path_segs(c["func"])
        if segs and segs[0] == "SsaOp" and segs[-1] == "CopyReg":
            args = [A.ident(A.strip(x)) for x in c["args"]]
            if len(args) != 2 or args[0] != new_n:
                return "CopyReg writes `%s`, not the op's new index `%s`" % (A.unparse(c["args"][0]) if c["args"] else "?", new_n)
            # where does the source come from?
            src = args[1]
            ok = False
            for m in list(A.find(body, "Match")) + list(A.find(body, "If")):
                if m.get("k") == "Match":
                    for arm in m["arms"]:
                        if A.some_binding(arm["pat"]) == src and src is not None:
                            scr = A.strip(m["e"])
                            if scr.get("k") == "MethodCall" and scr["method"] == "active" and [A.ident(A.strip(x)) for x in scr["args"]] == [operand]:
                                ok = True
                else:
                    cnd = A.strip(m["cond"])
                    if cnd.get("k") == "LetCond" and A.some_binding(cnd["pat"]) == src and src is not None:
                        scr = A.strip(cnd["e"])
                        if scr.get("k") == "MethodCall" and scr["method"] == "active" and [A.ident(A.strip(x)) for x in scr["args"]] == [operand]:
                            ok = True
            if not ok:
                return "CopyReg reads `%s`, which is not the register `workspace.active(*%s)` returned: the operand's index in the *parent* tape means nothing in the simplified one" % (A.unparse(c["args"][1]), operand)
            some_ctx = c
    sets = [c for c in A.find(body, "MethodCall") if c["method"] == "set_active"]
    if some_ctx is None or len(sets) != 1:
        return "expected one CopyReg (operand already active) and one set_active (operand not yet active)"
    sa = [A.ident(A.strip(x)) for x in sets[0]["args"]]
    if sa != [operand, new_n]:
        return "set_active(%s) must alias `%s` to the new index `%s`" % (", ".join(map(str, sa)), operand, new_n)
    return None


def _remap_problems(body, idx_n, regs, new_n="new_index"):
    """`*index = new_index; *r = workspace.get_or_insert_active(*r);` for every register operand"""
    probs = []
    assigns = {}
    for a in A.find(body, "Assign"):
        l = A.strip(a["left"])
        nm = A.ident(l)
        if nm:
            assigns.setdefault(nm, []).append(A.strip(a["right"]))
    if idx_n not in assigns or [A.ident(x) for x in assigns[idx_n]] != [new_n]:
        probs.append("output `%s` is not renamed to the new index `%s`" % (idx_n, new_n))
    for r in regs:
        rhs = assigns.get(r, [])
        ok = (
            len(rhs) == 1
            and rhs[0].get("k") == "MethodCall"
            and rhs[0]["method"] == "get_or_insert_active"
            and [A.ident(A.strip(x)) for x in rhs[0]["args"]] == [r]
        )
        if not ok:
            probs.append("operand `%s` is not renamed with get_or_insert_active(%s)" % (r, r))
    for nm in assigns:
        if nm not in regs and nm != idx_n and nm != "op":
            probs.append("unexpected assignment to `%s`" % nm)
    return probs


def r_renaming(rule, root=None):
    """every non-choice arm renames its output and every register operand"""
    fn = simplify_fn(root)
    loop = main_loop(fn)
    m = the_match(loop)
    ssa = dict(O.ssa_variants(root))
    has_choice = _has_choice(root)
    new_n = skip_and_new_index(loop, m)[1]
    for variant, subs, arm in O.arms_by_variant(m, "SsaOp"):
        if variant is None or variant in has_choice or variant in ("Output", "CopyReg"):
            continue
        payload = ssa[variant]
        names = [A.binding_name(s) if s.get("k") != "PRest" else None for s in (subs or [])]
        regs = []
        bad = False
        for i, pl in enumerate(payload):
            if i == 0:
                continue
            if pl == "$t":
                if i >= len(names) or names[i] is None:
                    bad = True
                else:
                    regs.append(names[i])
        if bad or not names or names[0] is None:
            rule.bad("%s|pattern" % variant, "arm for SsaOp::%s does not bind its output and register operands" % variant, A.where(fn, arm))
            continue
        probs = _remap_problems(arm["body"], names[0], regs, new_n)
        if probs:
            for p in probs:
                rule.bad("%s|%s" % (variant, p[:40]), "SsaOp::%s: %s" % (variant, p), A.where(fn, arm))
        else:
            rule.ok("SsaOp::%s renames output and %d operand(s)" % (variant, len(regs)), file=DATA, line=arm["ln"])
    # Output: `*reg = get_or_insert_active(*reg)`, allocated, pushed, counted, continue
    outs = [a for v, s, a in O.arms_by_variant(m, "SsaOp") if v == "Output"]
    # the first match in the loop handles Output before the skip test
    first = []  # (sub-patterns, arm-like node) of the Output case that leaves the iteration early
    for x in A.find(loop["body"], "Match"):
        for v, s, a in O.arms_by_variant(x, "SsaOp"):
            if v == "Output" and "continue" in A.unparse(a["body"]):
                first.append((s, a))
    for x in A.find(loop["body"], "If"):
        c_ = A.strip(x["cond"])
        if c_.get("k") == "LetCond" and x.get("else") is None:
            segs_, subs_ = A.pat_variant(c_["pat"])
            if segs_ and segs_[-2:] == ["SsaOp", "Output"] and "continue" in A.unparse(x["then"]):
                first.append((subs_, {"body": x["then"], "ln": x["ln"], "c": x.get("c")}))
    if len(first) != 1:
        rule.bad("Output|shape", "expected the Output arm that renames, allocates, pushes, counts and continues", A.where(fn, loop))
    else:
        for s, a in first:
            v = "Output"
            rn = A.binding_name(s[0])
            txt = A.ftxt(a["body"])
            need = [
                "*%s=workspace.get_or_insert_active(*%s)" % (rn, rn),
                "workspace.alloc.op(op)",
                "%s.push(op)" % ops_out_name(fn),
                "(output_count+=1)",
                "continue",
            ]
            miss = [n for n in need if n not in txt]
            if miss:
                rule.bad("Output|steps", "Output arm is missing %s" % miss, A.where(fn, a))
            else:
                rule.ok("Output renames its register, is allocated, pushed and counted", file=DATA, line=a["ln"])
    # CopyReg aliasing
    for v, s, a in O.arms_by_variant(m, "SsaOp"):
        if v != "CopyReg":
            continue
        names = [A.binding_name(x) for x in s]
        inner = [x for x in A.find(a["body"], "Match") if "active" in A.unparse(x["e"])]
        ok = False
        # `if let Some(s) = workspace.active(*src) { .. } else { .. }` is the same two-way split
        iflets = [x for x in A.find(a["body"], "If") if x.get("else") is not None and "active" in A.unparse(x["cond"]) and A.strip(x["cond"]).get("k") in ("Let", "LetCond")]
        if not inner and len(iflets) == 1 and len(names) == 2 and None not in names:
            c_ = A.strip(iflets[0]["cond"])
            e = A.strip(c_.get("e") or c_.get("init") or {})
            segs, subs2 = A.pat_variant(c_["pat"]) if c_.get("pat") else (None, None)
            if e.get("k") == "MethodCall" and e["method"] == "active" and [A.ident(A.strip(x)) for x in e["args"]] == [names[1]] and segs and segs[-1] == "Some" and subs2:
                st = A.ftxt(iflets[0]["then"])
                nt = A.ftxt(iflets[0]["else"])
                ok = (
                    "*%s=%s" % (names[0], new_n) in st
                    and "*%s=%s" % (names[1], A.binding_name(subs2[0])) in st
                    and "workspace.set_active(*%s,%s)" % (names[1], new_n) in nt
                    and "continue" in nt
                )
        if len(inner) == 1 and len(names) == 2 and None not in names:
            e = A.strip(inner[0]["e"])
            if e.get("k") == "MethodCall" and e["method"] == "active" and [A.ident(A.strip(x)) for x in e["args"]] == [names[1]]:
                some = none = None
                for ca in inner[0]["arms"]:
                    segs, subs2 = A.pat_variant(ca["pat"])
                    if segs and segs[-1] == "Some":
                        some = (ca, A.binding_name(subs2[0]))
                    elif segs and segs[-1] == "None":
                        none = ca
                if some and none:
                    st = A.ftxt(some[0]["body"])
                    nt = A.ftxt(none["body"])
                    ok = (
                        "*%s=%s" % (names[0], new_n) in st
                        and "*%s=%s" % (names[1], some[1]) in st
                        and "workspace.set_active(*%s,%s)" % (names[1], new_n) in nt
                        and "continue" in nt
                    )
        if ok:
            rule.ok("CopyReg: aliases an unused source to the destination, else renames both", file=DATA, line=a["ln"])
        else:
            rule.bad("CopyReg", "CopyReg arm must be `match active(src) { Some(s) => rename both, None => set_active(src, new_index); continue }`", A.where(fn, a))


def ops_out_name(fn):
    """the local holding the recycled op list: `let mut X = tape.ssa.tape;`"""
    for s in A.find(fn["body"], "Let"):
        if s.get("init") is not None and A.unparse(s["init"]).replace(" ", "") == "tape.ssa.tape" and A.binding_name(s["pat"]):
            return A.binding_name(s["pat"])
    raise A.AnchorLost("`let mut ops_out = tape.ssa.tape` (the recycled op list) in VmData::simplify")


def resolved_text(fn, e):
    """text of `e`, looking through a local bound once by a plain `let`"""
    e = A.strip(e) if e else e
    n = A.ident(e) if e else None
    if n:
        lets = [s for s in A.find(fn["body"], "Let") if A.binding_name(s["pat"]) == n and s.get("init") is not None]
        if len(lets) == 1:
            return A.unparse(lets[0]["init"]).replace(" ", "")
    return A.unparse(e).replace(" ", "") if e else ""


def r_tail(rule, root=None):
    """after the match: every surviving op is allocated and pushed once; the final
    accounting counts one op per active register plus one per output; the result
    keeps the parent's variable map and the counted choice/output numbers"""
    fn = simplify_fn(root)
    loop = main_loop(fn)
    stmts = loop["body"]["stmts"]
    OPS = ops_out_name(fn)
    tail = [A.ftxt(s) for s in stmts[-2:]]
    if tail == ["workspace.alloc.op(op);", "%s.push(op);" % OPS]:
        rule.ok("loop tail: alloc.op(op); ops_out.push(op)", file=DATA, line=stmts[-1]["ln"])
    else:
        rule.bad("tail", "the loop must end with `workspace.alloc.op(op); ops_out.push(op);`, found %s" % tail, A.where(fn, loop))
    asserts = [m for m in A.find(fn["body"], "Macro") if m["name"] == "assert_eq" and "%s.len()" % OPS in A.ftxt(m)]
    if len(asserts) == 1:
        args = asserts[0].get("args") or []
        other = [a for a in args if OPS not in A.unparse(a)]
        t = A.ftxt(other[0]) if other else ""
        if "workspace.count" in t and "output_count" in t and "+" in t:
            rule.ok("accounting: count + output_count == ops_out.len()", file=DATA, line=asserts[0]["ln"])
        else:
            rule.bad("accounting", "the op-count assertion compares ops_out.len() with `%s`; it must be the active-register count plus the number of outputs (a literal is only right for single-output functions)" % t, A.where(fn, asserts[0]))
    elif len(asserts) > 1:
        rule.bad("accounting|dup", "several op-count assertions", A.where(fn))
    else:
        rule.skip("accounting assertion", "no assert_eq! on ops_out.len() (nothing to contradict)")
    # the result struct
    structs = [s for s in A.find(fn["body"], "Struct") if A.path_segs(s["path"])[-1] == "VmData"]
    if len(structs) != 1:
        rule.bad("result|shape", "expected one `VmData { .. }` result", A.where(fn))
        return
    f = {x["name"]: x["e"] for x in structs[0]["fields"]}
    vt = A.ftxt(f.get("vars"))
    if vt != "self.vars.clone()":
        rule.bad("result|vars", "the simplified tape must share the parent's variable map (`self.vars.clone()`), found `%s`" % vt, A.where(fn, structs[0]))
    else:
        rule.ok("result shares self.vars")
    ssa = f.get("ssa")
    sf = {x["name"]: A.ftxt(x["e"]) for x in (A.strip(ssa) or {}).get("fields", [])} if ssa else {}
    want = {"tape": OPS, "choice_count": choice_counter_name(fn), "output_count": "output_count"}
    if sf != want:
        rule.bad("result|ssa", "the simplified SsaTape must be { tape: ops_out, choice_count, output_count }, found %s" % sf, A.where(fn, structs[0]))
    else:
        rule.ok("result SsaTape carries the rebuilt tape and the recounted choices/outputs")
    if resolved_text(fn, f.get("asm")) != "workspace.alloc.finalize()":
        rule.bad("result|asm", "asm must be the allocator's finalized tape", A.where(fn, structs[0]))
    else:
        rule.ok("result asm is the allocator's tape")
    # length check up front
    ifs = [i for i in A.find(fn["body"], "If") if "choices.len()" in A.ftxt(i["cond"]) and "choice_count" in A.unparse(i["cond"])]
    if ifs and A.strip(ifs[0]["cond"]).get("op") == "!=" and "Err" in A.unparse(ifs[0]["then"]):
        rule.ok("choice slice length is checked against the tape's choice count")
    else:
        rule.bad("lencheck", "simplify must reject a choice slice whose length differs from choice_count()", A.where(fn))


def r3_order_parity(rule, root=None):
    """evaluators walk the reversed RegTape (iter_asm = iter().rev()); simplify walks
    the SSA tape forward and the choices backward"""
    fn = A.find_fn(DATA, "iter_asm", self_ty="VmData", root=root)
    t = A.ftxt(fn["body"])
    if t.count(".rev()") == 1 and "self.asm.iter()" in t:
        rule.ok("iter_asm = asm.iter().rev()", file=DATA, line=fn["ln"])
    else:
        rule.bad("iter_asm", "iter_asm must reverse the allocator's output exactly once; found `%s`" % t, A.where(fn))
    sf = simplify_fn(root)
    it, let = choice_iter_name(sf)
    t = A.ftxt(let["init"])
    if t == "choices.iter().rev()":
        rule.ok("simplify consumes choices back to front", file=DATA, line=let["ln"])
    else:
        rule.bad("choice_iter", "simplify must consume `choices.iter().rev()`, found `%s`" % t, A.where(sf, let))
    loop = main_loop(sf)
    t = A.ftxt(loop["iter"])
    if ".rev()" in t:
        rule.bad("ssa-walk", "simplify must walk the SSA tape front to back, found `%s`" % t, A.where(sf, loop))
    else:
        rule.ok("simplify walks self.ssa.tape forward")
    # RegTape::new feeds the allocator in SSA order; SsaTape iter is forward
    rt = A.find_fn("fidget-core/src/compiler/reg_tape.rs", "new", self_ty="RegTape", root=root)
    # `for &op in ssa.iter() { alloc.op(op) }` or its iterator-chain spelling: one call fed by one forward walk
    feeds = [c for c in A.find(rt["body"], "MethodCall") if c["method"] == "op" and len(c["args"]) == 1 and A.ident(A.strip(c["recv"]))]
    binders = (A.enclosing_binders(rt["body"], feeds[0]) or []) if len(feeds) == 1 else []
    if len(binders) == 1 and binders[0][0] == A.ident(A.strip(feeds[0]["args"][0])) and A.iter_source(binders[0][1]) == "ssa":
        rule.ok("RegTape::new allocates in SSA order")
    else:
        rule.bad("regtape-new", "RegTape::new must feed every op of `ssa.iter()` to the allocator in order", A.where(rt))
