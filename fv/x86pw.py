"""Path summaries of the *branching* x86_64 clauses (abs / square / recip / sqrt / min / max / and / or / compare of
the single-point, interval and gradient assemblers), the x86_64 twin of `check_interval_piecewise` /
`check_grad_piecewise` in fv/a64sem.py.

A clause is acyclic.  Every entry-to-exit path is summarised from its dynasm source as
    (the comparisons that steer it, the output register's lanes, the choice ORed through [rsi], the simplify flag)
with lanes held as sympy expressions over the operand lanes, known bit patterns, or boolean masks (fv/x86sem.py's
lane model plus compare masks, `setcc` integers and the comparison flags).  Nothing is executed; the summaries are
then *decided* over the finite set of order types of the operands' value lanes / interval bounds (every ordering
of the bounds among themselves and against zero, ties included - one rational representative each): exactly one
path may be selected per order type, and on it

  single point  lane 0 is the interpreter's value, the choice is the interpreter's, the flag is set iff decided;
  gradient      all four lanes are the selected operand's (abs: negated below zero), compare: sign and zero partials;
  interval      the output encloses the operation's range over the box or is the NaN interval (C03 asks for enclosure,
                not for the interpreter's exact bounds), and the choice is the interpreter's.

Each clause is read with the output in its own register, aliased to either operand, with both operands in one
register, and with every operand the dispatch may pass in the immediate register placed there.  NaN operands are
the business of the NaN-screen rules; the paths behind `jp` are not selected by any real order type."""
import copy as _copy
import itertools
import math
import re
import struct
from fractions import Fraction

import sympy as sp

from . import asm as M
from . import asmchecks as AC
from . import x86sem as XS

Bits = XS.Bits
Unknown = XS.Unknown
ZERO = sp.Integer(0)
N = 8
Lx, Rx = XS.Lx, XS.Rx

CHOICE = {"CHOICE_LEFT": 1, "CHOICE_RIGHT": 2, "CHOICE_BOTH": 3}
CNAME = {1: "Left", 2: "Right", 3: "Both"}
CHOICE_RS = "fidget-core/src/vm/choice.rs"


def choice_encoding(root=None):
    """the discriminants of `Choice` as the source gives them -> {"Unknown": 0, "Left": 1, ..} (None: not literal)"""
    from . import ast as A_

    e = A_.find_item(CHOICE_RS, "EnumDef", "Choice", root)
    out = {}
    for v in e["variants"]:
        d = v.get("disc") if isinstance(v, dict) else None
        if d is None:
            return None
        val = A_.lit_value(d) if isinstance(d, dict) else d
        try:
            out[v["name"]] = int(val)
        except Exception:  # noqa: BLE001
            return None
    return out


def r_choice_encoding(rule, root=None):
    """one byte per choice clause is shared by the interpreter (`choices[i] |= c`), the native code (`or [rsi], K`,
    and the single-point and / or clauses that *compute* the byte as 2 - (lhs == 0) / (lhs == 0) + 1) and simplify:
    Unknown is the empty byte, Both is Left | Right, and the computed bytes are Left = 1, Right = 2"""
    from . import ast as A_

    enc = choice_encoding(root)
    if enc is None or set(enc) != {"Unknown", "Left", "Right", "Both"}:
        rule.lost("literal discriminants of enum Choice")
        return
    if enc["Unknown"] == 0 and enc["Both"] == (enc["Left"] | enc["Right"]) and enc["Left"] != enc["Right"] and enc["Left"] and enc["Right"] and (enc["Left"] & enc["Right"]) == 0:
        rule.ok("Choice is a two-bit set: Unknown = 0, Both = Left | Right", file=CHOICE_RS)
    else:
        rule.bad("encoding|lattice", "Choice's discriminants are %s: accumulating choices with `|=` (interpreter, native `or [rsi], k`) needs Unknown = 0, disjoint Left / Right bits and Both = Left | Right" % enc, CHOICE_RS)
    if (enc["Left"], enc["Right"]) == (1, 2):
        rule.ok("Left = 1, Right = 2: what the single-point and / or clauses compute arithmetically", file=CHOICE_RS)
    else:
        rule.bad("encoding|computed", "Choice::Left = %d, Choice::Right = %d, but the single-point `and` / `or` clauses compute their choice byte as 2 - (lhs == 0) and (lhs == 0) + 1, i.e. assume Left = 1 and Right = 2" % (enc["Left"], enc["Right"]), CHOICE_RS)
    lib = A_.load("fidget-jit/src/lib.rs", root)
    consts = {c.get("name"): A_.unparse(c.get("e") or {}).replace(" ", "") for c in A_.find(lib, "Const")}
    for n_, v_ in (("CHOICE_LEFT", "Left"), ("CHOICE_RIGHT", "Right"), ("CHOICE_BOTH", "Both")):
        t_ = consts.get(n_, "").strip("()")
        if t_.startswith("Choice::%sas" % v_) or t_ == "Choice::%s" % v_:
            rule.ok("%s is Choice::%s" % (n_, v_), file="fidget-jit/src/lib.rs")
        else:
            rule.bad("encoding|const|%s" % n_, "%s is `%s`; it must be Choice::%s" % (n_, t_, v_), "fidget-jit/src/lib.rs")


POSZERO = sp.Function("poszero")  # 1 for the bit pattern of +0.0, 0 for everything else (-0.0 included)


class BM:
    """a lane holding a compare mask: all ones where `c` holds, zero elsewhere"""

    def __init__(self, c):
        self.c = c

    def __repr__(self):
        return "mask(%s)" % (self.c,)


class IntV:
    """an integer in a general register"""

    def __init__(self, e):
        self.e = e

    def __repr__(self):
        return "int(%s)" % (self.e,)


def _mask_of(v):
    if isinstance(v, BM):
        return v.c
    if isinstance(v, Bits):
        if v.v == 0xFFFFFFFF:
            return sp.true
        if v.v == 0:
            return sp.false
    return None


def _real(v):
    """a lane as a real number expression (None: not a finite real)"""
    if v is None or isinstance(v, (BM, IntV)):
        return None
    return XS._as_float(v)


def _int_of(v):
    if isinstance(v, IntV):
        return v.e
    if isinstance(v, Bits):
        return sp.Integer(v.v)
    return None


_REL = {"lt": sp.StrictLessThan, "le": sp.LessThan, "gt": sp.StrictGreaterThan, "ge": sp.GreaterThan, "eq": sp.Eq, "neq": sp.Ne}
_POINTERS = ("rsi", "rdx", "rdi", "rcx", "rsp", "rbp")


class PEmu(XS.Emu):
    def __init__(self, assign, imm_const=None):
        super().__init__(assign, imm_const)
        self.flags = None
        self.choices = []
        self.flag_writes = 0
        self.bumps = 0

    # -- flags --------------------------------------------------------------------------------------------------
    def cond(self, cc):
        """sympy condition under which `j<cc>` / `set<cc>` is taken / 1, for operands that are not NaN"""
        f = self.flags
        if f is None:
            return None
        if f[0] == "m":
            c = f[1]
            return {"p": c, "np": sp.Not(c)}.get(cc)
        if f[0] == "z":
            z = sp.Eq(POSZERO(f[1]), 1)
            return {"e": z, "z": z, "ne": sp.Not(z), "nz": sp.Not(z)}.get(cc)
        _k, a, b = f
        if cc == "p":
            return sp.false
        if cc == "np":
            return sp.true
        if a is None or b is None:
            return None
        t = {"a": a > b, "nbe": a > b, "ae": a >= b, "nb": a >= b, "nc": a >= b, "b": a < b, "c": a < b, "nae": a < b, "be": a <= b, "na": a <= b,
             "e": sp.Eq(a, b), "z": sp.Eq(a, b), "ne": sp.Ne(a, b), "nz": sp.Ne(a, b)}
        return t.get(cc)

    # -- one instruction ----------------------------------------------------------------------------------------
    def step(self, x):
        m, ops = x.mnem, x.ops
        e = M.effect(x)
        if e.kind == "label":
            return
        vex = m.startswith("v")
        base = m[1:] if vex else m
        if base in ("comiss", "ucomiss") and len(ops) == 2 and all(o.kind == "vec" for o in ops):
            a, b = self.get(ops[0])[0], self.get(ops[1])[0]
            ma, mb = isinstance(a, BM), isinstance(b, BM)
            if ma != mb:
                other = b if ma else a
                if _real(other) is not None:
                    # a compare mask against a number: unordered exactly where the mask is set (all ones is a NaN)
                    self.flags = ("m", (a if ma else b).c)
                    return
                self.flags = None
                return
            self.flags = ("f", _real(a), _real(b))
            return
        if m == "test" and len(ops) == 2 and ops[0].kind == "gpr" and ops[1].kind == "gpr" and ops[0].name == ops[1].name:
            val = self.g.get(ops[0].name)
            rv = _real(val) if not isinstance(val, (IntV, BM)) else None
            if rv is not None:
                # ZF iff every bit is clear: +0.0 and nothing else (not -0.0)
                self.flags = ("z", rv)
                return
        if e.kind in ("cmp",):
            self.flags = None  # integer compare / test: not modelled
            return
        if e.kind == "setcc":
            c = self.cond(m[3:])
            self.g[ops[0].name] = IntV(sp.Piecewise((1, c), (0, True))) if c is not None else None
            return
        if e.kind in ("jcc", "jmp"):
            return
        if e.kind in ("call", "push", "pop", "ret") or e.unknown:
            raise Unknown("`%r` is outside the modelled subset" % x)
        d = ops[0] if ops else None
        if d is not None and d.kind == "mem":
            if m == "or" and d.regs == ["rsi"] and not d.sym and d.off == 0 and len(ops) == 2:
                s = ops[1]
                if s.kind == "imm":
                    t = re.sub(r"\s+|as\s*i8|as\s*u8", "", s.text).replace("asi8", "").replace("asu8", "")
                    t = re.sub(r"as(i8|u8|i32|u32)$", "", t.replace(" ", ""))
                    v = CHOICE.get(t)
                    if v is None:
                        k = self.imm(s.text)
                        v = k
                    self.choices.append(sp.Integer(v) if v is not None else None)
                elif s.kind == "gpr":
                    self.choices.append(_int_of(self.g.get(s.name)))
                else:
                    self.choices.append(None)
                return
            if m == "or" and d.regs == ["rdx"] and not d.sym and d.off == 0 and len(ops) == 2:
                self.flag_writes += 1
                return
            raise Unknown("`%r` writes memory" % x)
        if d is not None and d.kind == "gpr":
            if d.name in _POINTERS:
                if d.name == "rsi" and m in ("add", "inc", "lea"):
                    self.bumps += 1
                return
            if m == "xor" and len(ops) == 2 and ops[1].kind == "gpr" and ops[1].name == d.name:
                self.g[d.name] = Bits(0)
                return
            if m in ("and", "sub", "add", "or") and len(ops) == 2:
                a = _int_of(self.g.get(d.name))
                if ops[1].kind == "gpr":
                    b = _int_of(self.g.get(ops[1].name))
                elif ops[1].kind == "imm":
                    k = self.imm(ops[1].text)
                    b = sp.Integer(k) if k is not None else None
                else:
                    b = None
                if a is None or b is None:
                    self.g[d.name] = None
                elif m == "and":
                    # only the 0 / 1 results of setcc are combined this way
                    self.g[d.name] = IntV(a * b) if _is01(a) and _is01(b) else None
                elif m == "or":
                    self.g[d.name] = IntV(sp.Max(a, b)) if _is01(a) and _is01(b) else None
                else:
                    self.g[d.name] = IntV(a - b if m == "sub" else a + b)
                self.flags = None
                return
            if m in ("inc", "dec") and len(ops) == 1:
                a = _int_of(self.g.get(d.name))
                self.g[d.name] = IntV(a + (1 if m == "inc" else -1)) if a is not None else None
                return
            if m == "mov" and len(ops) == 2 and ops[1].kind == "gpr":
                self.g[d.name] = self.g.get(ops[1].name)
                return
            return super().step(x)
        if d is None or d.kind != "vec":
            raise Unknown("`%r`" % x)
        w = 8 if d.width == 32 else 4
        mm = re.fullmatch(r"cmp(lt|le|gt|ge|eq|neq)(ss|ps)", base)
        if mm and len(ops) == 3 and all(o.kind == "vec" for o in ops):
            a, b = self.get(ops[1]), self.get(ops[2])
            rel = _REL[mm.group(1)]
            out = []
            for p, q in zip(a, b):
                p_, q_ = _real(p), _real(q)
                out.append(BM(rel(p_, q_)) if p_ is not None and q_ is not None else None)
            if mm.group(2) == "ss":
                out = [out[0]] + a[1:4]
            self.put(d, out, vex)
            return
        mm = re.fullmatch(r"p?(xor|and|or|andn)(ps|pd|d|q)?", base)
        if mm and len(ops) == 3 and all(o.kind == "vec" for o in ops):
            a, b = self.get(ops[1]), self.get(ops[2])
            if any(isinstance(q, BM) for q in a + b) and ops[1].name != ops[2].name:
                op = mm.group(1)
                out = []
                for p, q in zip(a, b):
                    if isinstance(p, BM) or isinstance(q, BM):
                        cp, cq = _mask_of(p), _mask_of(q)
                        if (cp is None) != (cq is None) and op in ("and", "andn"):
                            # a mask selecting a value: the value where the mask is set, +0.0 elsewhere
                            mk, val = (cp, q) if cp is not None else (cq, p)
                            rv = _real(val)
                            if rv is None or (op == "andn" and cp is None):
                                out.append(None)
                            elif op == "and":
                                out.append(sp.Piecewise((rv, mk), (ZERO, True)))
                            else:
                                out.append(sp.Piecewise((ZERO, mk), (rv, True)))
                        elif cp is None or cq is None:
                            out.append(None)
                        else:
                            out.append(BM({"and": sp.And(cp, cq), "or": sp.Or(cp, cq), "xor": sp.Xor(cp, cq), "andn": sp.And(sp.Not(cp), cq)}[op]))
                    else:
                        out.append(XS._bitop(op, p, q))
                self.put(d, out, vex)
                return
        if base == "pinsrd" and len(ops) == 4 and ops[1].kind == "vec" and ops[2].kind == "gpr" and ops[3].kind == "imm":
            k = self.imm(ops[3].text)
            s = self.get(ops[1])
            if k is None or not 0 <= k < 4:
                raise Unknown("`%r`" % x)
            s[k] = self.g.get(ops[2].name)
            if isinstance(s[k], IntV):
                s[k] = None
            self.put(d, s, vex)
            return
        if base in ("psllq", "psrlq") and len(ops) == 3 and ops[2].kind == "imm":
            k = self.imm(ops[2].text)
            s = self.get(ops[1])
            if k == 32:
                z = Bits(0)
                out = [z, s[0], z, s[2]] if base == "psllq" else [s[1], z, s[3], z]
            else:
                out = [None] * 4
            self.put(d, out, vex)
            return
        if base in ("unpcklps", "punpckldq") and len(ops) == 3 and all(o.kind == "vec" for o in ops):
            a, b = self.get(ops[1]), self.get(ops[2])
            self.put(d, [a[0], b[0], a[1], b[1]], vex)
            return
        if base in ("unpckhps", "punpckhdq") and len(ops) == 3 and all(o.kind == "vec" for o in ops):
            a, b = self.get(ops[1]), self.get(ops[2])
            self.put(d, [a[2], b[2], a[3], b[3]], vex)
            return
        if base == "movd" and len(ops) == 2 and ops[1].kind == "gpr":
            v = self.g.get(ops[1].name)
            self.put(d, [None if isinstance(v, IntV) else v] + [Bits(0)] * 3, True)
            return
        return super().step(x)


def _is01(e):
    try:
        vals = set()
        if isinstance(e, sp.Piecewise):
            vals = {a for a, _c in e.args}
        elif e.is_Integer:
            vals = {e}
        else:
            return all(_is01(a) for a in e.args) and isinstance(e, (sp.Mul, sp.Max)) if e.args else False
        return all(v in (0, 1) for v in vals)
    except Exception:  # noqa: BLE001
        return False


# ---------------------------------------------------------------------------------------------------------------
# path summaries


class PathSum:
    def __init__(self, conds, em, ok, why, lines):
        self.conds, self.em, self.ok, self.why, self.lines = conds, em, ok, why, lines
        self.cache = {}


def summarise(ins, assign, imm_const=None, lets=None):
    succ, probs = M.build_cfg(ins)
    if probs:
        return None, "control flow: %s" % probs[0][1]
    paths, cyclic = M.enumerate_paths(ins, succ)
    if cyclic:
        return None, "the clause loops"
    out = []
    for path in paths:
        idx = [i for i in path if not isinstance(i, str)]
        em = PEmu(dict(assign), imm_const)
        em.lets = lets or {}
        conds = []
        ok, why = True, None
        for pos, i in enumerate(idx):
            x = ins[i]
            if x.label is not None:
                continue
            e = M.effect(x)
            if e.kind == "jcc":
                nxt = idx[pos + 1] if pos + 1 < len(idx) else len(ins)
                tgt = [s for s in succ[i] if s != i + 1]
                if not tgt:
                    continue  # jumps to the next instruction: both ways alike
                taken = nxt == tgt[0] and nxt != i + 1
                c = em.cond(x.mnem[1:])
                if c is None:
                    ok, why = False, "`%r` tests flags outside the modelled compares" % x
                    break
                conds.append(c if taken else sp.Not(c))
                continue
            try:
                em.step(x)
            except Unknown as ex:
                ok, why = False, str(ex)
                break
        out.append(PathSum(conds, em, ok, why, [ins[i].ln for i in idx]))
    return out, None


# ---------------------------------------------------------------------------------------------------------------
# deciding over order types

_MODS = [{"Min": min, "Max": max, "Abs": abs, "sqrt": lambda v: math.sqrt(v),
          "poszero": lambda v: 1 if (v == 0 and math.copysign(1.0, float(v)) > 0) else 0}, "math"]


def _fn(syms, expr):
    return sp.lambdify(syms, expr, modules=_MODS)


def _lane_fn(syms, v):
    """-> callable(env tuple) giving a Fraction / float (NaN, inf allowed), or None when the lane is not a number"""
    if v is None or isinstance(v, (BM, IntV)):
        return None
    if isinstance(v, Bits):
        f = struct.unpack("<f", struct.pack("<I", v.v))[0]
        if f == f and f not in (float("inf"), float("-inf")):
            f = Fraction(f)
        return lambda *a, _f=f: _f
    return _fn(syms, v)


def _isnan(v):
    return isinstance(v, float) and v != v


def _neg0(v):
    return isinstance(v, float) and v == 0 and math.copysign(1.0, v) < 0


def _fmt(v):
    return "-0.0" if _neg0(v) else str(v)


GRID = [Fraction(k) for k in (-3, -2, -1, 0, 1, 2, 3)]
INF = float("inf")
# single values also range over the infinities and the negative zero (C02 asks for the interpreter's bits, and a
# clause that computes its answer arithmetically - `lhs - rhs` for "equal" - goes wrong exactly there)
PGRID = [-INF] + GRID[:3] + [-0.0] + GRID[3:] + [INF]
IGRID = [-INF] + GRID + [INF]
IVALS = [(a, b) for a in IGRID for b in IGRID if a <= b]


def witnesses(kind, binary, same, imm):
    """representatives of the order types of the operand lanes that steer a clause of this evaluator
    -> list of (L lanes, R lanes)"""
    out = []
    if kind == "interval":
        ls = IVALS
        rs = [(c, c) for c in IGRID] if imm == 1 else IVALS
        if imm == 0:
            ls = [(c, c) for c in IGRID]
        if not binary:
            return [(list(a), None) for a in ls]
        if same:
            return [(list(a), list(a)) for a in ls]
        return [(list(a), list(b)) for a in ls for b in rs]
    g = PGRID if kind == "point" else GRID
    if not binary:
        return [([a], None) for a in g]
    if same:
        return [([a], [a]) for a in g]
    return [([a], [b]) for a in g for b in g]


# -- the interpreter's meaning, per order type (frozen from fidget-core/src/types/{float,interval,grad}.rs; the
#    sibling rules C03.R1 / C05.R3 / C20.R2n read those bodies themselves) ----------------------------------------

NAN = "nan"


def _cmp(a, b):
    return (a > b) - (a < b)


def want_point(op, a, b):
    """-> (value, choice or None)"""
    a = a[0]
    b = b[0] if b is not None else None
    if op == "max":
        return (max(a, b), 1 if a > b else (2 if b > a else 3))
    if op == "min":
        return (min(a, b), 1 if a < b else (2 if b < a else 3))
    if op == "and":
        return (a, 1) if a == 0 else (b, 2)
    if op == "or":
        return (a, 1) if a != 0 else (b, 2)
    if op == "compare":
        return (Fraction(_cmp(a, b)), None)
    return None


def want_interval(op, a, b):
    """-> (lower, upper) of the operation's range over the box (NAN: outside the domain), choice or None"""
    lo, hi = a
    if op == "abs":
        if lo < 0:
            return ((0, max(hi, -lo)) if hi > 0 else (-hi, -lo)), None
        return (lo, hi), None
    if op == "square":
        if hi < 0:
            return (hi * hi, lo * lo), None
        if lo > 0:
            return (lo * lo, hi * hi), None
        return (0, max(lo * lo, hi * hi)), None
    if op == "sqrt":
        if lo < 0:
            return NAN, None
        return (math.sqrt(lo), math.sqrt(hi)), None
    if op == "recip":
        if lo > 0 or hi < 0:
            return (1 / hi, 1 / lo), None
        return NAN, None
    if op == "not":
        if lo > 0 or hi < 0:
            return (0, 0), None
        if lo == 0 and hi == 0:
            return (1, 1), None
        return (0, 1), None
    b0, b1 = b
    if op == "min":
        return (min(lo, b0), min(hi, b1)), (1 if hi < b0 else (2 if b1 < lo else 3))
    if op == "max":
        return (max(lo, b0), max(hi, b1)), (1 if lo > b1 else (2 if b0 > hi else 3))
    contains0 = lo <= 0 <= hi
    if op == "and":
        if lo == 0 and hi == 0:
            return (0, 0), 1
        if not contains0:
            return (b0, b1), 2
        return (min(b0, 0), max(b1, 0)), 3
    if op == "or":
        if not contains0:
            return (lo, hi), 1
        if lo == 0 and hi == 0:
            return (b0, b1), 2
        return (min(lo, b0), max(hi, b1)), 3
    if op == "compare":
        if hi < b0:
            return (-1, -1), None
        if lo > b1:
            return (1, 1), None
        if lo == hi == b0 == b1:
            return (0, 0), None
        # the sign can take the values the overlap allows: enclose them
        vals = set()
        if lo < b1:
            vals.add(-1)
        if hi > b0:
            vals.add(1)
        if lo <= b1 and hi >= b0:
            vals.add(0)
        return (min(vals), max(vals)), None
    return None


CLAUSES = {
    "point": ("max", "min", "and", "or", "compare"),
    "interval": ("abs", "square", "recip", "sqrt", "max", "min", "and", "or", "compare", "not"),
    "grad_slice": ("abs", "max", "min", "compare"),
}
UNARY = ("abs", "square", "recip", "sqrt", "not")
BRANCH_FREE_TOO = ("not",)  # mask-selected results: one path, decided over the same order types
CHOICE_OPS = ("max", "min", "and", "or")


def _rename(ins, mapping):
    ins = _copy.deepcopy(ins)
    for x in ins:
        for o in x.ops:
            if o.kind == "vec" and o.name in mapping:
                o.name = mapping[o.name]
    return ins


def _imm_lanes(kind, base):
    if kind == "interval":
        return [base[0], base[0]] + [ZERO] * 6
    if kind == "grad_slice":
        return [base[0], ZERO, ZERO, ZERO] + [None] * 4
    return [base[0]] + [None] * 7


def check_piecewise(rule, kind, root=None, only=None, choices=True):
    p = AC.path_of(kind)
    builders = M.load_builders(p, root)
    immpos = AC.imm_positions(root)
    tracing = choices and kind in ("point", "interval")
    for op in CLAUSES[kind]:
        if only and op not in only:
            continue
        name = "build_%s" % op
        b = builders.get(name)
        if b is None:
            rule.lost("x86_64 %s %s" % (kind, name))
            continue
        ins0 = AC.stream(b, builders)
        if op not in BRANCH_FREE_TOO and not any(M.effect(x).kind in ("jcc", "setcc") for x in ins0 if x.label is None):
            rule.skip("x86_64 %s %s" % (kind, name), "branch-free: decided by the lane / mask semantics rules", count=False)
            continue
        if b.helper_calls and any(n.startswith("call_fn") for n, _a, _c in b.helper_calls):
            rule.skip("x86_64 %s %s" % (kind, name), "calls out: corner-reduction / callback rules", count=False)
            continue
        if AC.conditional_blocks(b):
            rule.skip("x86_64 %s %s" % (kind, name), "dynasm blocks under Rust control flow", count=True)
            continue
        outp = AC.out_param(b)
        inputs = [n_ for (n_, ty) in b.params if ty == "u8" and n_ != outp]
        binary = op not in UNARY
        if not outp or len(inputs) != (2 if binary else 1):
            rule.lost("x86_64 %s %s: operand registers" % (kind, name))
            continue
        pnames = [n_ for (n_, _ty) in b.params]
        scen = [("distinct registers", {}, False, None)]
        for n_ in inputs:
            scen.append(("output in `%s`'s register" % n_, {"T:%s" % outp: "T:%s" % n_}, False, None))
        if binary:
            scen.append(("both operands in one register", {"T:%s" % inputs[1]: "T:%s" % inputs[0]}, True, None))
        for pos in sorted(immpos.get(name, ())):
            if pos < len(pnames) and pnames[pos] in inputs:
                k = inputs.index(pnames[pos])
                scen.append(("`%s` in the immediate register" % pnames[pos], {"T:%s" % pnames[pos]: "0"}, False, k))
        verdict = None
        ncases = 0
        npaths = 0
        lets = XS._local_lets(b)
        for desc, mapping, same, immk in scen:
            ins = _rename(ins0, mapping) if mapping else ins0
            assign = {}
            la, ra = list(Lx), list(Rx)
            if immk == 0:
                la = _imm_lanes(kind, Lx)
            if immk == 1:
                ra = _imm_lanes(kind, Rx)
            n0 = mapping.get("T:%s" % inputs[0], "T:%s" % inputs[0])
            assign[n0] = la
            if binary and not same:
                assign[mapping.get("T:%s" % inputs[1], "T:%s" % inputs[1])] = ra
            sums, why = summarise(ins, assign, None, lets)
            if sums is None:
                verdict = ("skip", why)
                break
            out_name = mapping.get("T:%s" % outp, "T:%s" % outp)
            nl = {"point": 1, "interval": 2, "grad_slice": 4}[kind]
            steer = 2 if kind == "interval" else 1
            syms = list(Lx[:steer]) + list(Rx[:steer])
            comp = []
            for s in sums:
                if not s.ok:
                    comp.append(None)
                    continue
                try:
                    cf = [_fn(syms, c) for c in s.conds]
                except Exception as ex:  # noqa: BLE001
                    comp.append(None)
                    s.ok, s.why = False, "condition not evaluable: %s" % ex
                    continue
                comp.append(cf)
            npaths = max(npaths, len(sums))
            for wl, wr in witnesses(kind, binary, same, immk):
                env = tuple((wl + [0, 0])[:steer]) + tuple(((wr or []) + [0, 0])[:steer])
                taken = []
                blocked = None
                for s, cf in zip(sums, comp):
                    if cf is None:
                        # an unmodelled path: only a problem if nothing else is selected
                        blocked = s
                        continue
                    try:
                        if all(bool(f(*env)) for f in cf):
                            taken.append(s)
                    except Exception:  # noqa: BLE001
                        blocked = s
                if len(taken) != 1:
                    if blocked is not None:
                        verdict = ("skip", blocked.why or "a path is outside the modelled subset")
                    else:
                        verdict = ("bad", "for %s the clause's tests select %d paths (%s)" % (_show(kind, wl, wr), len(taken), desc))
                    break
                s = taken[0]
                ncases += 1
                got = s.em.v.get(out_name) or s.em.assign.get(out_name) or [None] * N
                msg = _judge(kind, op, wl, wr, s, got, syms, env, nl, tracing, la, (la if same else ra))
                if msg:
                    verdict = (msg[0], "%s, %s: %s" % (_show(kind, wl, wr), desc, msg[1]))
                    break
            if verdict:
                break
        if verdict is None:
            rule.ok("x86_64 %s %s: %d order types x operand placements over %d paths give the interpreter's result" % (kind, name, ncases, npaths), file=p, line=b.fn["ln"])
        elif verdict[0] == "bad":
            rule.bad("x86|%s|%s|piecewise" % (kind, name), "x86_64 %s %s: %s" % (kind, name, verdict[1]), "%s:%d" % (p, b.fn["ln"]))
        else:
            rule.skip("x86_64 %s %s" % (kind, name), verdict[1], count=True)


def _show(kind, wl, wr):
    def iv(w):
        return "[%s, %s]" % (w[0], w[1]) if kind == "interval" else "%s" % w[0]

    return ("lhs = %s" % iv(wl)) + ((", rhs = %s" % iv(wr)) if wr is not None else "")


def _num(got, l, syms, env, rest, cache=None):
    key = ("lane", l)
    if cache is not None and key in cache:
        f = cache[key]
    else:
        f = _lane_fn(syms + rest, got[l]) if l < len(got) else None
        if cache is not None:
            cache[key] = f
    if f is None:
        return None, "lane %d of the output is outside the modelled subset" % l
    try:
        return f(*(env + tuple(rest))), None
    except ZeroDivisionError:
        return None, "lane %d of the output divides by zero" % l


def _judge(kind, op, wl, wr, s, got, syms, env, nl, tracing, la, ra):
    em = s.em
    choice_want = None
    if kind == "point":
        w = want_point(op, wl, wr)
        if w is None:
            return None
        v, err = _num(got, 0, syms, env, [], s.cache)
        if v is None:
            return ("skip", err)
        zeros = op in ("max", "min") and wl[0] == 0 and wr[0] == 0  # the one exemption C02 grants: the sign of such a zero
        if _isnan(v) or v != w[0] or (v == 0 and not zeros and _neg0(v) != _neg0(w[0])):
            return ("bad", "the output is %s, the interpreter's is %s" % (_fmt(v), _fmt(w[0])))
        choice_want = w[1]
    elif kind == "interval":
        w = want_interval(op, wl, wr)
        if w is None:
            return None
        rng, choice_want = w
        lo, e0 = _num(got, 0, syms, env, [], s.cache)
        hi, e1 = _num(got, 1, syms, env, [], s.cache)
        if lo is None or hi is None:
            return ("skip", e0 or e1)
        if _isnan(lo) or _isnan(hi):
            pass  # the NaN interval encloses by convention
        elif rng == NAN:
            if not (lo == float("-inf") and hi == float("inf")):
                return ("bad", "the output is [%s, %s] although the box leaves the operation's domain (the interpreter answers the NaN interval)" % (lo, hi))
        elif lo > rng[0] or hi < rng[1]:
            return ("bad", "the output [%s, %s] does not enclose the operation's range [%s, %s]" % (lo, hi, rng[0], rng[1]))
    else:
        # gradient: lanes 1..3 stay symbolic; compare them as expressions after fixing the value lanes
        sub = {Lx[0]: wl[0]}
        if wr is not None:
            sub[Rx[0]] = wr[0]
        a = [q if q is not None else ZERO for q in la[:4]]
        bb = [q if q is not None else ZERO for q in ra[:4]] if wr is not None else None
        if op == "abs":
            want = [-q for q in a] if wl[0] < 0 else a
        elif op == "max":
            want = a if wl[0] > wr[0] else bb
        elif op == "min":
            want = a if wl[0] < wr[0] else bb
        elif op == "compare":
            want = [sp.Integer(_cmp(wl[0], wr[0])), ZERO, ZERO, ZERO]
        else:
            return None
        want = [sp.sympify(q).subs(sub) for q in want]
        # C05 excludes the non-differentiable loci: at a tie of min / max (operands in different registers) and at the
        # zero of abs only the value lane is compared
        tie = (op in ("max", "min") and wl[0] == wr[0]) or (op == "abs" and wl[0] == 0)
        for l in range(1 if tie else nl):
            g = got[l] if l < len(got) else None
            g = _real(g)
            if g is None:
                return ("skip", "lane %d of the output is outside the modelled subset" % l)
            g = sp.sympify(g).subs(sub)
            if sp.simplify(g - want[l]) != 0:
                return ("bad", "lane %d of the output is `%s`, the interpreter's is `%s`" % (l, g, want[l]))
    if tracing and op in CHOICE_OPS:
        if len(em.choices) != 1:
            return ("bad", "the selected path ORs %d choices through [rsi]" % len(em.choices))
        c = em.choices[0]
        if c is None:
            return ("skip", "the choice written through [rsi] is outside the modelled subset")
        try:
            if "choice" not in s.cache:
                s.cache["choice"] = _fn(syms, c)
            cv = int(s.cache["choice"](*env))
        except Exception:  # noqa: BLE001
            return ("skip", "the choice written through [rsi] is outside the modelled subset")
        if cv != choice_want:
            return ("bad", "the choice recorded is %s, the interpreter's is %s" % (CNAME.get(cv, cv), CNAME[choice_want]))
        if (em.flag_writes > 0) != (choice_want != 3):
            return ("bad", "the simplify flag is %s although the choice is %s" % ("set" if em.flag_writes else "not set", CNAME[choice_want]))
        if em.bumps != 1:
            return ("bad", "the choice pointer is advanced %d times on the selected path" % em.bumps)
    return None
