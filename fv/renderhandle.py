"""fidget-core/src/render/mod.rs RenderHandle: cached simplification keyed by trace,
tape caches, recycle order (C04.R4, C10.R5)."""
import re

from . import ast as A

RM = "fidget-core/src/render/mod.rs"


def txt(n):
    return A.ftxt(n)


def _lazy_slot(f, name, tape):
    """the explicit spelling of get_or_insert_with: the slot is filled with this shape's own tape exactly
    when it is empty, and the slot's content is what is returned"""
    view = A.value_view(f["body"])
    fills = [a for a in A.find(view, "Assign") if str(A.ftxt(a["left"])) == "self.%s" % name]
    if len(fills) != 1:
        return False
    rhs = str(A.ftxt(fills[0]["right"]))
    import re as _re

    m = _re.fullmatch(r"Some\(self\.shape\.%s\((.+)\)\)" % tape, rhs)
    if not m:
        return False
    arg = m.group(1)
    if arg != "storage.pop().unwrap_or_default()":
        # recycled storage taken just before: `let s = storage.pop().unwrap_or_default();`
        lets = [l for l in A.find(view, "Let") if A.binding_name(l["pat"]) == arg and l.get("init") is not None and str(A.ftxt(l["init"])) == "storage.pop().unwrap_or_default()"]
        if len(lets) != 1:
            return False
    conds = [A.norm_cond(c) for c in (A.enclosing_conds(view, fills[0]) or [])]
    if conds != ["self.%s.is_none()" % name]:
        return False
    tail = A.strip(A.stmt_expr(view["stmts"][-1]) or {})
    return str(A.ftxt(tail)) in ("self.%s.as_ref().unwrap()" % name, "self.%s.as_ref().expect(\"tape\")" % name)


def _is_trace_copy(fn, e, depth=0):
    """is the value of `e` a copy of `trace` on every path: `trace.clone()`, recycled storage after
    `.copy_from(trace)`, a branch / match all of whose arms are, or a local bound to one"""
    e = A.strip(e)
    if e is None or depth > 6:
        return False
    k = e.get("k")
    t = str(A.ftxt(e))
    if t in ("trace.clone()", "trace.to_owned()", "Clone::clone(trace)", "(*trace).clone()"):
        return True
    if k == "Block":
        stmts = e.get("stmts") or []
        if not stmts or stmts[-1].get("semi"):
            return False
        tail = A.strip(A.stmt_expr(stmts[-1]))
        if tail is None:
            return False
        nm = A.ident(tail)
        if nm and any(str(A.ftxt(A.stmt_expr(s_) or {})) == "%s.copy_from(trace)" % nm for s_ in stmts[:-1]):
            return True
        return len(stmts) == 1 and _is_trace_copy(fn, tail, depth + 1)
    if k == "If":
        return e.get("else") is not None and _is_trace_copy(fn, e["then"], depth + 1) and _is_trace_copy(fn, e["else"], depth + 1)
    if k == "Match":
        return bool(e["arms"]) and all(_is_trace_copy(fn, a["body"], depth + 1) for a in e["arms"])
    if k == "Path" and A.ident(e):
        lets = [s_ for s_ in A.find(fn["body"], "Let") if A.binding_name(s_["pat"]) == A.ident(e) and s_.get("init") is not None]
        return len(lets) == 1 and _is_trace_copy(fn, lets[0]["init"], depth + 1)
    if k == "MethodCall" and e["method"] in ("unwrap", "expect") and A.ident(A.strip(e["recv"])):
        # `if let Some(t) = S.as_mut() { t.copy_from(trace); } else { S = Some(<copy>); }  ..  S.unwrap()`
        sname = A.ident(A.strip(e["recv"]))
        for i in A.find(fn["body"], "If"):
            c = str(A.ftxt(A.strip(i["cond"])))
            import re as _re

            m = _re.fullmatch(r"\(?letSome\((\w+)\)=%s\.as_mut\(\)\)?" % _re.escape(sname), c)
            if not m or i.get("else") is None:
                continue
            then_t = str(A.ftxt(i["then"]))
            els = [a for a in A.find(i["else"], "Assign") if str(A.ftxt(a["left"])) == sname]
            if then_t == "{%s.copy_from(trace);}" % m.group(1) and len(els) == 1:
                r = A.strip(els[0]["right"])
                if r.get("k") == "Call" and A.is_path(r["func"], "Some") and len(r["args"]) == 1 and _is_trace_copy(fn, r["args"][0], depth + 1):
                    return True
        return False
    if k == "MethodCall" and e["method"] in ("unwrap_or_else", "unwrap_or") and len(e["args"]) == 1:
        alt = A.strip(e["args"][0])
        if alt.get("k") == "Closure":
            alt = alt["body"]
        r = A.strip(e["recv"])
        if r.get("k") == "MethodCall" and r["method"] == "map" and len(r["args"]) == 1 and A.strip(r["args"][0]).get("k") == "Closure":
            return _is_trace_copy(fn, alt, depth + 1) and _is_trace_copy(fn, A.strip(r["args"][0])["body"], depth + 1)
        return False
    return False


FRESH = "RenderHandle{shape:next,i_tape:None,f_tape:None,g_tape:None,next:None}"


def _fresh_child(fn, e, depth=0, root=None):
    """`Box::new(<a RenderHandle for the new shape with empty tape caches and no child>)`: the struct literal,
    or `RenderHandle::new(next)` (whose body is that literal), possibly through a local"""
    e = A.strip(e)
    if depth > 3:
        return False
    n = A.ident(e)
    if n:
        lets = [s_ for s_ in A.find(fn["body"], "Let") if A.binding_name(s_["pat"]) == n and s_.get("init") is not None]
        return len(lets) == 1 and _fresh_child(fn, lets[0]["init"], depth + 1, root)
    t = str(A.ftxt(e))
    if t == "Box::new(%s)" % FRESH:
        return True
    if t in ("Box::new(RenderHandle::new(next))", "Box::new(Self::new(next))"):
        try:
            nf = A.find_fn(RM, "new", self_ty="RenderHandle", root=root)
        except A.AnchorLost:
            return False
        body = str(A.ftxt(nf["body"]))
        p0 = [A.binding_name(i_["pat"]) for i_ in nf["sig"]["inputs"] if isinstance(i_, dict) and "pat" in i_]
        return len(p0) == 1 and body in ("{Self{shape:%s,i_tape:None,f_tape:None,g_tape:None,next:None}}" % p0[0], "{RenderHandle{shape:%s,i_tape:None,f_tape:None,g_tape:None,next:None}}" % p0[0])
    return False


def _stored_key(fn):
    """the key expression of `self.next = Some((KEY, Box::new(RenderHandle {..})))`"""
    asg = [a for a in A.find(fn["body"], "Assign") if str(A.ftxt(a["left"])) == "self.next"]
    out = []
    for a in asg:
        r = A.strip(a["right"])
        if r.get("k") == "Call" and A.is_path(r["func"], "Some") and len(r["args"]) == 1:
            tup = A.strip(r["args"][0])
            if tup.get("k") == "Tuple" and len(tup["elems"]) == 2 and _fresh_child(fn, tup["elems"][1]):
                out.append(tup["elems"][0])
    return out


def hfn(name, root=None):
    return A.find_fn(RM, name, self_ty="RenderHandle", root=root)


def r_cache_key(rule, root=None):
    fn = hfn("simplify", root)
    t = txt(fn["body"])
    # the cached child is torn down (`self.next.take()` + recycle) exactly when a child is cached and its stored
    # trace differs from the new one - whether written as if-let + if, or as a guarded match arm
    takes = [c for c in A.find(fn["body"], "MethodCall") if c["method"] == "take" and str(txt(c["recv"])) == "self.next"]
    if len(takes) != 1:
        rule.lost("the `if &neighbor.0 != trace` comparison in RenderHandle::simplify")
    else:
        tk = takes[0]
        pats = [(p, scr) for p, scr in (A.enclosing_patterns(fn["body"], tk) or []) if str(txt(scr)) in ("&self.next", "self.next.as_ref()", "self.next")]
        stored = set()
        for p, _scr in pats:
            segs, subs = A.pat_variant(p) if p.get("k") == "PTupleStruct" else (None, None)
            if segs and segs[-1] == "Some" and subs:
                inner = subs[0]
                if A.binding_name(inner):
                    n_ = A.binding_name(inner)
                    stored |= {"&%s.0" % n_, "%s.0" % n_}
                elif inner.get("k") == "PTuple" and inner["elems"] and A.binding_name(inner["elems"][0]):
                    stored |= {A.binding_name(inner["elems"][0]), "&" + A.binding_name(inner["elems"][0]), "*" + A.binding_name(inner["elems"][0])}
        conds = [A.norm_cond(c) for c in (A.enclosing_conds(fn["body"], tk) or [])]
        cmp_ = []
        for c in conds:
            for a_ in stored:
                if c in ("%s!=trace" % a_, "trace!=%s" % a_, "!%s==trace" % a_, "!trace==%s" % a_):
                    cmp_.append(c)
        blk = None
        for b in A.find(fn["body"], "Block"):
            if any(n is tk for n in A.walk(b)) and (blk is None or b["ln"] >= blk["ln"]):
                blk = b
        th = txt(blk) if blk is not None else ""
        others = [c for c in conds if c not in cmp_ and not c.startswith("match") and "Some(" not in c]
        if stored and cmp_ and not others and th.fmatch("$N.recycle(shape_storage,tape_storage)") is not None:
            rule.ok("a cached child is dropped (and recycled) exactly when its stored trace differs from the new trace; otherwise it is reused", file=RM, line=tk["ln"])
        else:
            rule.bad("cache|compare", "the cached simplification must be discarded iff `&neighbor.0 != trace` (found conditions %s): reusing a child built for another trace evaluates the wrong tape" % conds, A.where(fn, tk))
    need = [
        ("a new child is simplified from this handle's shape with the current trace", "letnext=self.shape.simplify(trace,s,workspace).unwrap();"),
        ("an unhelpful simplification is recycled and the parent used instead", "if(next.size()>=self.shape.size()){shape_storage.extend(next.recycle());self}"),
    ]
    # a new child is only built when no reusable one is cached - whichever branch that is
    mk = [c for c in A.find(fn["body"], "MethodCall") if c["method"] == "simplify" and str(A.ftxt(A.strip(c["recv"]))) == "self.shape"]
    cs_ = [A.norm_cond(c) for c in (A.enclosing_conds(fn["body"], mk[0]) or [])] if len(mk) == 1 else []
    if "self.next.is_none()" in cs_ or "!self.next.is_some()" in cs_:
        rule.ok("RenderHandle::simplify: a new child is only built when no reusable one is cached", file=RM, line=fn["ln"])
    else:
        rule.bad("cache|a new child is only built wh", "RenderHandle::simplify: a new child is only built when no reusable one is cached (the `self.shape.simplify(..)` call must sit under `self.next.is_none()`; found %s)" % cs_, A.where(fn))
    keys = _stored_key(fn)
    if len(keys) == 1:
        rule.ok("RenderHandle::simplify: the new child starts with empty tape caches and no child of its own", file=RM, line=fn["ln"])
    else:
        rule.bad("cache|the new child starts with em", "RenderHandle::simplify: the new child starts with empty tape caches and no child of its own (`Box::new(RenderHandle{shape:next, .. None})` or RenderHandle::new(next) not found as the stored child)", A.where(fn))
    if len(keys) != 1:
        rule.bad("cache|the key is stored next to th", "RenderHandle::simplify: the key is stored next to the child it was built for (`self.next = Some((key, Box::new(RenderHandle {..})))` not found)", A.where(fn))
    else:
        rule.ok("RenderHandle::simplify: the key is stored next to the child it was built for", file=RM, line=fn["ln"])
        if _is_trace_copy(fn, keys[0]):
            rule.ok("RenderHandle::simplify: the stored key is a copy of the current trace", file=RM, line=fn["ln"])
        else:
            rule.bad("cache|the stored key is a copy of ", "RenderHandle::simplify: the stored key is a copy of the current trace (`%s` is not `trace.clone()` / recycled storage after `.copy_from(trace)` on every path)" % str(A.ftxt(keys[0]))[:60], A.where(fn))
    for what, frag in need:
        if frag in t:
            rule.ok("RenderHandle::simplify: %s" % what, file=RM, line=fn["ln"])
        else:
            rule.bad("cache|%s" % what[:28], "RenderHandle::simplify: %s (`%s` not found)" % (what, frag[:60]), A.where(fn))
    if t.count("&mutself.next.as_mut().unwrap().1") == 2:
        rule.ok("both the reused and the freshly built child are returned as the handle for the sub-region")
    else:
        rule.bad("cache|return", "simplify must return the cached / new child (`&mut self.next...1`) on both paths", A.where(fn))
    for name, tape in (("i_tape", "interval_tape"), ("f_tape", "float_slice_tape"), ("g_tape", "grad_slice_tape")):
        f = hfn(name, root)
        tt = txt(f["body"])
        if "self.%s.get_or_insert_with(||{self.shape.%s(storage.pop().unwrap_or_default())})" % (name, tape) in tt or _lazy_slot(f, name, tape):
            rule.ok("RenderHandle::%s caches this shape's own %s" % (name, tape), file=RM, line=f["ln"])
        else:
            rule.bad("tape|%s" % name, "RenderHandle::%s must cache `self.shape.%s(..)` in its own slot" % (name, tape), A.where(f))


def r_recycle(rule, root=None):
    fn = hfn("recycle", root)
    seq = [txt(s) for s in fn["body"]["stmts"]]
    child = next((i for i, s in enumerate(seq) if "self.next.take()" in s and "shape.recycle(shape_storage,tape_storage)" in s), None)
    shape = next((i for i, s in enumerate(seq) if s.startswith("shape_storage.extend(self.shape.recycle())")), None)
    tapes = [i for i, s in enumerate(seq) if "tape_storage.extend(" in s and ("_tape.recycle()" in s or re.search(r"self\.\w_tape\.take\(\)\.and_then\(\|(\w+)\|\1\.recycle\(\)\)", str(s)))]
    if child is not None and shape is not None and len(tapes) == 3 and child < min(tapes) and shape > max(tapes) and shape == len(seq) - 1:
        rule.ok("recycle: child first, then the three tape caches, the shape's own storage last", file=RM, line=fn["ln"])
    else:
        rule.bad("recycle|order", "RenderHandle::recycle must recycle the child first, then i/g/f tapes, then the shape's storage (tapes hold handles into it)", A.where(fn))
    for name in ("i_tape", "g_tape", "f_tape"):
        if any("ifletSome(%s)=self.%s.take(){tape_storage.extend(%s.recycle());}" % (name, name, name) in s or re.fullmatch(r"tape_storage\.extend\(self\.%s\.take\(\)\.and_then\(\|(\w+)\|\1\.recycle\(\)\)\);" % name, str(s)) or re.fullmatch(r"ifletSome\((\w+)\)=self\.%s\.take\(\)\{tape_storage\.extend\(\1\.recycle\(\)\);\}" % name, str(s)) for s in seq):
            rule.ok("recycle: %s storage returns to the tape pool" % name)
        else:
            rule.bad("recycle|%s" % name, "recycle must return the %s storage to tape_storage" % name, A.where(fn))
