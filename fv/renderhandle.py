"""fidget-core/src/render/mod.rs RenderHandle: cached simplification keyed by trace,
tape caches, recycle order (C04.R4, C10.R5)."""
from . import ast as A

RM = "fidget-core/src/render/mod.rs"


def txt(n):
    return A.ftxt(n)


def hfn(name, root=None):
    return A.find_fn(RM, name, self_ty="RenderHandle", root=root)


def r_cache_key(rule, root=None):
    fn = hfn("simplify", root)
    t = txt(fn["body"])
    ifs = [i for i in A.find(fn["body"], "If") if "neighbor" in txt(i["cond"]) and "trace" in txt(i["cond"]) and A.strip(i["cond"]).get("k") == "Binary"]
    if len(ifs) != 1:
        rule.lost("the `if &neighbor.0 != trace` comparison in RenderHandle::simplify")
    else:
        c = A.strip(ifs[0]["cond"])
        th = txt(ifs[0]["then"])
        el = txt(ifs[0]["else"]) if ifs[0].get("else") else ""
        if c["op"] == "!=" and txt(c["left"]) == "&neighbor.0" and txt(c["right"]) == "trace" and "self.next.take().unwrap()" in th and "neighbor.recycle(shape_storage,tape_storage)" in th and el == "{None}":
            rule.ok("a cached child is dropped (and recycled) exactly when its stored trace differs from the new trace; otherwise it is reused", file=RM, line=ifs[0]["ln"])
        else:
            rule.bad("cache|compare", "the cached simplification must be discarded iff `&neighbor.0 != trace` (found `%s`): reusing a child built for another trace evaluates the wrong tape" % txt(c), A.where(fn, ifs[0]))
    need = [
        ("a new child is simplified from this handle's shape with the current trace", "letnext=self.shape.simplify(trace,s,workspace).unwrap();"),
        ("the stored key is a copy of the current trace", "ifletSome(t)=trace_storage.as_mut(){t.copy_from(trace);}else{trace_storage=Some(trace.clone());}"),
        ("the new child starts with empty tape caches and no child of its own", "Box::new(RenderHandle{shape:next,i_tape:None,f_tape:None,g_tape:None,next:None})"),
        ("the key is stored next to the child it was built for", "self.next=Some((trace_storage.unwrap(),Box::new("),
        ("an unhelpful simplification is recycled and the parent used instead", "if(next.size()>=self.shape.size()){shape_storage.extend(next.recycle());self}"),
        ("a new child is only built when no reusable one is cached", "ifself.next.is_none(){"),
    ]
    for what, frag in need:
        if frag in t:
            rule.ok("RenderHandle::simplify: %s" % what, file=RM, line=fn["ln"])
        else:
            rule.bad("cache|%s" % what[:28], "RenderHandle::simplify: %s (`%s` not found)" % (what, frag[:60]), A.where(fn))
    if t.count("&mutself.next.as_mut().unwrap().1") == 2:
        rule.ok("both the reused and the freshly built child are returned as the handle for the sub-region")
    else:
        rule.bad("cache|return", "simplify must return the cached / new child (`&mut self.next...1`) on both paths", A.where(fn))
    for name, tape in (("i_tape", "interval_tape"), ("f_tape", "float_slice_tape"), ("g_tape", "grad_slice_tape")):
        f = hfn(name, root)
        tt = txt(f["body"])
        if "self.%s.get_or_insert_with(||{self.shape.%s(storage.pop().unwrap_or_default())})" % (name, tape) in tt:
            rule.ok("RenderHandle::%s caches this shape's own %s" % (name, tape), file=RM, line=f["ln"])
        else:
            rule.bad("tape|%s" % name, "RenderHandle::%s must cache `self.shape.%s(..)` in its own slot" % (name, tape), A.where(f))


def r_recycle(rule, root=None):
    fn = hfn("recycle", root)
    seq = [txt(s) for s in fn["body"]["stmts"]]
    child = next((i for i, s in enumerate(seq) if "self.next.take()" in s and "shape.recycle(shape_storage,tape_storage)" in s), None)
    shape = next((i for i, s in enumerate(seq) if s.startswith("shape_storage.extend(self.shape.recycle())")), None)
    tapes = [i for i, s in enumerate(seq) if "tape_storage.extend(" in s and "_tape.recycle()" in s]
    if child is not None and shape is not None and len(tapes) == 3 and child < min(tapes) and shape > max(tapes) and shape == len(seq) - 1:
        rule.ok("recycle: child first, then the three tape caches, the shape's own storage last", file=RM, line=fn["ln"])
    else:
        rule.bad("recycle|order", "RenderHandle::recycle must recycle the child first, then i/g/f tapes, then the shape's storage (tapes hold handles into it)", A.where(fn))
    for name in ("i_tape", "g_tape", "f_tape"):
        if any("ifletSome(%s)=self.%s.take(){tape_storage.extend(%s.recycle());}" % (name, name, name) in s for s in seq):
            rule.ok("recycle: %s storage returns to the tape pool" % name)
        else:
            rule.bad("recycle|%s" % name, "recycle must return the %s storage to tape_storage" % name, A.where(fn))
