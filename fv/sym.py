"""E5: translate closed-form source expressions (the Tree-building DSL, Grad
methods, Context rewrites) into sympy expressions so that two *source
expressions* can be compared algebraically.  No fidget code is run."""
import sympy as sp

from . import ast as A


class Untranslatable(Exception):
    pass


class SymEnv:
    def __init__(self, vars=None):
        self.vars = dict(vars or {})
        self.syms = {}

    def sym(self, name, **kw):
        if name not in self.syms:
            self.syms[name] = sp.Symbol(name, real=True, **kw)
        return self.syms[name]

    def copy(self):
        e = SymEnv(self.vars)
        e.syms = self.syms
        return e


TRANSPARENT = {"clone", "into", "to_owned", "vec", "borrow"}

UNARY_METHODS = {
    "square": lambda a: a**2,
    "sqrt": lambda a: sp.sqrt(a),
    "abs": lambda a: sp.Abs(a),
    "neg": lambda a: -a,
    "sin": sp.sin, "cos": sp.cos, "tan": sp.tan, "asin": sp.asin, "acos": sp.acos, "atan": sp.atan,
    "exp": sp.exp, "ln": sp.log,
    "recip": lambda a: 1 / a,
    "to_radians": lambda a: a * sp.pi / 180,
    "to_degrees": lambda a: a * 180 / sp.pi,
    "floor": sp.floor, "ceil": sp.ceiling,
}
BINARY_METHODS = {
    "max": lambda a, b: sp.Max(a, b),
    "min": lambda a, b: sp.Min(a, b),
    "modulo": lambda a, b: sp.Mod(a, b),
    "rem_euclid": lambda a, b: sp.Mod(a, b),
    "atan2": lambda a, b: sp.atan2(a, b),
    "powi": lambda a, b: a**b,
    "powf": lambda a, b: a**b,
    "add": lambda a, b: a + b, "sub": lambda a, b: a - b, "mul": lambda a, b: a * b, "div": lambda a, b: a / b,
}


def field_name(e):
    """`v.center.x` -> 'center_x' (the leading variable is dropped)"""
    parts = []
    while e.get("k") == "Field":
        parts.append(e["member"])
        e = A.strip(e["e"])
    if e.get("k") == "MethodCall" and e["method"] in TRANSPARENT and not e["args"]:
        return field_name_from(e, parts)
    if e.get("k") == "Path" and len(e["segs"]) == 1:
        return e["segs"][0], list(reversed(parts))
    return None, None


def field_name_from(e, parts):
    inner = A.strip(e["recv"])
    b, p = field_name(inner)
    if b is None:
        return None, None
    return b, p + list(reversed(parts))


def to_sym(e, env):
    e = A.strip(e)
    if e is None:
        raise Untranslatable("none")
    k = e.get("k")
    if k == "Lit":
        if e["ty"] == "int":
            return sp.Integer(int(e["v"]))
        if e["ty"] == "float":
            return sp.nsimplify(e["v"], rational=True)
        raise Untranslatable("literal %s" % e["s"])
    if k == "Path":
        if len(e["segs"]) == 1:
            n = e["segs"][0]
            if n in env.vars:
                return env.vars[n]
            return env.sym(n)
        s = "::".join(e["segs"])
        if s in ("f32::INFINITY", "std::f32::INFINITY"):
            return sp.oo
        if s == "f32::NEG_INFINITY":
            return -sp.oo
        if s.endswith("consts::PI"):
            return sp.pi
        return env.sym(s.replace("::", "_"))
    if k == "Cast":
        return to_sym(e["e"], env)
    if k == "Field":
        base, parts = field_name(e)
        if base is None:
            raise Untranslatable("field of %s" % A.unparse(e))
        if base in env.vars and not isinstance(env.vars[base], dict):
            # a local that is itself a struct-valued symbol: name its fields after what it holds,
            # not after the local (a renamed local is the same data)
            v0 = env.vars[base]
            stem = v0.name if isinstance(v0, sp.Symbol) else base
            return env.sym("_".join([stem] + parts))
        if base in env.vars and isinstance(env.vars[base], dict):
            d = env.vars[base]
            key = "_".join(parts)
            if key in d:
                return d[key]
            return env.sym(d.get("__prefix__", base) + "_" + key)
        # conventional: drop the owner (`v` / `value`)
        return env.sym("_".join(parts))
    if k == "Unary":
        if e["op"] == "-":
            return -to_sym(e["e"], env)
        raise Untranslatable("unary %s" % e["op"])
    if k == "Binary":
        a, b = to_sym(e["left"], env), to_sym(e["right"], env)
        op = e["op"]
        if op == "+":
            return a + b
        if op == "-":
            return a - b
        if op == "*":
            return a * b
        if op == "/":
            return a / b
        raise Untranslatable("binary %s" % op)
    if k == "MethodCall":
        m = e["method"]
        if m in TRANSPARENT and not e["args"]:
            return to_sym(e["recv"], env)
        if m in UNARY_METHODS and not e["args"]:
            return UNARY_METHODS[m](to_sym(e["recv"], env))
        if m in BINARY_METHODS and len(e["args"]) == 1:
            return BINARY_METHODS[m](to_sym(e["recv"], env), to_sym(e["args"][0], env))
        raise Untranslatable("method %s" % m)
    if k == "Call":
        segs = A.path_segs(e["func"]) or []
        if segs[-2:] == ["Tree", "constant"] and len(e["args"]) == 1:
            return to_sym(e["args"][0], env)
        if segs and segs[-1] == "from" and len(e["args"]) == 1:
            return to_sym(e["args"][0], env)
        # a private helper of the same file: read its body with the parameters bound to the arguments
        if segs and (len(segs) == 1 or segs[0] == "Self") and getattr(env, "depth", 0) < 3:
            here = A.owner_fn(e)
            callee = A._same_file_fn(here, segs[-1]) if here is not None else None
            if callee is not None and callee.get("body"):
                params = [A.binding_name(i["pat"]) for i in callee["sig"]["inputs"] if isinstance(i, dict) and "pat" in i]
                if len(params) == len(e["args"]) and None not in params:
                    sub = env.copy()
                    sub.vars = dict(env.vars)
                    sub.depth = getattr(env, "depth", 0) + 1
                    for p, a in zip(params, e["args"]):
                        sub.vars[p] = to_sym(a, env)
                    tail = bind_lets(callee["body"]["stmts"], sub)
                    if tail is not None:
                        return to_sym(tail, sub)
        raise Untranslatable("call %s" % A.unparse(e["func"]))
    if k == "Struct" and getattr(env, "depth", 0) < 3:
        # a shape built in place and converted (`Tree::from(Inverse { shape: x })`): read `impl From<T> for Tree`
        # of the same file with the parameter's fields bound to the literal's
        ty = (A.path_segs(e["path"]) or [None])[-1]
        here = A.owner_fn(e)
        path = (here or {}).get("_file")
        if ty and path:
            impls = [i for i in A.find_impls(path, self_ty="Tree", root=getattr(env, "root", None)) if (i.get("trait") or "").replace(" ", "") == "From<%s>" % ty]
            if len(impls) == 1:
                f = [x for x in impls[0]["items"] if x.get("k") == "Fn" and x["name"] == "from"]
                if f and f[0].get("body"):
                    params = [A.binding_name(i["pat"]) for i in f[0]["sig"]["inputs"] if isinstance(i, dict) and "pat" in i]
                    if len(params) == 1 and params[0]:
                        sub = env.copy()
                        sub.vars = dict(env.vars)
                        sub.depth = getattr(env, "depth", 0) + 1
                        sub.vars[params[0]] = {x["name"]: to_sym(x["e"], env) for x in e["fields"]}
                        tail = bind_lets(f[0]["body"]["stmts"], sub)
                        if tail is not None:
                            return to_sym(tail, sub)
        raise Untranslatable("struct %s" % ty)
    raise Untranslatable(k)


def bind_lets(stmts, env):
    """process `let a = expr;` / `let (x, y, z) = Tree::axes();` in order; returns the tail expression"""
    tail = None
    for s in stmts:
        if s.get("k") == "Let":
            p = s["pat"]
            init = s.get("init")
            if p.get("k") == "PType":
                p = p["pat"]
            if p.get("k") == "PTuple" and init is not None and "axes" in A.unparse(init):
                for n, ax in zip(p["elems"], ("x", "y", "z")):
                    nm = A.binding_name(n)
                    if nm:
                        env.vars[nm] = env.sym(ax)
                continue
            if p.get("k") == "PStruct" and init is not None:
                # `let Sphere { center, radius: r } = v;` names v.center and v.radius
                for f in p.get("fields", []):
                    b = A.binding_name(f["pat"])
                    if b:
                        try:
                            env.vars[b] = to_sym({"k": "Field", "e": init, "member": f["name"]}, env)
                        except Untranslatable:
                            env.vars.pop(b, None)
                continue
            nm = A.binding_name(p)
            if nm and init is not None:
                try:
                    env.vars[nm] = to_sym(init, env)
                except Untranslatable:
                    env.vars.pop(nm, None)
            continue
        e = A.stmt_expr(s)
        if e is not None and not s.get("semi", False):
            tail = e
    return tail


def equal(a, b):
    try:
        d = sp.simplify(a - b)
        if d == 0:
            return True
    except Exception:
        pass
    try:
        return bool(sp.simplify(a) == sp.simplify(b)) or a.equals(b) is True
    except Exception:
        return False
