"""Normalising expressions of the opcode tables into comparable terms.

A term is a nested tuple:
    ('R', role)            a register read, role in {'A','B','out',...} or a raw name
    ('I',)                 the immediate of the opcode
    ('lit', v)             a numeric literal
    ('bin', op, l, r)      binary operator
    ('neg', x)             unary minus
    ('m', name, recv, *args)  method call (or `Type::name(recv, args..)`)
    ('val', t)             the value half of a `*_choice` pair
    ('choice', t)          the choice half
    ('var', name)          some other variable
    ('?', text)            anything not understood

Conversions that do not change which value is denoted (`.into()`,
`T::from(x)`, `.clone()`, `x as T`, `*x`, `&x`, parentheses) are transparent.
"""
from . import ast as A

TRANSPARENT_METHODS = {"into", "clone", "to_owned", "borrow", "as_ref"}
TRANSPARENT_FROM = {"from"}


class Env:
    def __init__(self, roles=None, slot_names=("v",), index_names=("i",)):
        self.vars = {}
        self.slot_names = set(slot_names)
        self.index_names = set(index_names)
        for k, v in (roles or {}).items():
            self.vars[k] = v

    def copy(self):
        e = Env(slot_names=self.slot_names, index_names=self.index_names)
        e.vars = dict(self.vars)
        return e


def norm(e, env):
    e = A.strip(e)
    if e is None:
        return ("?", "none")
    k = e.get("k")
    if k == "Path":
        if len(e["segs"]) == 1:
            n = e["segs"][0]
            if n in env.vars:
                return env.vars[n]
            return ("var", n)
        return ("var", "::".join(e["segs"]))
    if k == "Lit":
        if e["ty"] in ("int", "float"):
            return ("lit", float(e["v"]))
        return ("lit", e["s"])
    if k == "Cast":
        return norm(e["e"], env)
    if k == "Index":
        base = A.strip(e["e"])
        idx = A.strip(e["index"])
        # v[x][i]  ->  v[x]
        if A.ident(idx) in env.index_names and base.get("k") == "Index":
            return norm(base, env)
        if A.ident(base) in env.slot_names:
            t = norm(idx, env)
            if t[0] == "R":
                return ("R", t[1])
            if t[0] == "var":
                return ("R", t[1])
            return ("slot", t)
        return ("idx", norm(base, env), norm(idx, env))
    if k == "Unary":
        if e["op"] == "-":
            return ("neg", norm(e["e"], env))
        if e["op"] == "!":
            return ("not!", norm(e["e"], env))
    if k == "Binary":
        return ("bin", e["op"], norm(e["left"], env), norm(e["right"], env))
    if k == "MethodCall":
        if e["method"] in TRANSPARENT_METHODS and not e["args"]:
            return norm(e["recv"], env)
        return ("m", e["method"], norm(e["recv"], env)) + tuple(norm(a, env) for a in e["args"])
    if k == "Call":
        segs = A.path_segs(e["func"])
        if segs and len(segs) >= 2 and segs[-1] in TRANSPARENT_FROM and len(e["args"]) == 1:
            return norm(e["args"][0], env)
        if segs and len(segs) >= 2 and e["args"]:
            # Type::method(recv, args..)
            return ("m", segs[-1]) + tuple(norm(a, env) for a in e["args"])
        if segs:
            return ("call", "::".join(segs)) + tuple(norm(a, env) for a in e["args"])
    if k == "Field":
        inner = norm(e["e"], env)
        if e["member"] == "0" and inner[0] == "m" and inner[1].endswith("_choice"):
            return ("val", inner)
        if e["member"] == "1" and inner[0] == "m" and inner[1].endswith("_choice"):
            return ("choice", inner)
        return ("field", inner, e["member"])
    if k == "Tuple":
        return ("tuple",) + tuple(norm(x, env) for x in e["elems"])
    return ("?", A.unparse(e)[:80])


def bind_let(stmt, env):
    """update env for `let name = expr;`, `let name: T = expr;`,
    `let (a, b) = x.min_choice(y);`"""
    p = stmt["pat"]
    init = stmt.get("init")
    if init is None:
        return
    if p.get("k") == "PType":
        p = p["pat"]
    if p.get("k") == "PIdent":
        env.vars[p["name"]] = norm(init, env)
    elif p.get("k") == "PTuple" and len(p["elems"]) == 2:
        t = norm(init, env)
        a, b = (A.binding_name(x) for x in p["elems"])
        if t[0] == "m" and t[1].endswith("_choice"):
            if a:
                env.vars[a] = ("val", t)
            if b:
                env.vars[b] = ("choice", t)
        else:
            if a:
                env.vars[a] = ("field", t, "0")
            if b:
                env.vars[b] = ("field", t, "1")


def show(t):
    if not isinstance(t, tuple):
        return str(t)
    h = t[0]
    if h == "R":
        return "reg:%s" % t[1]
    if h == "I":
        return "imm"
    if h == "lit":
        return repr(t[1])
    if h == "bin":
        return "(%s %s %s)" % (show(t[2]), t[1], show(t[3]))
    if h == "neg":
        return "-%s" % show(t[1])
    if h == "m":
        return "%s.%s(%s)" % (show(t[2]) if len(t) > 2 else "", t[1], ", ".join(show(x) for x in t[3:]))
    if h == "val":
        return "%s.0" % show(t[1])
    if h == "choice":
        return "%s.1" % show(t[1])
    if h == "var":
        return t[1]
    return "%s(%s)" % (h, ", ".join(show(x) for x in t[1:]))


# ---------------------------------------------------------------------------
# opcode names


FORMS = ("RegReg", "RegImm", "ImmReg", "Reg")


def split_variant(name):
    """'SubImmReg' -> ('Sub', 'ImmReg'); 'NegReg' -> ('Neg','Reg');
    'CopyImm' -> ('Copy','Imm'); 'Load' -> ('Load', '')"""
    for f in ("RegReg", "RegImm", "ImmReg"):
        if name.endswith(f):
            return name[: -len(f)], f
    if name.endswith("Reg") and name != "Reg":
        return name[:-3], "Reg"
    if name == "CopyImm":
        return "Copy", "Imm"
    return name, ""


UNARY_BASES = [
    "Neg", "Abs", "Recip", "Sqrt", "Square", "Floor", "Ceil", "Round", "Sin", "Cos",
    "Tan", "Asin", "Acos", "Atan", "Exp", "Ln", "Not", "Rand",
]
BINARY_BASES = ["Add", "Sub", "Mul", "Div", "Atan", "Min", "Max", "Compare", "Mod", "And", "Or", "Mix"]
CHOICE_BASES = {"Min", "Max", "And", "Or"}


def expected_unary(base, a):
    """acceptable value terms for a unary opcode applied to `a`"""
    one = ("lit", 1.0)
    zero = ("lit", 0.0)
    m = {
        "Neg": [("neg", a)],
        "Abs": [("m", "abs", a)],
        "Recip": [("m", "recip", a), ("bin", "/", one, a), ("bin", "/", ("var", "one"), a)],
        "Sqrt": [("m", "sqrt", a)],
        "Square": [("m", "square", a), ("bin", "*", a, a)],
        "Floor": [("m", "floor", a)],
        "Ceil": [("m", "ceil", a)],
        "Round": [("m", "round", a)],
        "Sin": [("m", "sin", a)],
        "Cos": [("m", "cos", a)],
        "Tan": [("m", "tan", a)],
        "Asin": [("m", "asin", a)],
        "Acos": [("m", "acos", a)],
        "Atan": [("m", "atan", a)],
        "Exp": [("m", "exp", a)],
        "Ln": [("m", "ln", a)],
        "Not": [("m", "not", a), ("bin", "==", a, zero)],
        "Rand": [("m", "rand", a)],
        "Copy": [a],
    }
    return m.get(base)


def expected_binary(base, l, r, scalar=False):
    """`scalar`: the operands are plain f32 values.  There `x.min(y)` / `x.max(y)` is std's NaN-*ignoring* min / max,
    while every evaluator's min / max propagates NaN (`min_choice(..).0`); for Interval and Grad operands `.min()` is
    the type's own NaN-aware method"""
    def choice(n):
        if scalar and n in ("min", "max"):
            return [("val", ("m", n + "_choice", l, r))]
        return [("val", ("m", n + "_choice", l, r)), ("m", n, l, r)]

    m = {
        "Add": [("bin", "+", l, r), ("bin", "+", r, l)],
        "Sub": [("bin", "-", l, r)],
        "Mul": [("bin", "*", l, r), ("bin", "*", r, l)],
        "Div": [("bin", "/", l, r)],
        "Atan": [("m", "atan2", l, r)],
        "Min": choice("min"),
        "Max": choice("max"),
        "And": choice("and"),
        "Or": choice("or"),
        "Compare": [("m", "compare", l, r)],
        "Mod": [("m", "rem_euclid", l, r)],
        "Mix": [("m", "mix", l, r)],
    }
    return m.get(base)


def operands_for_form(form, a="A", b="B"):
    """semantic (lhs, rhs) for an opcode whose payload is (out, a, b)"""
    if form == "RegReg":
        return ("R", a), ("R", b)
    if form == "RegImm":
        return ("R", a), ("I",)
    if form == "ImmReg":
        return ("I",), ("R", a)
    raise ValueError(form)
