"""Symbolic lane semantics of the branch-free x86_64 clauses (the aarch64 twin is fv/a64sem.py).

Each vector register is eight 32-bit lanes holding either a sympy expression over the operand lanes or a
known bit pattern (all-ones, the sign mask, a float constant moved in through eax).  A clause is interpreted
once from its dynasm source; its output lanes must equal the opcode's meaning on real numbers, also when
the allocator gives the output the register of an operand.  Rounding is not modelled.  Instructions outside
the subset make their destination unknown, and an unknown output lane is reported as *not analysed*."""
import copy as _copy
import re
import struct

import sympy as sp

from . import asm as M
from . import asmchecks as AC
from . import a64sem as S64

N = 8
Lx = sp.symbols("L0:8", real=True)
Rx = sp.symbols("R0:8", real=True)
ZERO = sp.Integer(0)
NEED = {"point": (0,), "interval": (0, 1), "grad_slice": (0, 1, 2, 3), "float_slice": tuple(range(8))}


class Bits:
    def __init__(self, v):
        self.v = v & 0xFFFFFFFF

    def __eq__(self, o):
        return isinstance(o, Bits) and o.v == self.v

    def __hash__(self):
        return hash(("bits", self.v))

    def __repr__(self):
        return "bits(%#x)" % self.v


def _as_float(v):
    """value of a lane as a real: a float constant's bit pattern is its value"""
    if isinstance(v, Bits):
        f = struct.unpack("<f", struct.pack("<I", v.v))[0]
        if f != f or f in (float("inf"), float("-inf")):
            return None
        return sp.nsimplify(f)
    return v


def _bitop(op, a, b):
    """and / or / xor / andn of two lanes"""
    if a is None or b is None:
        return None
    if isinstance(a, Bits) and isinstance(b, Bits):
        return Bits({"and": a.v & b.v, "or": a.v | b.v, "xor": a.v ^ b.v, "andn": (~a.v) & b.v}[op])
    if isinstance(b, Bits) and not isinstance(a, Bits):
        if op == "andn":
            # (~a) & b with symbolic a: not modelled
            return None
        a, b = b, a
    if isinstance(a, Bits):
        k = a.v
        if op == "xor":
            return -b if k == 0x80000000 else (b if k == 0 else None)
        if op == "and":
            return sp.Abs(b) if k == 0x7FFFFFFF else (b if k == 0xFFFFFFFF else (ZERO if k == 0 else None))
        if op == "or":
            return b if k == 0 else None
        if op == "andn":
            # (~k) & b
            nk = (~k) & 0xFFFFFFFF
            return sp.Abs(b) if nk == 0x7FFFFFFF else (b if nk == 0xFFFFFFFF else (ZERO if nk == 0 else None))
    if op == "xor" and a == b:
        return ZERO
    return None


def _imm_int(t):
    t = t.replace(" ", "")
    for _ in range(3):
        t = re.sub(r"as(i8|u8|i32|u32|i64|u64)$", "", t)
        if t.startswith("(") and t.endswith(")") and t.count("(") == t.count(")") and not t.endswith("to_bits()"):
            t = t[1:-1]
    m = re.fullmatch(r"\(?(-?[\d.]+)(?:_?f32)?\)?\.to_bits\(\)", t)
    if m:
        return struct.unpack("<I", struct.pack("<f", float(m.group(1))))[0]
    t = re.sub(r"(_?[iu](8|32|64))$", "", t)
    try:
        return int(t.replace("_", ""), 0) & 0xFFFFFFFF
    except ValueError:
        return None


class Unknown(Exception):
    pass


class Emu:
    def __init__(self, assign, imm_const=None):
        self.v = {}
        self.assign = assign
        self.g = {}
        self.imm_const = imm_const  # the literal a clause passes to its own load_imm call
        self.lets = {}  # local `let name = <immediate expression>;` of the clause

    def imm(self, text):
        k = _imm_int(text)
        t = text.replace(" ", "")
        if k is None and t in self.lets:
            k = _imm_int(self.lets[t])
        return k

    def get(self, o):
        n = o.name
        if n in self.v:
            return list(self.v[n])
        if n in self.assign:
            return list(self.assign[n])
        return [None] * N

    def put(self, o, lanes, vex=True):
        lanes = list(lanes)
        w = 8 if o.width == 32 else 4
        cur = self.get(o)
        out = lanes[:w] + ([ZERO] * (N - w) if vex else cur[w:])
        self.v[o.name] = (out + [None] * N)[:N]

    def step(self, x):
        m, ops = x.mnem, x.ops
        e = M.effect(x)
        if e.kind == "label":
            return
        if e.kind in ("jcc", "jmp", "call", "cmp", "setcc", "push", "pop", "ret") or e.unknown:
            raise Unknown("`%r` is outside the straight-line subset" % x)
        vec = [o for o in ops if o.kind == "vec"]
        vex = m.startswith("v")
        base = m[1:] if vex else m
        d = ops[0]
        if d.kind == "gpr":
            if m == "mov" and len(ops) == 2 and ops[1].kind == "imm":
                k = self.imm(ops[1].text)
                if k is None and self.imm_const is not None and "imm" in ops[1].text:
                    k = self.imm_const
                self.g[d.name] = Bits(k) if k is not None else None
            elif base in ("movd", "movq") and len(ops) == 2 and ops[1].kind == "vec":
                self.g[d.name] = self.get(ops[1])[0]
            else:
                self.g[d.name] = None
            return
        if d.kind != "vec":
            if d.kind == "mem":
                raise Unknown("`%r` stores" % x)
            raise Unknown("`%r`" % x)
        w = 8 if d.width == 32 else 4
        ar = {"add": lambda a, b: a + b, "sub": lambda a, b: a - b, "mul": lambda a, b: a * b, "div": lambda a, b: a / b,
              "min": lambda a, b: sp.Min(a, b), "max": lambda a, b: sp.Max(a, b)}
        mm = re.fullmatch(r"(add|sub|mul|div|min|max)(ps|ss)", base)
        if mm and all(o.kind == "vec" for o in ops):
            f = ar[mm.group(1)]
            if len(ops) == 3:
                a, b = self.get(ops[1]), self.get(ops[2])
            elif len(ops) == 2:
                a, b = self.get(ops[0]), self.get(ops[1])
            else:
                raise Unknown("`%r`" % x)
            a = [_as_float(q) for q in a]
            b = [_as_float(q) for q in b]
            if mm.group(2) == "ps":
                self.put(d, [None if (p is None or q is None) else f(p, q) for p, q in zip(a, b)], vex)
            else:
                lane0 = None if (a[0] is None or b[0] is None) else f(a[0], b[0])
                rest = a[1:4] if len(ops) == 3 else self.get(d)[1:4]
                self.put(d, [lane0] + rest, vex)
            return
        if base in ("roundss", "roundps") and ops[-1].kind == "imm":
            k = self.imm(ops[-1].text)
            rnd = {1: sp.floor, 2: sp.ceiling, 3: lambda q_: sp.Piecewise((sp.floor(q_), q_ >= 0), (sp.ceiling(q_), True)),
                   0: sp.Function("round_to_nearest_even")}.get((k or 0) & 7) if k is not None else None
            src = self.get(ops[-2])
            if base == "roundps":
                self.put(d, [None if (rnd is None or _as_float(q) is None) else rnd(_as_float(q)) for q in src], vex)
            else:
                keep = self.get(ops[1])[1:4] if len(ops) == 4 else self.get(d)[1:4]
                q = _as_float(src[0])
                self.put(d, [None if (rnd is None or q is None) else rnd(q)] + keep, vex)
            return
        if base in ("sqrtps",) and len(ops) == 2:
            a = [_as_float(q) for q in self.get(ops[1])]
            self.put(d, [None if p is None else sp.sqrt(p) for p in a], vex)
            return
        if base == "sqrtss":
            src = ops[-1]
            a = _as_float(self.get(src)[0])
            keep = self.get(ops[1])[1:4] if len(ops) == 3 else self.get(d)[1:4]
            self.put(d, [None if a is None else sp.sqrt(a)] + keep, vex)
            return
        mm = re.fullmatch(r"p?(xor|and|or|andn)(ps|pd|d|q)?", base)
        if mm and all(o.kind == "vec" for o in ops):
            op = mm.group(1)
            if len(ops) == 3:
                a, b = self.get(ops[1]), self.get(ops[2])
            else:
                a, b = self.get(ops[0]), self.get(ops[1])
            same = (ops[1].name == ops[2].name) if len(ops) == 3 else (ops[0].name == ops[1].name)
            if op == "xor" and same:
                self.put(d, [Bits(0)] * w, vex)
            else:
                self.put(d, [_bitop(op, p, q) for p, q in zip(a, b)], vex)
            return
        if re.fullmatch(r"cmpunord(ps|ss)", base) and len(ops) == 3 and ops[1].name == ops[2].name:
            # "is NaN": on the real numbers this model speaks about, never (NaN handling is the hazard / nanflow rules')
            self.put(d, [Bits(0)] * w, vex)
            return
        if re.fullmatch(r"pcmpeq[bwdq]", base) and len({o.name for o in vec}) == 1 and len(vec) == len(ops):
            self.put(d, [Bits(0xFFFFFFFF)] * w, vex)
            return
        if base in ("pslld", "psrld") and ops[-1].kind == "imm":
            src = self.get(ops[1]) if len(ops) == 3 else self.get(d)
            k = self.imm(ops[-1].text)
            out = []
            for p in src:
                if isinstance(p, Bits) and k is not None:
                    out.append(Bits((p.v << k) if base == "pslld" else (p.v >> k)))
                else:
                    out.append(None)
            self.put(d, out, vex)
            return
        if base in ("movd", "movq") and len(ops) == 2 and ops[1].kind == "gpr":
            self.put(d, [self.g.get(ops[1].name)] + [Bits(0)] * 3, True)
            return
        if base in ("broadcastss", "pbroadcastd") and len(ops) == 2 and ops[1].kind == "vec":
            self.put(d, [self.get(ops[1])[0]] * w, vex)
            return
        if base in ("movups", "movaps", "movdqa", "movdqu") and len(ops) == 2 and ops[1].kind == "vec":
            self.put(d, self.get(ops[1]), vex)
            return
        if base == "movss" and len(ops) == 3 and all(o.kind == "vec" for o in ops):
            a, b = self.get(ops[1]), self.get(ops[2])
            self.put(d, [b[0]] + a[1:4], vex)
            return
        if base == "movss" and len(ops) == 2 and ops[1].kind == "vec":
            cur = self.get(d)
            if vex:
                raise Unknown("`%r`" % x)
            self.put(d, [self.get(ops[1])[0]] + cur[1:4], False)
            return
        if base == "movq" and len(ops) == 2 and ops[1].kind == "vec":
            s = self.get(ops[1])
            self.put(d, [s[0], s[1], Bits(0), Bits(0)], True)
            return
        if base == "pshufd" and len(ops) == 3 and ops[2].kind == "imm" and ops[1].kind == "vec":
            k = self.imm(ops[2].text)
            if k is None:
                raise Unknown("`%r`" % x)
            k &= 0xFF
            s = self.get(ops[1])
            self.put(d, [s[(k >> (2 * l)) & 3] for l in range(4)], vex)
            return
        # anything else: destination unknown
        self.put(d, [None] * w, vex)


def _local_lets(b):
    from . import ast as A_

    out = {}
    for s_ in A_.find(b.fn["body"], "Let"):
        n_ = A_.binding_name(s_["pat"])
        if n_ and s_.get("init") is not None:
            out[n_] = A_.unparse(s_["init"])
    return out


def _eq(a, b):
    a = _as_float(a)
    if a is None or b is None:
        return False
    try:
        return sp.simplify(a - b) == 0
    except Exception:  # noqa: BLE001
        return False


def check_lane_semantics(rule, kind, root=None):
    p = AC.path_of(kind)
    builders = M.load_builders(p, root)
    need = NEED[kind]
    for op in S64.OPS_UNARY + S64.OPS_BINARY:
        name = "build_%s" % op
        b = builders.get(name)
        if b is None:
            rule.lost("x86_64 %s %s" % (kind, name))
            continue
        if b.helper_calls and any(n.startswith("call_fn") for n, _a, _c in b.helper_calls):
            continue
        ins = AC.stream(b, builders)
        if any(M.effect(x).kind in ("jmp", "jcc", "call", "cmp", "setcc") for x in ins if x.label is None):
            continue  # branching clauses: hazards / choice protocol / corner reduction rules
        outp = AC.out_param(b)
        inputs = [n_ for (n_, ty) in b.params if ty == "u8" and n_ != outp]
        if not outp or len(inputs) != (1 if op in S64.OPS_UNARY else 2):
            rule.lost("x86_64 %s %s: operand registers" % (kind, name))
            continue
        scen = [("distinct", {})] + [("out = %s" % n_, {"T:%s" % outp: "T:%s" % n_}) for n_ in inputs]
        bad = None
        a = list(Lx)
        bb = list(Rx) if len(inputs) == 2 else None
        if kind == "grad_slice":
            want = S64._grad(op, a, bb)
        elif kind == "interval":
            want = S64._interval(op, a, bb)
        else:
            want = S64._lanewise(op, a, bb, len(need))
        if want is None:
            rule.skip("x86_64 %s %s" % (kind, name), "no closed form for this opcode on %s values" % kind, count=True)
            continue
        for desc, alias in scen:
            assign = {"T:%s" % inputs[0]: list(Lx)}
            if len(inputs) == 2:
                assign["T:%s" % inputs[1]] = list(Rx)
            lit = None
            for hn, _args, node in b.helper_calls:
                if hn == "load_imm" and node["args"]:
                    from . import ast as A_

                    v_ = A_.lit_value(node["args"][0])
                    if v_ is not None:
                        lit = struct.unpack("<I", struct.pack("<f", float(v_)))[0]
            em = Emu(assign, lit)
            em.lets = _local_lets(b)
            try:
                for x in ins:
                    if alias:
                        x = _copy.deepcopy(x)
                        for o in x.ops:
                            if o.kind == "vec" and o.name in alias:
                                o.name = alias[o.name]
                    em.step(x)
            except Unknown as e_:
                bad = ("unanalysed", str(e_))
                break
            out_name = alias.get("T:%s" % outp, "T:%s" % outp)
            got = em.v.get(out_name) or [None] * N
            for l in need:
                if l >= len(want):
                    continue
                if got[l] is None:
                    bad = ("unknown", "lane %d of the output is computed by instructions outside the modelled subset (%s)" % (l, desc))
                    break
                if not _eq(got[l], want[l]):
                    bad = ("value", "lane %d of the output is `%s`, the opcode means `%s` (%s)" % (l, _as_float(got[l]), want[l], desc))
                    break
            if bad:
                break
        if bad is None:
            rule.ok("x86_64 %s %s computes %s on every lane, also with the output aliased to an operand" % (kind, name, op), file=p, line=b.fn["ln"])
        elif bad[0] == "value":
            rule.bad("x86|%s|%s|sem" % (kind, name), "x86_64 %s %s: %s" % (kind, name, bad[1]), "%s:%d" % (p, b.fn["ln"]))
        else:
            rule.skip("x86_64 %s %s" % (kind, name), bad[1], count=True)


# ---------------------------------------------------------------------------
# mask logic: compare / not / and / or (the branch-free forms), as in fv/a64sem.py

Msk, Sel, NANV, _atom, _sel_equal = S64.Msk, S64.Sel, S64.NANV, S64._atom, S64._sel_equal


def _as_mask(v):
    if isinstance(v, Msk):
        return v
    if isinstance(v, Bits):
        if v.v == 0xFFFFFFFF:
            return Msk(sp.true)
        if v.v == 0:
            return Msk(sp.false)
    return None


def _as_value(v):
    """a lane as a plain value (float constants by their value)"""
    if isinstance(v, Bits):
        if v.v == 0:
            return ZERO
        return _as_float(v)
    if isinstance(v, (Msk, Sel)):
        return None
    return v


class MaskEmu(Emu):
    def step(self, x):
        m, ops = x.mnem, x.ops
        e = M.effect(x)
        if e.kind == "label":
            return
        vex = (m or "").startswith("v")
        base = m[1:] if vex else m
        mm = re.fullmatch(r"cmp(eq|lt|le|gt|ge|unord|ord|neq|nlt|nle)(ps|ss)", base or "")
        if mm and len(ops) == 3 and all(o.kind == "vec" for o in ops):
            d = ops[0]
            a, b = self.get(ops[1]), self.get(ops[2])
            rel = mm.group(1)
            same = ops[1].name == ops[2].name
            out = []
            for p, q in zip(a, b):
                pv, qv = _as_value(p), _as_value(q)
                if pv is None or qv is None:
                    out.append(None)
                elif rel == "unord" and same:
                    out.append(Msk(sp.Not(_atom("num", pv))))
                elif rel == "ord" and same:
                    out.append(Msk(_atom("num", pv)))
                elif rel == "eq" and (pv == ZERO or qv == ZERO):
                    out.append(Msk(_atom("eq0", qv if pv == ZERO else pv)))
                elif rel == "lt":
                    out.append(Msk(_atom("gt", qv, pv)))
                elif rel == "gt":
                    out.append(Msk(_atom("gt", pv, qv)))
                else:
                    out.append(None)
            if mm.group(2) == "ss":
                out = [out[0]] + a[1:4]
            self.put(d, out, vex)
            return
        if base in ("blendvps", "pblendvb") and len(ops) == 4 and all(o.kind == "vec" for o in ops):
            # d = sign bit of the selector lane ? second source : first source
            d = ops[0]
            a, b, sel = self.get(ops[1]), self.get(ops[2]), self.get(ops[3])
            out = []
            for p, q, s_ in zip(a, b, sel):
                ms = _as_mask(s_)
                if ms is None:
                    sv = _as_value(s_)
                    if sv is None:
                        out.append(None)
                        continue
                    # the selector lane is a *value*, not a compare mask: its sign bit decides
                    ms = Msk(_atom("sgn", sv))

                def terms(v):
                    if isinstance(v, Sel):
                        return list(v.terms)
                    vv = _as_value(v)
                    if vv is None:
                        return None
                    return [] if vv == ZERO else [(sp.true, vv)]

                tp, tq = terms(p), terms(q)
                if tp is None or tq is None:
                    out.append(None)
                    continue
                out.append(Sel([(sp.And(ms.b, g), v) for g, v in tq] + [(sp.And(sp.Not(ms.b), g), v) for g, v in tp]))
            self.put(d, out, vex)
            return
        mm = re.fullmatch(r"p?(xor|and|or|andn)(ps|pd|d|q)?", base or "")
        if mm and len(ops) in (2, 3) and all(o.kind == "vec" for o in ops):
            op = mm.group(1)
            d = ops[0]
            if len(ops) == 3:
                a, b = self.get(ops[1]), self.get(ops[2])
                same = ops[1].name == ops[2].name
            else:
                a, b = self.get(ops[0]), self.get(ops[1])
                same = ops[0].name == ops[1].name
            w = 8 if d.width == 32 else 4
            if op == "xor" and same:
                self.put(d, [Bits(0)] * w, vex)
                return
            out = []
            for p, q in zip(a, b):
                out.append(self._bit(op, p, q))
            self.put(d, out, vex)
            return
        Emu.step(self, x)

    @staticmethod
    def _bit(op, p, q):
        if p is None or q is None:
            return None
        mp, mq = _as_mask(p), _as_mask(q)
        if op == "andn":
            # (~p) & q
            if mp is None:
                return None
            p, mp = Msk(sp.Not(mp.b)), Msk(sp.Not(mp.b))
            op = "and"
        if mp is not None and mq is not None:
            f = {"and": sp.And, "or": sp.Or, "xor": sp.Xor}[op]
            return Msk(f(mp.b, mq.b))
        if op == "xor":
            r = _bitop("xor", p, q) if not isinstance(p, (Msk, Sel)) and not isinstance(q, (Msk, Sel)) else None
            return r
        if op == "and":
            if mq is not None and mp is None:
                p, q, mp, mq = q, p, mq, mp
            if mp is not None:
                if isinstance(q, Sel):
                    return Sel([(sp.And(mp.b, g), v) for g, v in q.terms])
                qv = _as_value(q)
                if qv is None:
                    return None
                return ZERO if qv == ZERO else Sel([(mp.b, qv)])
            r = _bitop("and", p, q) if not isinstance(p, Sel) and not isinstance(q, Sel) else None
            return r

        def terms(v):
            if isinstance(v, Sel):
                return v.terms
            mv = _as_mask(v)
            if mv is not None:
                # all-ones OR-ed into a value: an all-ones word is a NaN ("conveniently")
                return [] if mv.b == sp.false else [(mv.b, NANV)]
            vv = _as_value(v)
            if vv is None:
                return None
            return [] if vv == ZERO else [(sp.true, vv)]

        tp, tq = terms(p), terms(q)
        if tp is None or tq is None:
            return None
        return Sel(tp + tq)


def check_mask_logic(rule, kind, root=None):
    """x86_64 twin of a64sem.check_mask_logic for the clauses that are branch-free here"""
    p = AC.path_of(kind)
    builders = M.load_builders(p, root)
    need = NEED[kind]
    one, mone = sp.Integer(1), sp.Integer(-1)
    if kind == "interval":
        return
    for name in ("build_compare", "build_not", "build_and", "build_or"):
        b = builders.get(name)
        if b is None:
            rule.lost("x86_64 %s %s" % (kind, name))
            continue
        ins = [x for x in AC.stream(b, builders) if x.label is None]
        if any(M.effect(x).kind in ("jmp", "jcc", "call", "cmp", "setcc") for x in ins):
            continue
        outp = AC.out_param(b)
        inputs = [n_ for (n_, ty) in b.params if ty == "u8" and n_ != outp]
        scen = [("distinct", {})] + [("out = %s" % n_, {"T:%s" % outp: "T:%s" % n_}) for n_ in inputs]
        verdict = None
        for desc, alias in scen:
            assign = {"T:%s" % inputs[0]: list(Lx)}
            if len(inputs) == 2:
                assign["T:%s" % inputs[1]] = list(Rx)
            lit = None
            for hn, _args, node in b.helper_calls:
                if hn == "load_imm" and node["args"]:
                    from . import ast as A_

                    v_ = A_.lit_value(node["args"][0])
                    if v_ is not None:
                        lit = struct.unpack("<I", struct.pack("<f", float(v_)))[0]
            em = MaskEmu(assign, lit)
            em.lets = _local_lets(b)
            try:
                for x in ins:
                    if alias:
                        x = _copy.deepcopy(x)
                        for o in x.ops:
                            if o.kind == "vec" and o.name in alias:
                                o.name = alias[o.name]
                    em.step(x)
            except Unknown as e_:
                verdict = ("skip", str(e_))
                break
            got = em.v.get(alias.get("T:%s" % outp, "T:%s" % outp)) or [None] * N
            for l in need:
                k = 0 if kind == "grad_slice" else l
                a, bq = Lx[k], (Rx[k] if len(inputs) == 2 else None)
                if name == "build_compare":
                    want = ZERO if (kind == "grad_slice" and l > 0) else Sel([(_atom("gt", bq, a), mone), (_atom("gt", a, bq), one), (sp.Not(sp.And(_atom("num", a), _atom("num", bq))), NANV)])
                elif name == "build_not":
                    want = ZERO if (kind == "grad_slice" and l > 0) else Sel([(_atom("eq0", a), one)])
                elif name == "build_and":
                    want = Sel([(_atom("eq0", a), Lx[l]), (sp.Not(_atom("eq0", a)), Rx[l])])
                else:
                    want = Sel([(sp.Not(_atom("eq0", a)), Lx[l]), (_atom("eq0", a), Rx[l])])
                g = got[l]
                if isinstance(g, Bits):
                    g = _as_value(g)
                if g is None or isinstance(g, Msk):
                    verdict = ("skip", "lane %d of the output is built by instructions outside the modelled subset (%s)" % (l, desc))
                    break
                ok, why = _sel_equal(g, want)
                if not ok:
                    verdict = ("bad", "lane %d (%s): %s" % (l, desc, why))
                    break
            if verdict:
                break
        if verdict is None:
            rule.ok("x86_64 %s %s: mask logic gives the opcode's value in every lane" % (kind, name), file=p, line=b.fn["ln"])
        elif verdict[0] == "bad":
            rule.bad("x86|%s|%s|mask" % (kind, name), "x86_64 %s %s: %s" % (kind, name, verdict[1]), "%s:%d" % (p, b.fn["ln"]))
        else:
            rule.skip("x86_64 %s %s" % (kind, name), verdict[1], count=True)
