"""The quadrant tables of Interval::sin / Interval::cos, decided cell by cell.

Below the early exits (NaN, a whole period, a single point) the two functions classify each bound by the quarter
period it lies in and pick their result from a table `match (lower_quadrant, upper_quadrant)`, some cells also
asking whether the box is at least half a period wide.  Measured in quarter periods the lower bound sits at
t in [qa, qa + 1) and the upper bound at t + d with 0 < d < 4, so the number k of quarter-period boundaries inside
the box is fixed by the cell: k = (qb - qa) mod 4, except that equal quadrants mean k = 0 (d < 1) or k = 4 (d > 3),
and k boundaries need k - 1 < d < k + 1.  The extrema of the function sit on known boundaries (sin: maximum at
1 mod 4, minimum at 3 mod 4; cos: 0 and 2), so for every feasible (qa, qb, half-period class) it is known whether
a maximum / minimum lies inside the box and, when none does, whether the function rises or falls across it.  The
arm the table selects for that cell must return an enclosure:

    upper = 1.0 when a maximum is inside; otherwise 1.0, max(f(lower), f(upper)), or the single endpoint that is
    the larger one (f(upper) only where the function rises across the whole box, f(lower) only where it falls);
    lower symmetrically with -1.0 / min.

Nothing is evaluated: arms are matched by pattern, results are read as the two argument expressions of
`Interval::new`.  Rounding of the quadrant classification itself is not modelled (C03.R1q covers how it is
computed)."""
import re

import sympy as sp

from . import ast as A

IV = "fidget-core/src/types/interval.rs"
EXT = {"sin": (1, 3, (3, 0)), "cos": (0, 2, (2, 3))}  # (max position, min position, rising quadrants)


def _qname(p):
    k = p.get("k")
    if k == "PIdent":
        return {p["name"]}
    if k == "PWild":
        return {"Q0", "Q1", "Q2", "Q3"}
    if k == "POr":
        out = set()
        for c in p["cases"]:
            out |= _qname(c) or set()
        return out
    if k == "PPath" or "path" in p:
        segs = (p.get("path") or {}).get("segs") or p.get("segs")
        if segs:
            return {segs[-1]}
    return None


def _arm_cells(pat):
    """set of (qa, qb) a tuple pattern covers, or None when it is not a table pattern"""
    out = set()
    for p in A.flatten_or(pat):
        if p.get("k") == "PWild":
            out |= {(a, b) for a in range(4) for b in range(4)}
            continue
        if p.get("k") != "PTuple" or len(p["elems"]) != 2:
            return None
        qa, qb = _qname(p["elems"][0]), _qname(p["elems"][1])
        if not qa or not qb:
            return None
        try:
            out |= {(int(a[1:]), int(b[1:])) for a in qa for b in qb}
        except ValueError:
            return None
    return out


_WIDE = re.compile(r"^\(?(?:self\.width\(\)|\(?self\.upper(?:\(\))?-self\.lower(?:\(\))?\)?)>=(?:PI|std::f32::consts::PI|core::f32::consts::PI)\)?$")


def _half_period(cond):
    """+1: the condition says the box is at least half a period wide, -1: that it is not, None: something else"""
    c = cond.replace(" ", "")
    neg = False
    while c.startswith("!"):
        neg = not neg
        c = c[1:]
    if _WIDE.match(c):
        return -1 if neg else 1
    c2 = c.strip("()")
    m = re.fullmatch(r"(?:self\.width\(\)|self\.upper(?:\(\))?-self\.lower(?:\(\))?)<(?:PI|std::f32::consts::PI)", c2)
    if m:
        return 1 if neg else -1
    return None


def _token(e, f):
    """classify a bound expression of the result"""
    t = A.unparse(e).replace(" ", "")
    t = t.replace("self.lower()", "self.lower").replace("self.upper()", "self.upper")
    lo, hi = "self.lower.%s()" % f, "self.upper.%s()" % f
    if t in ("1.0", "1f32", "1.0f32", "1.0_f32"):
        return "one"
    if t in ("-1.0", "-1f32", "-1.0f32", "-1.0_f32", "(-1.0)"):
        return "mone"
    if t == lo:
        return "flo"
    if t == hi:
        return "fhi"
    if t in ("%s.min(%s)" % (lo, hi), "%s.min(%s)" % (hi, lo), "f32::min(%s,%s)" % (lo, hi), "f32::min(%s,%s)" % (hi, lo)):
        return "min"
    if t in ("%s.max(%s)" % (lo, hi), "%s.max(%s)" % (hi, lo), "f32::max(%s,%s)" % (lo, hi), "f32::max(%s,%s)" % (hi, lo)):
        return "max"
    return None


def _cells():
    for qa in range(4):
        for qb in range(4):
            r = (qb - qa) % 4
            if r == 0:
                yield qa, qb, 0, -1
                yield qa, qb, 4, 1
            elif r == 1:
                yield qa, qb, 1, -1
            elif r == 2:
                yield qa, qb, 2, -1
                yield qa, qb, 2, 1
            else:
                yield qa, qb, 3, 1


def r_quadrant_tables(rule, root=None):
    for f in ("sin", "cos"):
        fn = A.find_fn(IV, f, self_ty="Interval", root=root)
        view = A.value_view(fn)
        ms = [m for m in A.find(view["body"], "Match") if all(_arm_cells(a["pat"]) is not None for a in m["arms"]) and len(m["arms"]) >= 4]
        if not ms:
            rule.lost("the (lower quadrant, upper quadrant) table of Interval::%s" % f)
            continue
        m = ms[0]
        scrut = A.strip(m["e"])
        order = None
        if scrut.get("k") == "Tuple" and len(scrut["elems"]) == 2:
            ts = [A.unparse(x).replace(" ", "") for x in scrut["elems"]]
            lo_first = ["lower" in ts[0] and "upper" not in ts[0], "upper" in ts[1] and "lower" not in ts[1]]
            hi_first = ["upper" in ts[0] and "lower" not in ts[0], "lower" in ts[1] and "upper" not in ts[1]]
            order = "lo,hi" if all(lo_first) else ("hi,lo" if all(hi_first) else None)
        if order is None:
            rule.skip("Interval::%s quadrant table" % f, "its scrutinee `%s` is not (quadrant of lower, quadrant of upper)" % A.unparse(m["e"]), count=True)
            continue
        mx, mn, rising = EXT[f]
        for qa, qb, k, wide in _cells():
            key = "%s|Q%d,Q%d|%s" % (f, qa, qb, "wide" if wide > 0 else "narrow")
            cell = (qa, qb) if order == "lo,hi" else (qb, qa)
            sel = None
            why = None
            for arm in m["arms"]:
                if cell not in _arm_cells(arm["pat"]):
                    continue
                if arm.get("guard") is not None:
                    h = _half_period(A.unparse(arm["guard"]))
                    if h is None:
                        why = "an arm guard `%s` is not a half-period test" % A.unparse(arm["guard"])
                        break
                    if h != wide:
                        continue
                sel = arm
                break
            if why:
                rule.skip("Interval::%s %s" % (f, key), why, count=True)
                continue
            if sel is None:
                rule.bad(key + "|none", "Interval::%s: no arm of the quadrant table covers a box from Q%d to Q%d (%s half a period)" % (f, qa, qb, "at least" if wide > 0 else "under"), A.where(IV, m))
                continue
            leaves = []
            for leaf, conds in A.value_cases(sel["body"]):
                hs = [_half_period(c) for c in conds]
                if any(h is None for h in hs):
                    leaves = None
                    why = "a condition among %s is not a half-period test" % conds
                    break
                if all(h == wide for h in hs):
                    leaves.append(leaf)
            if leaves is None or len(leaves) != 1:
                rule.skip("Interval::%s %s" % (f, key), why or "the arm yields %d values for this cell" % len(leaves or []), count=True)
                continue
            leaf = A.strip(leaves[0])
            segs = A.path_segs(leaf.get("func")) if leaf.get("k") == "Call" else None
            if not segs or segs[-2:] != ["Interval", "new"] or len(leaf["args"]) != 2:
                rule.skip("Interval::%s %s" % (f, key), "the arm's value `%s` is not `Interval::new(lower, upper)`" % A.unparse(leaf)[:80], count=True)
                continue
            lo_t, hi_t = _token(leaf["args"][0], f), _token(leaf["args"][1], f)
            if lo_t is None or hi_t is None:
                rule.skip("Interval::%s %s" % (f, key), "a bound of `%s` is outside the recognised forms" % A.unparse(leaf)[:80], count=True)
                continue
            crossed = [(qa + j) % 4 for j in range(1, k + 1)]
            has_max, has_min = mx in crossed, mn in crossed
            mono = not has_max and not has_min
            up = mono and qa in rising
            down = mono and qa not in rising
            box = "a box from Q%d to Q%d %s half a period wide (%d quarter-period boundar%s inside)" % (qa, qb, "at least" if wide > 0 else "under", k, "y" if k == 1 else "ies")
            bad = None
            if has_max and hi_t != "one":
                bad = "%s contains a maximum of %s, so the upper bound must be 1.0; the table gives `%s`" % (box, f, A.unparse(leaf["args"][1]))
            elif not has_max and not (hi_t in ("one", "max") or (hi_t == "fhi" and up) or (hi_t == "flo" and down)):
                bad = "across %s %s %s; the table's upper bound `%s` is not its larger end" % (box, f, "rises" if up else ("falls" if down else "turns at a minimum, so either end may be the larger"), A.unparse(leaf["args"][1]))
            elif has_min and lo_t != "mone":
                bad = "%s contains a minimum of %s, so the lower bound must be -1.0; the table gives `%s`" % (box, f, A.unparse(leaf["args"][0]))
            elif not has_min and not (lo_t in ("mone", "min") or (lo_t == "flo" and up) or (lo_t == "fhi" and down)):
                bad = "across %s %s %s; the table's lower bound `%s` is not its smaller end" % (box, f, "rises" if up else ("falls" if down else "turns at a maximum, so either end may be the smaller"), A.unparse(leaf["args"][0]))
            if bad:
                rule.bad(key, "Interval::%s: %s" % (f, bad), A.where(IV, sel))
            else:
                rule.ok("Interval::%s %s -> %s encloses" % (f, key, A.unparse(leaf)[:60]), file=IV, line=sel.get("ln", fn["ln"]))
    r_quadrant_fn(rule, root)


def r_quadrant_fn(rule, root=None):
    """`quadrant(angle)` numbers quarter periods: floor(angle / (pi / 2)) mod 4, arm k -> Qk"""
    fn = A.find_fn(IV, "quadrant", self_ty="Interval", root=root)
    view = A.value_view(fn)
    ms = list(A.find(view["body"], "Match"))
    if not ms:
        rule.lost("the match of Interval::quadrant")
        return
    m = ms[0]
    fl = [c for c in A.find(m["e"], "MethodCall") if c["method"] == "floor"]
    if not fl:
        rule.skip("Interval::quadrant scaling", "no `.floor()` in its scrutinee", count=True)
    else:
        t = A.unparse(A.strip(fl[0]["recv"])).replace(" ", "")
        t2 = re.sub(r"(?:std|core)::f32::consts::", "", t)
        t2 = re.sub(r"(\d)(?:_?f32)\b", r"\1", t2)
        angle, pi = sp.Symbol("angle"), sp.pi
        try:
            e = sp.sympify(t2, locals={"angle": angle, "PI": pi, "FRAC_PI_2": pi / 2, "FRAC_2_PI": 2 / pi, "TAU": 2 * pi, "FRAC_PI_4": pi / 4, "FRAC_1_PI": 1 / pi})
            if sp.simplify(e - angle * 2 / pi) == 0:
                rule.ok("Interval::quadrant counts quarter periods (`%s`)" % t, file=IV, line=fn["ln"])
            else:
                rule.bad("quadrant|scale", "Interval::quadrant floors `%s`; a quadrant is a quarter period, i.e. floor(angle / (pi / 2))" % t, A.where(IV, fn))
        except Exception:  # noqa: BLE001
            rule.skip("Interval::quadrant scaling", "`%s` is outside the recognised arithmetic" % t, count=True)
    n = 0
    for arm in m["arms"]:
        p = arm["pat"]
        if p.get("k") != "PLit":
            continue
        try:
            kq = int(str((p.get("lit") or {}).get("v")).split(".")[0])
        except Exception:  # noqa: BLE001
            continue
        segs = A.path_segs(A.strip(arm["body"])) or []
        n += 1
        if not segs or segs[-1] != "Q%d" % kq:
            rule.bad("quadrant|arm|%d" % kq, "Interval::quadrant maps quarter period %d to `%s`" % (kq, A.unparse(arm["body"])), A.where(IV, arm))
        else:
            rule.ok("quarter period %d -> Q%d" % (kq, kq))
    if n < 4:
        rule.skip("Interval::quadrant arms", "only %d literal arms recognised" % n, count=True)


# ---------------------------------------------------------------------------------------------------------------
# Interval::atan2: corner selection by sign class


def _sign_class(conds, v):
    """'up' (v.lower >= 0), 'down' (v.upper <= 0), 'straddle' (both refused) or None (not tested) from the
    conditions enclosing a statement"""
    up = down = None
    for c in conds:
        t = c.replace(" ", "")
        neg = False
        while t.startswith("!"):
            neg = not neg
            t = t[1:]
        t = t.strip("()")
        if t in ("%s.lower>=0.0" % v, "%s.lower()>=0.0" % v, "0.0<=%s.lower" % v):
            up = not neg
        elif t in ("%s.upper<=0.0" % v, "%s.upper()<=0.0" % v, "0.0>=%s.upper" % v):
            down = not neg
    if up:
        return "up"
    if down:
        return "down"
    if up is False and down is False:
        return "straddle"
    return None


def r_atan2_corners(rule, root=None):
    """Away from the branch cut atan2(y, x) rises with y where x > 0 and falls where x < 0; it falls with x where
    y > 0 and rises where y < 0.  So over a box in one sign class the extreme angles sit at known corners, and
    the two corners each case of Interval::atan2 evaluates must be those."""
    fn = A.find_fn(IV, "atan2", self_ty="Interval", root=root)
    v = A.value_view(fn)
    # a corner evaluation: `update(y.bound, x.bound)` in a case, or the pair `(y.bound, x.bound)` a case yields for a
    # common `update` after the ladder
    xs_ = [A.binding_name(i_["pat"]) for i_ in fn["sig"]["inputs"] if isinstance(i_, dict) and "pat" in i_]
    xn = xs_[0] if xs_ else "x"
    yb = re.compile(r"^(?:y|self)\.(?:lower|upper)(?:\(\))?$")
    xb = re.compile(r"^%s\.(?:lower|upper)(?:\(\))?$" % re.escape(xn))

    def _corner(n_):
        if n_.get("k") == "Call" and len(n_.get("args", [])) == 2 and len(A.path_segs(n_["func"]) or []) == 1:
            el = n_["args"]
        elif n_.get("k") == "Tuple" and len(n_.get("elems", [])) == 2:
            el = n_["elems"]
        else:
            return None
        a_, b_ = (A.unparse(A.strip(e_)).replace(" ", "") for e_ in el)
        return el if yb.match(a_) and xb.match(b_) else None

    ups = []
    for n_ in A.walk(v["body"]):
        if isinstance(n_, dict) and _corner(n_) is not None:
            ups.append({"k": n_["k"], "args": _corner(n_), "ln": n_.get("ln", fn["ln"]), "_node": n_})
    if len(ups) < 8:
        rule.lost("the corner evaluations of Interval::atan2 (found %d)" % len(ups))
        return
    # which parameter is y (the receiver) and which is x
    leaves = {}
    for c in ups:
        conds = A.enclosing_conds(v["body"], c["_node"]) or []
        yc, xc = _sign_class(conds, "y"), _sign_class(conds, "x")
        if yc is None:
            yc = _sign_class(conds, "self")
        leaves.setdefault((yc, xc), []).append(c)
    for (yc, xc), cs in sorted(leaves.items(), key=lambda kv: str(kv[0])):
        if yc is None:
            rule.skip("Interval::atan2 corner case", "a case is not selected by the sign class of y", count=True)
            continue
        if yc == "straddle" and xc is None:
            xc = "up"  # the branch-cut guard has taken every box with x.lower < 0 (C03.R5 checks that guard)
        if xc is None:
            rule.skip("Interval::atan2 y %s" % yc, "the case is not selected by the sign class of x", count=True)
            continue
        if yc == "straddle" and xc != "up":
            rule.skip("Interval::atan2 y straddle, x %s" % xc, "behind the branch-cut guard this case is unreachable", count=True)
            continue
        # x coordinate of the maximum / minimum
        xm = "x.lower" if yc in ("up", "straddle") else "x.upper"
        xn = "x.upper" if yc == "up" else "x.lower"
        if yc == "straddle":
            xn = "x.lower"

        def sgn(xb):
            if xc == "up":
                return 1
            if xc == "down":
                return -1
            return -1 if xb == "x.lower" else 1

        ym = "y.upper" if sgn(xm) > 0 else "y.lower"
        yn = "y.lower" if sgn(xn) > 0 else "y.upper"
        got = {tuple(A.unparse(a).replace(" ", "").replace("()", "").replace("self.", "y.") for a in c["args"]) for c in cs}
        key = "atan2|y %s|x %s" % (yc, xc)
        miss = [("largest", (ym, xm)), ("smallest", (yn, xn))]
        miss = [(w, p) for w, p in miss if p not in got]
        if miss:
            w, p = miss[0]
            rule.bad(key, "Interval::atan2, y %s x %s: the %s angle of the box is at (%s, %s); the case evaluates %s" % (
                {"up": ">= 0", "down": "<= 0", "straddle": "straddling 0"}[yc], {"up": ">= 0", "down": "<= 0", "straddle": "straddling 0"}[xc], w, p[0], p[1],
                sorted("(%s, %s)" % g for g in got)), A.where(IV, cs[0]))
        else:
            rule.ok("Interval::atan2 y %s x %s evaluates the corners of its extreme angles" % (yc, xc), file=IV, line=cs[0]["ln"])


# ---------------------------------------------------------------------------------------------------------------
# Interval::rem_euclid: the "both ends in one period" shortcut at quotients that overflow


def _fl(op, x):
    import math

    if x != x:
        return x
    if op in ("floor", "ceil", "trunc", "round"):
        if x in (float("inf"), float("-inf")):
            return x
        return float({"floor": math.floor, "ceil": math.ceil, "trunc": math.trunc, "round": round}[op](x))
    if op == "fract":
        if x in (float("inf"), float("-inf")):
            return float("nan")
        return x - math.trunc(x)
    if op == "abs":
        return abs(x)
    raise KeyError(op)


def _guard_eval(e, env):
    """value of a boolean / f32 expression under IEEE semantics for the given locals; KeyError when outside the subset"""
    e = A.strip(e)
    k = e.get("k")
    if k == "Path":
        return env[A.ident(e)]
    if k == "Lit":
        return float(str(e.get("v")).replace("_", "").replace("f32", ""))
    if k == "Unary":
        v = _guard_eval(e["e"], env)
        if e.get("op") == "!":
            return not v
        if e.get("op") == "-":
            return -v
        raise KeyError(e.get("op"))
    if k == "MethodCall":
        v = _guard_eval(e["recv"], env)
        m = e["method"]
        if m == "is_nan":
            return v != v
        if m == "is_finite":
            return v == v and v not in (float("inf"), float("-inf"))
        if m == "is_infinite":
            return v in (float("inf"), float("-inf"))
        if not e["args"]:
            return _fl(m, v)
        raise KeyError(m)
    if k == "Binary":
        op = e["op"]
        if op == "&&":
            return bool(_guard_eval(e["left"], env)) and bool(_guard_eval(e["right"], env))
        if op == "||":
            return bool(_guard_eval(e["left"], env)) or bool(_guard_eval(e["right"], env))
        a, b = _guard_eval(e["left"], env), _guard_eval(e["right"], env)
        if op in ("==", "!=", "<", ">", "<=", ">="):
            return {"==": a == b, "!=": a != b, "<": a < b, ">": a > b, "<=": a <= b, ">=": a >= b}[op]
        if op in ("+", "-", "*"):
            r = {"+": lambda: a + b, "-": lambda: a - b, "*": lambda: a * b}[op]()
            return r
        raise KeyError(op)
    raise KeyError(k)


def r_rem_euclid_shortcut(rule, root=None):
    """`Interval::rem_euclid` answers [lower mod m, upper mod m] when both quotients lie in one period and the lower
    one is not a multiple.  For a huge box the quotients overflow to infinity (or are NaN); they then say nothing about
    periods, and the shortcut must be refused - the test has to come out false for a, b in {+-inf, NaN}."""
    fn = A.find_fn(IV, "rem_euclid", self_ty="Interval", root=root)
    target = None
    for i in A.find(fn["body"], "If"):
        t = A.unparse(i["then"]).replace(" ", "")
        if "self.lower.rem_euclid(" in t and "self.upper.rem_euclid(" in t and "Interval::new" in t:
            target = i
    if target is None:
        rule.skip("Interval::rem_euclid", "no same-period shortcut found", count=True)
        return
    # the names the quotients were given
    names = []
    for l_ in A.find(fn["body"], "Let"):
        it = A.unparse(l_.get("init") or {}).replace(" ", "")
        if l_.get("init") is not None and re.fullmatch(r"\(?self\.(lower|upper)/\w+\.(lower|upper)\)?", it):
            names.append((A.binding_name(l_["pat"]), "lower" in it.split("/")[0]))
    lo = [n for n, is_lo in names if is_lo]
    hi = [n for n, is_lo in names if not is_lo]
    if len(lo) != 1 or len(hi) != 1:
        rule.skip("Interval::rem_euclid", "the two quotients are not named by simple lets", count=True)
        return
    inf, nan = float("inf"), float("nan")
    bad = None
    try:
        for a, b in ((inf, inf), (-inf, -inf), (-inf, inf), (nan, nan), (1.5, inf), (-inf, 1.5), (nan, 1.5), (1.5, nan)):
            if _guard_eval(target["cond"], {lo[0]: a, hi[0]: b}):
                bad = (a, b)
                break
    except KeyError as ex:
        rule.skip("Interval::rem_euclid shortcut", "its test uses `%s`, outside the evaluated subset" % ex, count=True)
        return
    if bad:
        rule.bad("rem_euclid|overflow", "Interval::rem_euclid takes its same-period shortcut under `%s`, which holds for quotients (%s, %s): when |x| / m overflows the quotients carry no period information, and the shortcut returns two unrelated remainders instead of [0, m]" % (A.unparse(target["cond"])[:80], bad[0], bad[1]), A.where(IV, target))
    else:
        rule.ok("Interval::rem_euclid refuses its same-period shortcut for infinite or NaN quotients", file=IV, line=target["ln"])


# ---------------------------------------------------------------------------------------------------------------
# the interval choice functions, decided on a grid of bounds under f32 semantics


def _f32(x):
    import struct as _st

    if isinstance(x, bool) or x != x or x in (float("inf"), float("-inf")):
        return x
    try:
        return _st.unpack("<f", _st.pack("<f", x))[0]
    except OverflowError:
        return float("inf") if x > 0 else float("-inf")


def _ival_eval(e, env):
    """f32 / bool value of an expression over `self` and `rhs` intervals given as env["self"] = (lo, hi) etc."""
    e = A.strip(e)
    k = e.get("k")
    if k == "Lit":
        return _f32(float(str(e.get("v")).replace("_", "").replace("f32", "")))
    if k == "Unary":
        v = _ival_eval(e["e"], env)
        return (not v) if e.get("op") == "!" else (-v if e.get("op") == "-" else v)
    if k == "Field":
        base = A.ident(A.strip(e["e"]))
        if base in env and e["member"] in ("lower", "upper"):
            return env[base][0 if e["member"] == "lower" else 1]
        raise KeyError(A.unparse(e))
    if k == "MethodCall":
        m = e["method"]
        base = A.ident(A.strip(e["recv"]))
        if base in env and isinstance(env[base], tuple):
            lo, hi = env[base]
            if m in ("lower", "upper") and not e["args"]:
                return lo if m == "lower" else hi
            if m == "has_nan":
                return lo != lo or hi != hi
            if m == "contains" and len(e["args"]) == 1:
                v = _ival_eval(e["args"][0], env)
                return v >= lo and v <= hi
            raise KeyError(m)
        v = _ival_eval(e["recv"], env)
        if m == "is_nan":
            return v != v
        if m in ("min", "max") and len(e["args"]) == 1:
            w = _ival_eval(e["args"][0], env)
            if v != v:
                return w
            if w != w:
                return v
            return min(v, w) if m == "min" else max(v, w)
        if m == "abs":
            return abs(v)
        raise KeyError(m)
    if k == "Binary":
        op = e["op"]
        if op == "&&":
            return bool(_ival_eval(e["left"], env)) and bool(_ival_eval(e["right"], env))
        if op == "||":
            return bool(_ival_eval(e["left"], env)) or bool(_ival_eval(e["right"], env))
        a, b = _ival_eval(e["left"], env), _ival_eval(e["right"], env)
        if op in ("==", "!=", "<", ">", "<=", ">="):
            return {"==": a == b, "!=": a != b, "<": a < b, ">": a > b, "<=": a <= b, ">=": a >= b}[op]
        if op in ("+", "-", "*", "/"):
            try:
                r = {"+": lambda: a + b, "-": lambda: a - b, "*": lambda: a * b, "/": lambda: a / b}[op]()
            except ZeroDivisionError:
                r = float("nan") if a == 0 or a != a else (float("inf") if (a > 0) == (str(b)[0] != "-") else float("-inf"))
            return _f32(r)
        raise KeyError(op)
    if k == "Path":
        n = A.ident(e)
        if n in env and not isinstance(env[n], tuple):
            return env[n]
        raise KeyError(n)
    raise KeyError(k)


def _decide(fn, env):
    """the Choice a choice function answers for these operands: the first satisfied branch, in statement order, of the
    if-chains whose branches name a `Choice::` -> 'Left' / 'Right' / 'Both' (KeyError: outside the subset)"""
    def has_if(e):
        return any(True for _ in A.find(e, "If"))

    def eval_block(b):
        """the Choice named by the first statement of `b` that names one, following taken branches only"""
        b = A.strip(b) if isinstance(b, dict) else b
        stmts = A.stmts_of(b) if isinstance(b, dict) and b.get("k") == "Block" else [b]
        for st in stmts:
            e = st.get("e", st) if st.get("k") == "ExprStmt" else (st.get("init") if st.get("k") == "Let" else st)
            if e is None:
                continue
            e = A.strip(e)
            if e.get("k") == "Return" and e.get("e") is not None:
                e = A.strip(e["e"])
            if "Choice::" not in A.unparse(e):
                continue
            if e.get("k") == "If":
                r = chain(e)
                if r is not None:
                    return r
                continue
            if e.get("k") == "Block":
                r = eval_block(e)
                if r is not None:
                    return r
                continue
            if has_if(e):
                # a choice buried in a larger expression: follow its if-chains in order
                for sub in A.find(e, "If"):
                    if "Choice::" in A.unparse(sub):
                        r = chain(sub)
                        if r is not None:
                            return r
                        break
                continue
            m = re.findall(r"Choice::(\w+)", A.unparse(e))
            if m:
                return m[0]
        return None

    def chain(n):
        # -> variant name, or None when no branch of this chain is taken
        while n is not None and A.strip(n).get("k") == "If":
            n = A.strip(n)
            if _ival_eval(n["cond"], env):
                return eval_block(n["then"])
            n = n.get("else")
        if n is not None:
            return eval_block(n)
        return None

    return eval_block(fn["body"])


def r_choice_decisions(rule, root=None):
    """`Interval::{min,max,and,or}_choice` decide Left / Right exactly when the operands' bounds say so, for every
    magnitude of the bounds: the functions are evaluated (f32 arithmetic, IEEE comparisons) on a grid of bounds that
    includes tiny, huge, zero, negative-zero and infinite values - a test rewritten as a product of bounds is equal on
    paper and underflows to zero for a box well clear of zero"""
    vals = [float("-inf"), -1e30, -1.0, -1e-30, -0.0, 0.0, 1e-30, 1.0, 1e30, float("inf")]
    ivs = [(a, b) for a in vals for b in vals if a <= b]
    want = {
        "min_choice": lambda a, b: "Left" if a[1] < b[0] else ("Right" if b[1] < a[0] else "Both"),
        "max_choice": lambda a, b: "Left" if a[0] > b[1] else ("Right" if b[0] > a[1] else "Both"),
        "and_choice": lambda a, b: "Left" if (a[0] == 0 and a[1] == 0) else ("Right" if not (a[0] <= 0 <= a[1]) else "Both"),
        "or_choice": lambda a, b: "Left" if not (a[0] <= 0 <= a[1]) else ("Right" if (a[0] == 0 and a[1] == 0) else "Both"),
    }
    for name, w in want.items():
        fn = A.find_fn(IV, name, self_ty="Interval", root=root)
        params = [A.binding_name(i_["pat"]) for i_ in fn["sig"]["inputs"] if isinstance(i_, dict) and "pat" in i_]
        rn = params[0] if params else "rhs"
        bad = None
        n = 0
        try:
            for a in ivs:
                for b in (ivs if getattr(getattr(rule, "ctx", None), "tier", "quick") == "thorough" else ivs[::3]):
                    got = _decide(fn, {"self": a, rn: b})
                    n += 1
                    if got != w(a, b):
                        bad = (a, b, got, w(a, b))
                        break
                if bad:
                    break
        except KeyError as ex:
            rule.skip("Interval::%s" % name, "its decision uses `%s`, outside the evaluated subset" % ex, count=True)
            continue
        if bad:
            rule.bad("choice|%s" % name, "Interval::%s answers %s for lhs = [%s, %s], rhs = [%s, %s]; the bounds imply %s (the native clauses and the documented meaning decide on the bounds themselves)" % (name, bad[2], bad[0][0], bad[0][1], bad[1][0], bad[1][1], bad[3]), A.where(IV, fn))
        else:
            rule.ok("Interval::%s decides as its operands' bounds imply on %d operand pairs (tiny, huge, zero and infinite bounds included)" % (name, n), file=IV, line=fn["ln"])
